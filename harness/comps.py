"""Builders for real FEEMS components from JSON-able specs (so every case can be stored and
replayed), and generators of admissible efficiency curves."""
from __future__ import annotations

import numpy as np

from . import core  # noqa: F401
from feems.components_model.component_electric import (ElectricComponent, ElectricMachine, Battery, BatterySystem,
                                                       SuperCapacitor, SuperCapacitorSystem)
from feems.components_model.component_base import BasicComponent
from feems.types_for_feems import TypeComponent, TypePower, Power_kW, Speed_rpm, SwbId


def gen_eff_curve(rng, lo=0.5, hi=1.0, allow_clamp=False, wild=False):
    """A curve spec: a single value [[e]] or 2-6 points [[load, eff], …] (loads in (0,1],
    ascending), efficiencies in [lo, hi]. Not yet checked against the constructor."""
    if rng.random() < 0.3:
        e = float(np.round(rng.uniform(lo, hi), 3))
        if allow_clamp and rng.random() < 0.2:
            e = float(rng.choice([1.05, 0.005]))
        return [e]
    n = int(rng.integers(2, 7))
    loads = np.sort(rng.choice(np.arange(5, 101, 5), size=n, replace=False)) / 100.0
    if rng.random() < 0.6:
        loads[-1] = 1.0
        loads = np.unique(loads)
        n = len(loads)
    if wild:      # any efficiencies in [lo, hi] at the chosen loads (steep curves included)
        effs = np.sort(rng.uniform(lo, hi, n)) if rng.random() < 0.7 else rng.uniform(lo, hi, n)
        return [[float(l), float(np.round(e, 3))] for l, e in zip(loads, effs)]
    base = rng.uniform(lo + 0.05, hi)
    effs = np.clip(base - rng.uniform(0, 0.25) * (1 - loads) ** 2 + rng.normal(0, 0.005, n), lo, hi)
    return [[float(l), float(np.round(e, 4))] for l, e in zip(loads, effs)]


def curve_array(spec):
    if len(spec) == 1 and not isinstance(spec[0], list):
        return np.array([spec[0]])
    return np.array(spec, dtype=float)


def make_converter(spec):
    """spec: {name, rated, curve, type?}"""
    return ElectricComponent(type_=TypeComponent[spec.get("type", "POWER_CONVERTER")], name=spec.get("name", "conv"),
                             rated_power=Power_kW(spec["rated"]), eff_curve=curve_array(spec["curve"]),
                             power_type=TypePower[spec.get("power_type", "NONE")],
                             switchboard_id=SwbId(spec.get("swb", 1)))


def gen_accepted_curve(rng, rated, **kw):
    """Draw curves until BasicComponent's constructor accepts (monotone forward map)."""
    for _ in range(200):
        c = gen_eff_curve(rng, **kw)
        try:
            make_converter({"rated": rated, "curve": c})
            return c
        except Exception:
            continue
    return [0.95]


def covered_range(curve):
    """Load range spanned by the curve's own points ([0,1] for a single value)."""
    if len(curve) == 1 and not isinstance(curve[0], list):
        return 0.0, 1.0
    ls = [p[0] for p in curve]
    return min(ls), max(ls)


def make_storage(spec):
    """spec: {kind: battery|battery_system|supercap|supercap_system, …}"""
    k = spec["kind"]
    if k.startswith("battery"):
        b = Battery(name=spec.get("name", "bat") + ("_cell" if k == "battery_system" else ""), rated_capacity_kwh=spec["capacity"], charging_rate_c=spec["c_rate_c"],
                    discharge_rate_c=spec["c_rate_d"], soc0=spec["soc0"], eff_charging=spec["eta_c"],
                    eff_discharging=spec["eta_d"], switchboard_id=SwbId(spec.get("swb", 1)))
        if k == "battery":
            return b
        return BatterySystem(name=spec.get("name", "bat"), battery=b, converter=make_converter(spec["converter"]),
                             switchboard_id=SwbId(spec.get("swb", 1)))
    s = SuperCapacitor(name=spec.get("name", "cap") + ("_cell" if k == "supercap_system" else ""), rated_capacity_wh=spec["capacity"], rated_power=Power_kW(spec["rated"]),
                       soc0=spec["soc0"], eff_charging=spec["eta_c"], eff_discharging=spec["eta_d"],
                       switchboard_id=SwbId(spec.get("swb", 1)))
    if k == "supercap":
        return s
    return SuperCapacitorSystem(name=spec.get("name", "cap"), supercapacitor=s,
                                converter=make_converter(spec["converter"]), switchboard_id=SwbId(spec.get("swb", 1)))


def gen_storage_spec(rng, with_converter=None):
    kind = str(rng.choice(["battery", "battery_system", "supercap", "supercap_system"]))
    if with_converter is True:
        kind = str(rng.choice(["battery_system", "supercap_system"]))
    if with_converter is False:
        kind = str(rng.choice(["battery", "supercap"]))
    spec = {"kind": kind, "soc0": float(np.round(rng.uniform(0.1, 0.95), 3)),
            "eta_c": float(rng.choice([1.0, 0.975, float(np.round(rng.uniform(0.6, 1.0), 3))])),
            "eta_d": float(rng.choice([1.0, 0.975, float(np.round(rng.uniform(0.6, 1.0), 3))]))}
    if kind.startswith("battery"):
        spec["capacity"] = float(np.round(rng.uniform(50, 5000), 1))
        spec["c_rate_c"] = float(rng.choice([0.5, 1.0, 2.0]))
        spec["c_rate_d"] = float(rng.choice([0.5, 1.0, 3.0]))
        spec["rated"] = spec["capacity"] * spec["c_rate_d"]
    else:
        spec["capacity"] = float(np.round(rng.uniform(100, 20000), 1))
        spec["rated"] = float(np.round(rng.uniform(50, 3000), 1))
    if kind.endswith("system"):
        r = float(np.round(rng.uniform(50, 3000), 1))
        spec["converter"] = {"rated": r, "curve": gen_accepted_curve(rng, r)}
        if kind == "battery_system":
            spec["rated"] = r
    return spec
