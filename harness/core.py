"""Shared machinery of the FEEMS checks: paths, exact rationals, the Lean driver process,
build + audit of the Lean project, tolerant comparison, the decision rule, evidence files.

Every registered check is `./check <Cxx> --tier <quick|thorough>`; see DESIGN.md section 3.
"""
from __future__ import annotations

import fcntl
import json
import math
import os
import re
import subprocess
import sys
import time
import traceback
from fractions import Fraction
from pathlib import Path

VERIF = Path(__file__).resolve().parent.parent
REPO = Path(os.environ.get("VERIF_REPO", "/repo")).resolve()
LEAN = VERIF / "lean"
DRIVER = LEAN / ".lake" / "build" / "bin" / "driver"
WORK = VERIF / ".work"
# where evidence and replay files go; the registered commands leave this unset (= /verif itself).  The seeded-change
# runner points it at a scratch directory so that a run against a deliberately broken tree never overwrites evidence.
OUT = Path(os.environ.get("VERIF_OUT", str(VERIF))).resolve()
ACCEPTED_AXIOMS = {"propext", "Classical.choice", "Quot.sound"}
TRUSTED_BASE = [
    "Lean 4.33 kernel; Mathlib v4.33 lemmas (single-module imports)",
    "axioms: propext, Classical.choice, Quot.sound only (audited with collectAxioms on every run; no sorry/native_decide/bv_decide)",
    "hand-written Lean model of the code; tie to /repo = this correspondence check (differential, sampled) + data tables regenerated from the source on every run",
    "numpy/pandas/scipy/protobuf primitives and IEEE rounding are outside the model (tolerance 1e-9 relative)",
]

for p in ("feems", "machinery-system-structure", "RunFEEMSSim"):
    sp = str(REPO / p)
    if sp not in sys.path:
        sys.path.insert(0, sp)
os.environ.setdefault("SINTEF_FEEMS_VERIF", "1")
import logging  # noqa: E402
logging.disable(logging.CRITICAL)   # the repo logs every rejected input; the checks count them instead
import warnings  # noqa: E402
warnings.filterwarnings("ignore")


class HarnessError(Exception):
    """A problem of the machinery itself (exit status 2, never a VIOLATION)."""


# ------------------------------------------------------------------ rationals

def frac(x) -> Fraction:
    """Exact value of a Python / numpy number (every finite double is a rational)."""
    if isinstance(x, Fraction):
        return x
    if isinstance(x, bool):
        return Fraction(int(x))
    if isinstance(x, int):
        return Fraction(x)
    try:
        import numpy as np
        if isinstance(x, (np.bool_,)):
            return Fraction(int(x))
        if isinstance(x, np.integer):
            return Fraction(int(x))
        if isinstance(x, np.floating):
            x = float(x)
    except ImportError:  # pragma: no cover
        pass
    if isinstance(x, float):
        if not math.isfinite(x):
            raise ValueError("non-finite value has no rational")
        return Fraction(*x.as_integer_ratio())
    raise TypeError(f"cannot convert {type(x)} to Fraction")


def enc(x) -> str:
    f = frac(x)
    return str(f.numerator) if f.denominator == 1 else f"{f.numerator}/{f.denominator}"


def encs(xs) -> list:
    return [enc(x) for x in xs]


def dec(s) -> Fraction:
    if s is None:
        return None
    if isinstance(s, (int,)):
        return Fraction(s)
    return Fraction(s)


def decs(xs) -> list:
    return [dec(x) for x in xs]


def close(a, b, tol=1e-9, scale=1.0) -> bool:
    """|a-b| <= tol*max(1,|a|,|b|,scale); a, b numbers or Fractions; non-finite never close
    unless both are the same non-finite kind."""
    try:
        fa, fb = float(a), float(b)
    except (TypeError, ValueError, OverflowError):
        return False
    if not (math.isfinite(fa) and math.isfinite(fb)):
        return (math.isnan(fa) and math.isnan(fb)) or fa == fb
    return abs(fa - fb) <= tol * max(1.0, abs(fa), abs(fb), abs(scale))


# ------------------------------------------------------------------ Lean build / audit / driver

class Lock:
    def __init__(self, name="build"):
        WORK.mkdir(exist_ok=True)
        self.path = WORK / f"{name}.lock"

    def __enter__(self):
        self.f = open(self.path, "w")
        fcntl.flock(self.f, fcntl.LOCK_EX)
        return self

    def __exit__(self, *a):
        fcntl.flock(self.f, fcntl.LOCK_UN)
        self.f.close()


def _run(cmd, cwd=None, timeout=3600, env=None):
    p = subprocess.run(cmd, cwd=cwd, capture_output=True, text=True, timeout=timeout, env=env)
    out = "\n".join(l for l in (p.stdout + p.stderr).splitlines() if "WARNING" not in l)
    return p.returncode, out


def lean_build(targets=("FeemsModel", "FeemsProofs", "driver")):
    """`lake build` under a lock. Returns (ok, log, failed_modules)."""
    with Lock("build"):
        rc, out = _run(["lake", "build", *targets], cwd=LEAN)
    failed = sorted(set(re.findall(r"^- (\S+)", out, flags=re.M)))
    return rc == 0, out, failed


_BANNED = re.compile(r"\bsorry\b|\badmit\b|^axiom\s|native_decide|bv_decide|implemented_by|\bunsafe\s|maxHeartbeats\s+0")


def strip_lean_comments(src: str) -> str:
    out, i, depth, n = [], 0, 0, len(src)
    while i < n:
        if src.startswith("/-", i):
            depth += 1
            i += 2
        elif depth and src.startswith("-/", i):
            depth -= 1
            i += 2
        elif depth:
            if src[i] == "\n":
                out.append("\n")
            i += 1
        elif src.startswith("--", i):
            while i < n and src[i] != "\n":
                i += 1
        else:
            out.append(src[i])
            i += 1
    return "".join(out)


def grep_banned():
    hits = []
    for path in sorted(LEAN.rglob("*.lean")):
        if ".lake" in path.parts:
            continue
        code = strip_lean_comments(path.read_text())
        for ln, line in enumerate(code.splitlines(), 1):
            if _BANNED.search(line):
                hits.append(f"{path.relative_to(LEAN)}:{ln}: {line.strip()}")
    return hits


_AUDIT_CACHE = WORK / "audit.json"


def audit():
    """{property: {theorem: [axioms]}} for every theorem under Feems.Props.*"""
    with Lock("build"):
        rc, out = _run(["lake", "env", "lean", "Audit.lean"], cwd=LEAN)
    if rc != 0:
        raise HarnessError("Audit.lean failed:\n" + out[-2000:])
    res = {}
    for m in re.finditer(r"AXIOMS (\S+) (\S+) \[(.*?)\]", out):
        prop, thm, axs = m.group(1), m.group(2), [a.strip() for a in m.group(3).split(",") if a.strip()]
        res.setdefault(prop, {})[thm] = axs
    return res


class ModelReject(Exception):
    pass


class Model:
    """A running driver process; `call` is one request / one answer."""

    def __init__(self):
        if not DRIVER.exists():
            raise HarnessError(f"driver not built: {DRIVER}")
        self.p = subprocess.Popen([str(DRIVER)], stdin=subprocess.PIPE, stdout=subprocess.PIPE,
                                  text=True, bufsize=1)
        self.n = 0

    def call(self, op, **args):
        self.n += 1
        req = {"id": self.n, "op": op, **args}
        self.p.stdin.write(json.dumps(req) + "\n")
        self.p.stdin.flush()
        line = self.p.stdout.readline()
        if not line:
            raise HarnessError(f"driver died on {op}")
        ans = json.loads(line)
        if "error" in ans:
            raise HarnessError(f"driver error on {op}: {ans['error']}\nrequest: {json.dumps(req)[:800]}")
        if "reject" in ans:
            raise ModelReject(ans["reject"])
        return ans["out"]

    def batch(self, reqs):
        """Many requests at once (written first, read afterwards, in a thread-free way for
        moderate sizes): returns the list of raw answers."""
        outs = []
        CH = 200
        for i in range(0, len(reqs), CH):
            chunk = reqs[i:i + CH]
            for r in chunk:
                self.n += 1
                r = dict(r)
                r["id"] = self.n
                self.p.stdin.write(json.dumps(r) + "\n")
            self.p.stdin.flush()
            for _ in chunk:
                line = self.p.stdout.readline()
                if not line:
                    raise HarnessError("driver died in batch")
                ans = json.loads(line)
                if "error" in ans:
                    raise HarnessError(f"driver error: {ans['error']}")
                outs.append(ans)
        return outs

    def close(self):
        try:
            self.p.stdin.close()
            self.p.wait(timeout=10)
        except Exception:
            self.p.kill()


# representation axes of the inputs actually applied to the real code (filled by the apply_inputs helpers)
AXES: dict = {}


def axis(key, value):
    k = f"{key}={value}"
    AXES[k] = AXES.get(k, 0) + 1


# ------------------------------------------------------------------ known findings

def load_known_findings():
    path = VERIF / "known_findings.json"
    if not path.exists():
        return {"findings": [], "fixed": []}
    return json.loads(path.read_text())


# ------------------------------------------------------------------ a check run

class Ctx:
    """State of one `./check Cxx` run: counters, samples, failures, decision, evidence."""

    def __init__(self, prop: str, tier: str, seed: int):
        import numpy as np
        self.prop, self.tier, self.seed = prop, tier, seed
        self.t0 = time.time()
        self.rng = np.random.default_rng([seed, int(prop[1:])])
        self.evaluations = 0
        self.nontrivial = set()
        self.samples = []
        self.hist = {}
        self.failures = []          # dicts: kind in {predicate, correspondence, proof}, tag, what, case
        self.assumptions = []
        self.proof = {"obligations": 0, "discharged": 0, "theorems": {}}
        self.traces_validated = 0
        self.rule = ""
        self.extra = {}
        self._model = None
        self.known = load_known_findings()
        self.known_hits = {}

    # -- helpers for property modules
    @property
    def model(self) -> Model:
        if self._model is None:
            self._model = Model()
        return self._model

    def quick(self) -> bool:
        return self.tier == "quick"

    def n(self, quick: int, thorough: int) -> int:
        return quick if self.tier == "quick" else thorough

    def count(self, key, sub=None, inc=1):
        k = key if sub is None else f"{key}:{sub}"
        self.hist[k] = self.hist.get(k, 0) + inc

    def case_done(self, signature=None, sample=None, validated=True):
        self.evaluations += 1
        if validated:
            self.traces_validated += 1
        if signature is not None:
            self.nontrivial.add(signature if isinstance(signature, (str, int, tuple)) else json.dumps(signature, sort_keys=True, default=str))
        if sample is not None and len(self.samples) < 3:
            self.samples.append(sample)

    def fail(self, kind: str, tag: str, what: str, case):
        """kind: 'predicate' (the property statement itself is false on the implementation for
        this input), 'correspondence' (model and code differ), 'proof' (an obligation no longer
        checks)."""
        assert kind in ("predicate", "correspondence", "proof")
        self.failures.append({"kind": kind, "tag": tag, "what": what, "case": case})

    # -- finishing
    def finish(self) -> int:
        if self._model is not None:
            self._model.close()
        lines, code = [], 0
        known_tags = {f["tag"]: f for f in self.known.get("findings", []) if f["property"] == self.prop}
        unknown = []
        seen_known = {}
        for f in self.failures:
            if f["kind"] == "predicate" and f["tag"] in known_tags:
                seen_known.setdefault(f["tag"], f)
            else:
                unknown.append(f)
        for tag, f in seen_known.items():
            lines.append(f"KNOWN-FINDING: property={self.prop} {known_tags[tag]['id']} {known_tags[tag]['what']}")
        preds = [f for f in unknown if f["kind"] == "predicate"]
        others = [f for f in unknown if f["kind"] != "predicate"]
        violations = 0
        (OUT / "replays").mkdir(parents=True, exist_ok=True)
        if preds:
            # one replay per distinct tag
            by_tag = {}
            for f in preds:
                by_tag.setdefault(f["tag"], f)
            for i, (tag, f) in enumerate(sorted(by_tag.items())):
                path = OUT / "replays" / f"{self.prop}-{safe(tag)}-{self.seed}.json"
                path.write_text(json.dumps({"property": self.prop, "kind": "failing-input", "tag": tag,
                                            "what": f["what"], "case": f["case"], "seed": self.seed,
                                            "replay": f"./check replay {os.path.relpath(path, VERIF)}"},
                                           indent=1, default=jsonable))
                lines.append(f"VIOLATION property={self.prop} replay={path}")
                violations += 1
            code = 1
        elif others:
            by_tag = {}
            for f in others:
                by_tag.setdefault((f["kind"], f["tag"]), f)
            (kind, tag), f = sorted(by_tag.items())[0]
            path = OUT / "replays" / f"{self.prop}-{kind}-{safe(tag)}-{self.seed}.json"
            path.write_text(json.dumps({"property": self.prop, "kind": kind + "-broken", "tag": tag,
                                        "no_longer_checks": f["what"], "case": f["case"], "seed": self.seed,
                                        "all_broken": [{"kind": k, "tag": t, "what": g["what"]} for (k, t), g in sorted(by_tag.items())][:20],
                                        "note": "no failing input was found by the search; the property is no longer shown to hold"},
                                       indent=1, default=jsonable))
            lines.append(f"VIOLATION property={self.prop} replay={path} no-failing-input-found")
            violations += 1
            code = 1
        self.write_evidence(violations)
        for l in lines:
            print(l)
        wall = time.time() - self.t0
        print(f"[{self.prop}] tier={self.tier} seed={self.seed} evaluations={self.evaluations} "
              f"theorems={self.proof['discharged']}/{self.proof['obligations']} failures={len(self.failures)} "
              f"known={len(seen_known)} wall={wall:.1f}s -> exit {code}")
        return code

    def write_evidence(self, violations: int):
        cov = {
            "obligations": self.proof["obligations"],
            "discharged": self.proof["discharged"],
            "checker_cmd": "cd lean && lake build FeemsModel FeemsProofs driver && lake env lean Audit.lean"
                           + (" && lake env leanchecker FeemsProofs." + self.prop if self.tier == "thorough" else ""),
            "trusted_base": TRUSTED_BASE,
            "theorems": self.proof["theorems"],
            "evaluations": self.evaluations,
            "distinct_nontrivial": len(self.nontrivial),
            "rule": self.rule,
            "samples": self.samples,
            "traces_validated_against_impl": self.traces_validated,
            "input_distribution": dict(sorted({**self.hist, **{"axis:" + k: v for k, v in AXES.items()}}.items())),
            "exhaustive": False,
        }
        cov.update(self.extra)
        ev = {
            "property_id": self.prop, "tier": self.tier, "seed": self.seed, "level": "proof",
            "coverage": cov, "assumptions": self.assumptions, "wall_s": round(time.time() - self.t0, 2),
            "violations": violations,
        }
        (OUT / "evidence").mkdir(parents=True, exist_ok=True)
        (OUT / "evidence" / f"{self.prop}.json").write_text(json.dumps(ev, indent=1, default=jsonable))


def safe(s: str) -> str:
    return re.sub(r"[^A-Za-z0-9_.-]+", "_", s)[:60]


def jsonable(o):
    import numpy as np
    if isinstance(o, Fraction):
        return enc(o)
    if isinstance(o, np.ndarray):
        return o.tolist()
    if isinstance(o, (np.floating,)):
        return float(o)
    if isinstance(o, (np.integer,)):
        return int(o)
    if isinstance(o, (np.bool_,)):
        return bool(o)
    if isinstance(o, (set, frozenset)):
        return sorted(o)
    return repr(o)


def error_class(e: BaseException) -> str:
    n = type(e).__name__
    return {
        "InputError": "input_error", "ConfigurationError": "config_error", "TypeError": "type_error",
        "NameError": "name_error", "NotImplementedError": "not_implemented", "AssertionError": "assertion",
        "ValueError": "value_error", "KeyError": "key_error", "IndexError": "index_error",
        "AttributeError": "attribute_error", "StopIteration": "stop_iteration",
    }.get(n, "other:" + n)


def _audit_prop(prop: str, extra=()):
    WORK.mkdir(exist_ok=True)
    imports = "".join(f"import {m}\n" for m in (f"FeemsProofs.{prop}",) + tuple(extra))
    src = (LEAN / "Audit.lean").read_text().replace("import FeemsProofs\n", imports)
    path = WORK / f"Audit_{prop}.lean"
    path.write_text(src)
    with Lock("build"):
        rc, out = _run(["lake", "env", "lean", str(path)], cwd=LEAN)
    if rc != 0:
        raise HarnessError(f"audit of {prop} failed:\n" + out[-2000:])
    res = {}
    for m in re.finditer(r"AXIOMS (\S+) (\S+) \[(.*?)\]", out):
        if m.group(1) == prop:
            res[m.group(2)] = [a.strip() for a in m.group(3).split(",") if a.strip()]
    return res


_audit_all = audit


def audit(prop=None, extra=()):  # noqa: F811
    return _audit_all() if prop is None else _audit_prop(prop, extra)


def leanchecker(prop: str, extra=()):
    with Lock("build"):
        return _run(["lake", "env", "leanchecker", f"FeemsProofs.{prop}", *extra], cwd=LEAN, timeout=3000)


def _is_known(self, f) -> bool:
    return any(k["property"] == self.prop and k["tag"] == f["tag"] for k in self.known.get("findings", []))


Ctx.is_known = _is_known


def call_with_oracle(model: Model, op: str, args: dict, oracle, max_rounds: int = 10):
    """Calls a driver op whose curves are oracle tables: whenever the model asks for a key
    (`need: [curve, key]`) the oracle (curve name, Fraction key) -> float is evaluated on the real
    object and the call repeated. Returns (answer, tables, rounds)."""
    tables = {k: list(v) for k, v in (args.get("curves") or {}).items()}
    for rounds in range(1, max_rounds + 1):
        ans = model.call(op, **dict(args, curves=tables))
        if isinstance(ans, dict) and "need" in ans:
            name, key = ans["need"]
            val = oracle(name, dec(key))
            tables.setdefault(name, []).append([key, enc(val)])
            continue
        return ans, tables, rounds
    raise HarnessError(f"oracle rounds exceeded for {op}")
