"""Results of whole plants: running balance + result calculation on generated plants, the
per-component results through the public per-component function, observation of `FEEMSResult`s
(shared by C10, C11, C12, C14)."""
from __future__ import annotations

import numpy as np

from . import core, plants, elec_common as E, mech_common as M
from .props import c19
from feems.components_model.node import get_fuel_emission_energy_balance_for_component
from feems.components_model.utility import IntegrationMethod
from feems.fuel import FuelSpecifiedBy
from feems.types_for_feems import FEEMSResult


def gen_plant_case(rng, idx, kind=None, n=None):
    """electric | mechanical | hybrid | mech+elec plant with inputs; in 30 % of the cases the components carry the names
    a user would give ("Genset 1" on every switchboard)."""
    case = _gen_plant_case(rng, idx, kind, n)
    if rng.random() < 0.3:
        plants.relabel(case["spec"], style=str(rng.choice(["per-kind", "per-category"])))
    plants.mark_int_ratings(rng, case["spec"])
    if case["spec"].get("electric") and "order" not in case["spec"] and rng.random() < 0.5:      # components listed in any order
        case["spec"]["order"] = [int(i) for i in rng.permutation(len(case["spec"]["electric"]))]
    return case


def _gen_plant_case(rng, idx, kind=None, n=None):
    if kind is None:
        kind = str(rng.choice(["electric", "electric", "mechanical", "hybrid", "mech_elec"]))
    if kind == "electric":
        spec = plants.gen_electric_plant(rng)
        inp = E.gen_inputs(rng, spec, n=n, capacity_ok=True)
        return {"idx": idx, "kind": kind, "spec": spec, "inputs": inp}
    if kind == "mechanical":
        spec = plants.gen_mechanical_plant(rng)
        return {"idx": idx, "kind": kind, "spec": spec, "inputs": M.gen_inputs(rng, spec, n=n, engines_ok=True)}
    # electric part (no PTI/PTO of its own) + mechanical part; hybrid: PTI/PTO shared
    espec = plants.gen_electric_plant(rng, with_pti=False)
    swbs = sorted({c["swb"] for c in espec["electric"]})
    mech, ptis, ids = plants.gen_mech_components(rng, pti_swb=int(rng.choice(swbs)), force_pti=(kind == "hybrid") or None)
    if kind == "mech_elec":
        ptis = []
    for p in ptis:
        p["swb"] = int(rng.choice(swbs))
    spec = dict(espec, type="hybrid" if kind == "hybrid" else "mech_elec", lines=ids)
    spec["electric"] = espec["electric"] + ptis
    spec["mechanical"] = mech + [{"kind": "pti_pto_ref", "name": p["name"]} for p in ptis]
    if rng.random() < 0.6:       # the two component lists are written independently: the shared PTI/PTOs come in another order
        others = [c for c in spec["mechanical"] if c["kind"] != "pti_pto_ref"]
        refs = [c for c in spec["mechanical"] if c["kind"] == "pti_pto_ref"][::-1]
        merged = others + refs
        spec["mechanical"] = [merged[i] for i in rng.permutation(len(merged))] if len(refs) < 2 else others[:1] + refs + others[1:]
    if kind == "hybrid" and not ptis:
        return _gen_plant_case(rng, idx, kind, n)
    ein = E.gen_inputs(rng, spec, n=n, capacity_ok=True)
    min_ = M.gen_inputs(rng, spec, n=ein["n"], engines_ok=True)
    min_["dt"] = ein["dt"]
    if kind == "hybrid" and rng.random() < 0.25:
        # a constant PTI/PTO power held as ONE value next to per-step full-PTI flags (the hybrid system sizes it: D88)
        p = ptis[int(rng.integers(len(ptis)))]
        d = min_["comp"][p["name"]]
        v = next((x for x in d["shaft"] if x != 0), 0.0)
        if v != 0:
            d["shaft"] = [v] * ein["n"]
            min_["pti_power_single"] = [p["name"]]
    # the shared PTI/PTO: given-power mode on the electric side, shaft power from the mechanical inputs
    for p in ptis:
        ein["comp"][p["name"]]["mode"] = [1.0] * ein["n"]
        ein["comp"][p["name"]]["status"] = [True] * ein["n"]
    inp = {"n": ein["n"], "dt": ein["dt"], "breaker": ein["breaker"], "comp": {**ein["comp"]}, "mech": min_["comp"],
           # how the series are handed over (dtypes, shared array objects, in-place filling) on either side
           "flags": {k: v for k, v in ein.items() if k not in ("n", "dt", "breaker", "comp")},
           "mech_flags": {k: v for k, v in min_.items() if k not in ("n", "dt", "comp")}}
    return {"idx": idx, "kind": kind, "spec": spec, "inputs": inp}


def elec_inputs(case):
    return case["inputs"] if case["kind"] == "electric" else dict({k: case["inputs"][k] for k in ("n", "dt", "breaker", "comp")}, **case["inputs"].get("flags", {}))


def mech_inputs(case):
    return case["inputs"] if case["kind"] == "mechanical" else dict({"n": case["inputs"]["n"], "dt": case["inputs"]["dt"], "comp": case["inputs"]["mech"]},
                                                                   **case["inputs"].get("mech_flags", {}))


def run_plant(case, plant=None, before_balance=None):
    """Builds (unless given) the plant, applies the inputs, runs the power balance. Returns plant.
    `before_balance(plant)` runs after the inputs are applied (used to give a second instance of a machine the same inputs)."""
    if plant is None:
        plant = plants.Plant(case["spec"])
    k = case["kind"]
    if k == "electric":
        E.apply_inputs(plant, case["inputs"])
        plant.electric.do_power_balance_calculation()
    elif k == "mechanical":
        M.apply_inputs(plant, case["inputs"])
        plant.mechanical.do_power_balance()
    else:
        E.apply_inputs(plant, elec_inputs(case))
        mi = mech_inputs(case)
        M.apply_inputs(plant, mi)
        # the PTI/PTO's electric input follows from its shaft power (set_power_input_from_output above)
        if before_balance is not None:
            before_balance(plant)
        plant.system.do_power_balance_calculation()
    return plant


def system_results(plant, case, spec_by=FuelSpecifiedBy.IMO):
    """{'electric': FEEMSResult?, 'mechanical': FEEMSResult?}"""
    k = case["kind"]
    dt = np.array(case["inputs"]["dt"], dtype=float)
    out = {}
    if k == "electric":
        out["electric"] = plant.electric.get_fuel_energy_consumption_running_time(fuel_specified_by=spec_by)
    elif k == "mechanical":
        out["mechanical"] = plant.mechanical.get_fuel_energy_consumption_running_time(fuel_specified_by=spec_by)
    else:
        r = plant.system.get_fuel_energy_consumption_running_time(time_interval_s=dt, integration_method=IntegrationMethod.sum_with_time,
                                                                  fuel_specified_by=spec_by)
        out["electric"], out["mechanical"] = r.electric_system, r.mechanical_system
    return out


def nodes_of(plant, side):
    """[(node id, [components in the order the node accumulates them])]"""
    if side == "electric":
        return [(int(i), list(s.components)) for i, s in plant.electric.switchboards.items()]
    from feems.types_for_feems import TypePower
    out = []
    for sl in plant.mechanical.shaft_line:
        cp = sl.component_by_power_type
        out.append((int(sl.id), [*cp[TypePower.POWER_SOURCE], *cp[TypePower.PTI_PTO], *cp[TypePower.POWER_CONSUMER]]))
    return out


def component_result(comp, dt, spec_by):
    return get_fuel_emission_energy_balance_for_component(component=comp, time_interval_s=dt,
                                                          integration_method=IntegrationMethod.sum_with_time, fuel_specified_by=spec_by)


def observe_result(r: FEEMSResult):
    """Observation without the detail table (rows are checked separately)."""
    names = c19.ext_fields()
    detail = r.detail_result
    r2 = FEEMSResult(**{**r.__dict__, "detail_result": None})
    o = c19.observe(r2, names)
    o["detail_names"] = None if detail is None else [str(x) for x in detail.index]
    return o
