"""Mechanical power balance cases (C04, reused by C05/C10/C11/C12)."""
from __future__ import annotations

import numpy as np

from . import core, plants
from .core import enc, dec, close
from feems.components_model.utility import IntegrationMethod


def gen_inputs(rng, spec, n=None, engines_ok=None, pti_status_varies=False):
    if n is None:
        n = int(rng.choice([1, 2, 3, 5, 8]))
    if engines_ok is None:
        engines_ok = rng.random() < 0.9
    inp = {"n": n, "dt": [float(rng.choice([1.0, 10.0, 60.0, 600.0])) for _ in range(n)], "comp": {}}
    # on/off series: booleans or 0/1 numbers; and, as feems/runsimulation.py does with its on_vector, one "all on"
    # array object may be handed to every engine
    inp["dtype"] = {"status": str(rng.choice(["bool", "int", "float"], p=[0.6, 0.2, 0.2]))}
    inp["shared_on_vector"] = bool(rng.random() < 0.3)
    pti_specs = {p["name"]: p for p in spec.get("electric_objects", [])}
    pti_specs.update({c["name"]: c for c in spec.get("electric", []) if c["kind"] == "pti_pto"})
    for ln in spec["lines"]:
        engines = [c for c in spec["mechanical"] if c.get("shaft_line") == ln and c["kind"] == "main_engine"]
        loads = [c for c in spec["mechanical"] if c.get("shaft_line") == ln and c["kind"] == "mech_load"]
        total = sum(e["rated"] for e in engines)
        for e in engines:
            inp["comp"][e["name"]] = {"status": [bool(inp["shared_on_vector"] or rng.random() < (0.85 if engines_ok else 0.35)) for _ in range(n)]}
        for l in loads:
            scale = min(l["rated"], 0.6 * total / len(loads))
            inp["comp"][l["name"]] = {"load": [float(np.round(rng.uniform(0.0, 0.9) * scale, 2)) if rng.random() < 0.9 else 0.0 for _ in range(n)]}
    # one set-point series (one array object) for the PTI/PTOs of several shaft lines, one load series for several propellers:
    # what a user does for a twin-screw vessel
    inp["alias"] = bool(rng.random() < 0.3)
    # flag series assigned blank and then filled in place (pti.full_pti_mode = np.zeros(n, bool); pti.full_pti_mode[3:5] = True)
    inp["fill_in_place"] = bool(rng.random() < 0.3)
    # an attribute the statement does not mention: the on/off series a shaft load carries like every component (nothing sets or reads
    # it in ordinary use) - the power a load absorbs is its power, whatever that series says (seeded change C04-r6)
    inp["load_status_marks"] = bool(rng.random() < 0.3)
    first_shaft = None
    for c in spec["mechanical"]:
        if c["kind"] == "pti_pto_ref":
            p = pti_specs[c["name"]]
            lim = 0.9 * p["rated"]
            shaft = [float(np.round(rng.uniform(-lim, lim), 2)) if rng.random() < 0.8 else 0.0 for _ in range(n)]
            if inp["alias"] and first_shaft is not None and max(abs(x) for x in first_shaft) <= lim:
                shaft = list(first_shaft)
            first_shaft = first_shaft or shaft
            inp["comp"][c["name"]] = {"shaft": shaft,
                                      "full": [bool(rng.random() < 0.25) for _ in range(n)],
                                      # the shaft balance does not ask whether the PTI/PTO is switched on (its electrical side does):
                                      # a shaft-only calculation may carry any on/off series for it
                                      "status": [bool(rng.random() < 0.7) for _ in range(n)] if (pti_status_varies and rng.random() < 0.4) else [True] * n}
    inp["dtype"]["power"] = str(rng.choice(["float", "int"], p=[0.8, 0.2]))      # whole-number series in integer arrays
    inp["dtype"]["full"] = str(rng.choice(["bool", "int", "float"], p=[0.7, 0.2, 0.1]))     # full-PTI flags written as 0 / 1
    if inp["dtype"]["power"] == "int":
        for d in inp["comp"].values():
            for key in ("load", "shaft"):
                if key in d:
                    d[key] = [float(round(x)) for x in d[key]]
    if inp["alias"]:
        loads = [c for c in spec["mechanical"] if c["kind"] == "mech_load"]
        for a, b in zip(loads, loads[1:]):
            if rng.random() < 0.5 and max(inp["comp"][a["name"]]["load"]) <= b["rated"]:
                inp["comp"][b["name"]]["load"] = list(inp["comp"][a["name"]]["load"])
    return inp


def apply_inputs(plant, inp):
    n = inp["n"]
    st_dt = {"bool": bool, "int": int, "float": float}[inp.get("dtype", {}).get("status", "bool")]
    on_vector = np.ones(n, dtype=st_dt)
    pw_dt = int if inp.get("dtype", {}).get("power", "float") == "int" else float
    cache = {}

    def arr(values, dt=None):
        """a fresh array, or (alias mode) the one array object already made for the same series"""
        dt = pw_dt if dt is None else dt
        if dt is int and not all(float(v).is_integer() for v in values):
            dt = float
        if not inp.get("alias"):
            return np.array(values, dtype=dt)
        key = (np.dtype(dt).name, tuple(values))
        if key not in cache:
            cache[key] = np.array(values, dtype=dt)
        return cache[key]
    for c in plant.spec["mechanical"]:
        obj, d = plant.by_name[c["name"]], inp["comp"][c["name"]]
        if c["kind"] == "main_engine":
            obj.status = on_vector if (inp.get("shared_on_vector") and len(d["status"]) == n and all(d["status"])) else np.array(d["status"], dtype=st_dt)
        elif c["kind"] == "mech_load":
            obj.set_power_input_from_output(arr(d["load"]))
            if inp.get("load_status_marks"):
                core.axis("shaft_load_status_series", "some steps marked off")
                marks = np.random.default_rng(n + len(c["name"])).random(n) < 0.5
                obj.status = np.array(marks, dtype=st_dt)
        else:
            obj.status = np.array(d["status"], dtype=bool)
            fl_dt = {"bool": bool, "int": int, "float": float}[inp.get("dtype", {}).get("full", "bool")]
            if inp.get("fill_in_place") and len(d["full"]) == n:
                obj.full_pti_mode = np.zeros(n, dtype=fl_dt)
                obj.full_pti_mode[np.array(d["full"], dtype=bool)] = True
            else:
                obj.full_pti_mode = np.array(d["full"], dtype=fl_dt)
            core.axis("full-pti-flags", fl_dt.__name__)
            if c["name"] in inp.get("pti_power_single", []) and len(set(d["shaft"])) == 1:
                core.axis("pti_power", "one value")
                obj.set_power_input_from_output(np.array(d["shaft"][:1], dtype=float))
            else:
                core.axis("pti_power", "series")
                obj.set_power_input_from_output(arr(d["shaft"]))
    plant.mechanical.set_time_interval(np.array(inp["dt"], dtype=float), integration_method=IntegrationMethod.sum_with_time)


def observe(plant, inp):
    obs, n = {}, inp["n"]
    for c in plant.spec["mechanical"]:
        obj = plant.by_name[c["name"]]
        if c["kind"] == "main_engine":
            obs[c["name"]] = {"out": np.broadcast_to(np.asarray(obj.power_output, dtype=float), (n,)).copy(),
                              "status": np.broadcast_to(np.asarray(obj.status, dtype=bool), (n,)).copy()}
        elif c["kind"] == "mech_load":
            obs[c["name"]] = {"in": np.broadcast_to(np.asarray(obj.power_input, dtype=float), (n,)).copy()}
        else:
            obs[c["name"]] = {"out": np.broadcast_to(np.asarray(obj.power_output, dtype=float), (n,)).copy(),
                              "in": np.broadcast_to(np.asarray(obj.power_input, dtype=float), (n,)).copy()}
    return obs


def by_line(spec, ln, kind):
    if kind == "pti_pto_ref":
        pti_specs = {p["name"]: p for p in spec.get("electric_objects", [])}
        pti_specs.update({c["name"]: c for c in spec.get("electric", []) if c["kind"] == "pti_pto"})
        return [c for c in spec["mechanical"] if c["kind"] == kind and pti_specs[c["name"]].get("shaft_line", 1) == ln]
    return [c for c in spec["mechanical"] if c.get("shaft_line") == ln and c["kind"] == kind]


def model_step_request(spec, inp, obs, t):
    lines = []
    for ln in spec["lines"]:
        engines = [[enc(c["rated"]), bool(inp["comp"][c["name"]]["status"][t])] for c in by_line(spec, ln, "main_engine")]
        loads = [enc(float(obs[c["name"]]["in"][t])) for c in by_line(spec, ln, "mech_load")]
        ptis = by_line(spec, ln, "pti_pto_ref")
        pti = None
        if ptis:
            d = inp["comp"][ptis[0]["name"]]
            pti = [enc(d["shaft"][t]), bool(d["full"][t])]
        lines.append({"id": ln, "engines": engines, "loads": loads, "pti": pti})
    return dict(op="shaft.step", lines=lines)


def compare_with_model(ctx, spec, inp, obs, where, tagprefix=""):
    answers = ctx.model.batch([model_step_request(spec, inp, obs, t) for t in range(inp["n"])])
    for t, ans in enumerate(answers):
        for ln, res in zip(spec["lines"], ans["out"]):
            for c, m, ms in zip(by_line(spec, ln, "main_engine"), res["engines"], res["status"]):
                if not close(dec(m), obs[c["name"]]["out"][t], scale=c["rated"]):
                    ctx.fail("correspondence", tagprefix + "engine-output", f"step {t} {c['name']}: model {float(dec(m))} impl {obs[c['name']]['out'][t]}", where)
                if bool(ms) != bool(obs[c["name"]]["status"][t]):
                    ctx.fail("correspondence", tagprefix + "engine-status", f"step {t} {c['name']}: model {ms} impl {obs[c['name']]['status'][t]}", where)
            for c in by_line(spec, ln, "pti_pto_ref"):
                if not close(dec(res["pti"]), obs[c["name"]]["out"][t], scale=1000.0):
                    ctx.fail("correspondence", tagprefix + "pti-shaft-power", f"step {t} {c['name']}: model {float(dec(res['pti']))} impl {obs[c['name']]['out'][t]}", where)


def gen_case(rng, idx, **kw):
    spec = plants.gen_mechanical_plant(rng, **kw)
    plants.mark_int_ratings(rng, spec)
    return {"idx": idx, "spec": spec, "inputs": gen_inputs(rng, spec, pti_status_varies=True)}


def run_balance(case):
    plant = plants.Plant(case["spec"])
    apply_inputs(plant, case["inputs"])
    plant.mechanical.do_power_balance()
    return plant, observe(plant, case["inputs"])
