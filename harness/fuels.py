"""Helpers around feems.fuel shared by several property modules."""
from __future__ import annotations

import numpy as np

from . import core  # noqa: F401  (sets sys.path)
from feems.fuel import (Fuel, FuelConsumption, FuelOrigin, FuelSpecifiedBy, TypeFuel,
                        GhgEmissionFactorTankToWake, FuelConsumerClassFuelEUMaritime)

_VALID = None


def valid_kinds():
    """Every (type, origin, spec) the Fuel constructor accepts with table factors."""
    global _VALID
    if _VALID is None:
        _VALID = []
        for t in TypeFuel:
            for o in FuelOrigin:
                for s in (FuelSpecifiedBy.IMO, FuelSpecifiedBy.FUEL_EU_MARITIME):
                    try:
                        Fuel(t, o, s)
                        _VALID.append((t, o, s))
                    except Exception:
                        pass
    return _VALID


def user_factors(rng):
    """A user-specified factor set (one row per consumer class so any class can be asked)."""
    rows = [GhgEmissionFactorTankToWake(
        co2_factor_gco2_per_gfuel=float(np.round(rng.uniform(0, 3.5), 4)),
        ch4_factor_gch4_per_gfuel=float(np.round(rng.uniform(0, 0.001), 6)),
        n2o_factor_gn2o_per_gfuel=float(np.round(rng.uniform(0, 0.001), 6)),
        c_slip_percent=float(np.round(rng.uniform(0, 4), 2)),
        fuel_consumer_class=c) for c in FuelConsumerClassFuelEUMaritime if c.name != "NONE"] + [
        GhgEmissionFactorTankToWake(3.0, 0.0, 0.0, 0.0, None)]
    return dict(lhv_mj_per_g=float(np.round(rng.uniform(0.01, 0.12), 4)),
                ghg_emission_factor_well_to_tank_gco2eq_per_mj=float(np.round(rng.uniform(0, 100), 2)),
                ghg_emission_factor_tank_to_wake=rows)


def make_fuel(kind, mass, user=None):
    t, o, s = kind
    if s == FuelSpecifiedBy.USER:
        return Fuel(t, o, s, mass_or_mass_fraction=mass, **user)
    return Fuel(t, o, s, mass_or_mass_fraction=mass)


def kind_key(f: Fuel):
    return (f.fuel_type.value, f.origin.value, f.fuel_specified_by.value)


def rec_snapshot(fc: FuelConsumption):
    """[(kind, mass-as-list-or-float)] with array masses copied."""
    out = []
    for f in fc.fuels:
        m = f.mass_or_mass_fraction
        out.append((kind_key(f), np.array(m, dtype=float).copy() if (isinstance(m, np.ndarray) and m.ndim > 0) else float(m)))
    return out


def snapshots_equal(a, b):
    if len(a) != len(b):
        return False
    for (ka, ma), (kb, mb) in zip(a, b):
        if ka != kb:
            return False
        if isinstance(ma, np.ndarray) != isinstance(mb, np.ndarray):
            return False
        if isinstance(ma, np.ndarray):
            if ma.shape != mb.shape or not np.array_equal(ma, mb, equal_nan=True):
                return False
        elif not (ma == mb or (ma != ma and mb != mb)):
            return False
    return True
