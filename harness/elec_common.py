"""Electric power balance cases shared by C01 and C03 (and reused by C05/C10/C11/C12):
generation of plant + input sets, running the real `do_power_balance_calculation`, collecting the
observables, the per-step model request, and an independent union-find grouping."""
from __future__ import annotations

import numpy as np

from . import core, plants
from .core import enc, dec, close
from feems.types_for_feems import TypePower
from feems.components_model.utility import IntegrationMethod

SOURCE_KINDS = ("generator", "genset", "fuel_cell_system", "coges")
STORAGE_KINDS = ("battery", "battery_system", "supercap", "supercap_system")


def gen_inputs(rng, spec, n=None, capacity_ok=None):
    """Per-component series for an electric plant spec."""
    if n is None:
        n = int(rng.choice([1, 2, 3, 5, 8, 60], p=[0.2, 0.2, 0.2, 0.2, 0.17, 0.03]))       # now and then a series longer than the solvers' batches
    ties = spec.get("bus_ties", [])
    p_closed = float(rng.choice([0.4, 0.7, 1.0]))
    breaker = [[bool(rng.random() < p_closed) for _ in range(n)] for _ in ties]
    swap = len(ties) >= 2 and n >= 2 and rng.random() < 0.5
    if swap:        # one tie opens while another closes at the same point of the series
        a, b = (int(x) for x in rng.choice(len(ties), size=2, replace=False))
        t = int(rng.integers(1, n))
        breaker[a][t - 1], breaker[a][t], breaker[b][t - 1], breaker[b][t] = True, False, False, True
    inp = {"n": n, "dt": [float(rng.choice([1.0, 10.0, 60.0, 600.0])) for _ in range(n)], "breaker": breaker, "comp": {}}
    # on/off series are handed over as booleans or as 0/1 numbers (the repository's own tests do both)
    inp["dtype"] = {"status": str(rng.choice(["bool", "int", "float"], p=[0.6, 0.2, 0.2])),
                    "breaker": str(rng.choice(["bool", "int", "float"], p=[0.2, 0.4, 0.4] if swap else [0.6, 0.2, 0.2]))}
    # sharing-mode series written by hand are often integer arrays ([0, 0, 1]); one array object may serve several components
    inp["dtype"]["mode"] = str(rng.choice(["float", "int"], p=[0.7, 0.3]))
    inp["dtype"]["dt"] = str(rng.choice(["float", "int"], p=[0.7, 0.3]))          # intervals in whole seconds as an integer array
    inp["alias"] = bool(rng.random() < 0.25)
    if capacity_ok is None:
        capacity_ok = rng.random() < 0.9
    total_src = sum(c["rated"] for c in spec["electric"] if c["kind"] in SOURCE_KINDS)
    n_cons = max(1, sum(1 for c in spec["electric"] if c["kind"] in ("other_load", "drive")))
    for c in spec["electric"]:
        k = c["kind"]
        d = {}
        if k in SOURCE_KINDS:
            p_on = 0.85 if capacity_ok else 0.4
            d["status"] = [bool(rng.random() < p_on) for _ in range(n)]
            d["share"] = [float(rng.integers(1, 20)) / 20.0 if rng.random() < 0.25 else 0.0 for _ in range(n)]
            if rng.random() < 0.15:
                d["share"] = [1.0 if x else 0.0 for x in d["share"]]         # fixed share of the whole rating
            elif rng.random() < 0.2:
                # a fixed share of (almost) nothing is still a fixed share - on some steps next to ordinary ones
                d["share"] = [(1e-9 if rng.random() < 0.6 else x) if x else 0.0 for x in d["share"]]
        elif k in ("other_load", "drive"):
            scale = min(c["rated"], 0.5 * total_src / n_cons)
            d["load"] = [float(np.round(rng.uniform(0.02, 0.95) * scale, 2)) if rng.random() < 0.9 else 0.0 for _ in range(n)]
        elif k in STORAGE_KINDS or k == "pti_pto":
            d["status"] = [bool(rng.random() < 0.8) for _ in range(n)]
            all_bal = rng.random() < 0.3
            d["mode"] = [0.0 if (all_bal or rng.random() < 0.4) else 1.0 for _ in range(n)]
            lim = 0.9 * c["rated"]
            d["given"] = [float(np.round(rng.uniform(-lim, lim), 2)) for _ in range(n)]
        inp["comp"][c["name"]] = d
    # power series written by hand are often whole numbers in an integer array ([0, 0, 100, -50])
    inp["dtype"]["power"] = str(rng.choice(["float", "int"], p=[0.8, 0.2]))
    if inp["dtype"]["power"] == "int":
        for d in inp["comp"].values():
            for key in ("load", "given"):
                if key in d:
                    d[key] = [float(round(x)) for x in d[key]]
    # a series that never changes (a unit always on, a constant load) is often written as one value
    inp["constants_single"] = bool(rng.random() < 0.3)
    if inp["constants_single"] and n > 1:
        # (a quarter of these with EVERY consumer constant: the consumers' sum is then one value and the length of the series is that
        #  of the status / mode / breaker series alone - D70, D89)
        all_loads = rng.random() < 0.25
        for d in inp["comp"].values():
            if "status" in d and rng.random() < 0.5:
                d["status"] = [True] * n
            if "load" in d and (all_loads or rng.random() < 0.3):
                d["load"] = [d["load"][0]] * n
        core.axis("consumers", "all constant" if all_loads else "some series")
    return inp


def apply_inputs(plant, inp, copy=True):
    """Writes the inputs into the real components (fresh arrays unless copy=False)."""
    sys_ = plant.electric
    n = inp["n"]
    DT = {"bool": bool, "int": int, "float": float}
    st_dt, br_dt = DT[inp.get("dtype", {}).get("status", "bool")], DT[inp.get("dtype", {}).get("breaker", "bool")]
    pw_dt = int if inp.get("dtype", {}).get("power", "float") == "int" else float
    cache = {}

    def arr(values, dt=float):
        """a fresh array, or (alias mode) the one array object already made for the same series"""
        if dt is int and not all(float(v).is_integer() for v in values):
            dt = float
        if inp.get("constants_single") and len(values) > 1 and len(set(values)) == 1:
            return np.array(values[:1], dtype=dt)          # a single value standing for a constant series
        if not inp.get("alias"):
            return np.array(values, dtype=dt)
        key = (np.dtype(dt).name, tuple(values))
        if key not in cache:
            cache[key] = np.array(values, dtype=dt)
        return cache[key]

    def mode_arr(values):
        """sharing modes: an integer array when the case says so and every value is whole"""
        as_int = inp.get("dtype", {}).get("mode", "float") == "int" and all(float(v).is_integer() for v in values)
        return arr(values, int if as_int else float)
    for c in plant.spec["electric"]:
        obj, d, k = plant.by_name[c["name"]], inp["comp"][c["name"]], c["kind"]
        if k in SOURCE_KINDS:
            obj.status = arr(d["status"], st_dt)
            obj.load_sharing_mode = mode_arr(d["share"])
        elif k in ("other_load", "drive"):
            obj.set_power_input_from_output(arr(d["load"], pw_dt))
        else:
            obj.status = arr(d["status"], st_dt)
            obj.load_sharing_mode = mode_arr(d["mode"])
            if any(m != 0 for m in d["mode"]):
                obj.power_input = arr(d["given"], pw_dt)
            else:
                # a unit that shares the load at every step is given no power: its power is a result of the balance (giving one
                # anyway would overwrite what an earlier calculation left there - and hide that it is taken for an input: D89)
                core.axis("load-sharing unit", "power not given")
    ties = plant.spec.get("bus_ties", [])
    if ties:
        table = np.array(inp["breaker"], dtype=br_dt).T.reshape(len(inp["breaker"][0]), len(ties))     # (a table of another length: C20)
        kept = getattr(plant, "_breaker_table", None)
        if inp.get("breaker_table_in_place") and kept is not None and kept.shape == table.shape and kept.dtype == table.dtype:
            kept[:, :] = table          # the caller keeps one table, updates it in place and hands it over again
            table = kept
        plant._breaker_table = table
        sys_.set_bus_tie_status_all(table)
    dt_int = inp.get("dtype", {}).get("dt") == "int" and all(float(x).is_integer() for x in inp["dt"])
    swbs = sorted({c["swb"] for c in plant.spec["electric"]})
    for key, val in [("steps", "1" if n == 1 else ("2-8" if n <= 8 else ("9-59" if n < 60 else "60+"))), ("status", st_dt.__name__), ("breaker", br_dt.__name__),
                     ("power", pw_dt.__name__), ("mode", inp.get("dtype", {}).get("mode", "float")), ("interval", "int" if dt_int else "float"),
                     ("alias", bool(inp.get("alias"))), ("constants", "single-value" if inp.get("constants_single") else "written-out"), ("switchboard-numbers", "1..n" if swbs == list(range(1, len(swbs) + 1)) else "other"),
                     ("component-list", "permuted" if plant.spec.get("order") else "as-generated"),
                     ("names", plant.spec.get("relabelled", "unique"))]:
        core.axis(key, val)
    sys_.set_time_interval(np.array(inp["dt"], dtype=int if dt_int else float), integration_method=IntegrationMethod.sum_with_time)


def observe(plant, inp):
    """name -> dict of arrays after the balance."""
    obs = {}
    n = inp["n"]
    for c in plant.spec["electric"]:
        obj, k = plant.by_name[c["name"]], c["kind"]
        if k in SOURCE_KINDS:
            obs[c["name"]] = {"out": np.broadcast_to(np.asarray(obj.power_output, dtype=float), (n,)).copy()}
        elif k in ("other_load", "drive"):
            obs[c["name"]] = {"in": np.broadcast_to(np.asarray(obj.power_input, dtype=float), (n,)).copy()}
        else:
            obs[c["name"]] = {"in": np.broadcast_to(np.asarray(obj.power_input, dtype=float), (n,)).copy(),
                              "out": np.broadcast_to(np.asarray(obj.power_output, dtype=float), (n,)).copy()}
    return obs


def groups_at(spec, inp, t):
    """Independent union-find over the breakers closed at step t: list of sets of switchboard ids."""
    swbs = sorted({c["swb"] for c in spec["electric"]})
    parent = {s: s for s in swbs}

    def find(x):
        while parent[x] != x:
            parent[x] = parent[parent[x]]
            x = parent[x]
        return x
    for (a, b), row in zip(spec.get("bus_ties", []), inp["breaker"]):
        if row[t]:
            parent[find(a)] = find(b)
    g = {}
    for s in swbs:
        g.setdefault(find(s), set()).add(s)
    return list(g.values())


def model_step_request(spec, inp, obs, t):
    swbs = sorted({c["swb"] for c in spec["electric"]})
    plant = []
    for s in swbs:
        src, bal, cons = [], [], []
        for c in spec["electric"]:
            if c["swb"] != s:
                continue
            d, k = inp["comp"][c["name"]], c["kind"]
            if k in SOURCE_KINDS:
                src.append([enc(c["rated"]), bool(d["status"][t]), enc(d["share"][t])])
            elif k in ("other_load", "drive"):
                cons.append(enc(float(obs[c["name"]]["in"][t])))
            else:
                bal.append([enc(c["rated"]), bool(d["status"][t]), enc(d["mode"][t]), enc(d["given"][t])])
        plant.append({"id": s, "sources": src, "balancers": bal, "consumers": cons})
    return dict(op="electric.step", plant=plant, ends=[list(e) for e in spec.get("bus_ties", [])],
                status=inp["breaker"], n=inp["n"], t=t)


def names_by_swb(spec, s, kinds):
    return [c["name"] for c in spec["electric"] if c["swb"] == s and c["kind"] in kinds]


def compare_with_model(ctx, spec, inp, obs, where, tagprefix=""):
    """model-vs-code on every step: source outputs and storage/PTI inputs per switchboard."""
    reqs = [model_step_request(spec, inp, obs, t) for t in range(inp["n"])]
    answers = ctx.model.batch(reqs)
    bal_kinds = STORAGE_KINDS + ("pti_pto",)
    for t, ans in enumerate(answers):
        for sw in ans["out"]:
            s = sw["id"]
            srcs, bals = names_by_swb(spec, s, SOURCE_KINDS), names_by_swb(spec, s, bal_kinds)
            if sw.get("undefined"):
                vals = [obs[nm]["out"][t] for nm in srcs if inp["comp"][nm]["share"][t] == 0 and inp["comp"][nm]["status"][t]]
                ctx.count("bus_fraction", "undefined")
                if vals and all(np.isfinite(v) for v in vals):
                    ctx.fail("correspondence", tagprefix + "undefined-fraction", f"step {t} swb {s}: model undefined (load without capacity), code finite {vals}", where)
                continue
            ctx.count("bus_fraction", "defined")
            for nm, m in zip(srcs, sw["sources"]):
                if not close(dec(m), obs[nm]["out"][t], scale=rated_of(spec, nm)):
                    ctx.fail("correspondence", tagprefix + "source-output", f"step {t} {nm}: model {float(dec(m))} impl {obs[nm]['out'][t]}", where)
            for nm, m in zip(bals, sw["balancers"]):
                if not close(dec(m), obs[nm]["in"][t], scale=rated_of(spec, nm)):
                    ctx.fail("correspondence", tagprefix + "balancer-input", f"step {t} {nm}: model {float(dec(m))} impl {obs[nm]['in'][t]}", where)


def rated_of(spec, name):
    for c in spec["electric"]:
        if c["name"] == name:
            return c["rated"]
    return 1.0


def gen_case(rng, idx, **kw):
    spec = plants.gen_electric_plant(rng, **kw)
    if rng.random() < 0.5:      # components listed in random order
        spec["order"] = [int(i) for i in rng.permutation(len(spec["electric"]))]
    plants.mark_int_ratings(rng, spec)
    return {"idx": idx, "spec": spec, "inputs": gen_inputs(rng, spec)}


def run_balance(case):
    plant = plants.Plant(case["spec"])
    apply_inputs(plant, case["inputs"])
    plant.electric.do_power_balance_calculation()
    return plant, observe(plant, case["inputs"])
