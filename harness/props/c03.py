"""C03 — load sharing: equal load fraction, exact fixed shares, off means zero.

Same case stream and correspondence as C01 (`Feems.Electric.srcOut` / `balIn`); the predicate on
the implementation alone checks, per connected group and step: all running equal-sharing sources
and all running balancing storage / PTI/PTO units have the same fraction of their rated power,
every running fixed-share source delivers share x rating, every stopped source and stopped balancing
unit is at zero.
"""
from __future__ import annotations

import json

import numpy as np

from .. import core, elec_common as E
from ..core import close

THEOREMS = ["equal_fraction_source", "equal_fraction_balancer", "same_fraction", "fixed_share", "off_source",
            "off_balancer", "given_power", "unique"]
DEPENDS_ON_MODULES = ["FeemsProofs.C01", "FeemsProofs.C02", "FeemsProofs.Lemmas.ElectricLemmas"]
BAL = E.STORAGE_KINDS + ("pti_pto",)


def check_predicate(ctx, case, obs, where):
    spec, inp = case["spec"], case["inputs"]
    nontrivial = False
    for t in range(inp["n"]):
        for g in E.groups_at(spec, inp, t):
            members = [c for c in spec["electric"] if c["swb"] in g]
            fracs = []
            cap = sum(c["rated"] for c in members if c["kind"] in E.SOURCE_KINDS
                      and inp["comp"][c["name"]]["status"][t] and inp["comp"][c["name"]]["share"][t] == 0)
            cap += sum(c["rated"] for c in members if c["kind"] in BAL
                       and inp["comp"][c["name"]]["status"][t] and inp["comp"][c["name"]]["mode"][t] == 0)
            if cap == 0:
                # no running unit to take the balancing load: the load fraction is undefined (C01's precondition)
                ctx.count("group_without_capacity")
                continue
            for c in members:
                d = inp["comp"][c["name"]]
                if c["kind"] in E.SOURCE_KINDS:
                    out = obs[c["name"]]["out"][t]
                    if not d["status"][t]:
                        ctx.count("rule", "off")
                        if out != 0:
                            ctx.fail("predicate", "off-source-delivers", f"step {t} {c['name']} is off but delivers {out}", where)
                    elif d["share"][t] != 0:
                        ctx.count("rule", "fixed-share")
                        if not close(out, d["share"][t] * c["rated"], scale=c["rated"]):
                            ctx.fail("predicate", "fixed-share-not-exact", f"step {t} {c['name']}: {out} != {d['share'][t]} x {c['rated']}", where)
                    else:
                        fracs.append((c["name"], out / c["rated"]))
                elif c["kind"] in BAL and d["mode"][t] == 0:
                    pin = obs[c["name"]]["in"][t]
                    if not d["status"][t]:
                        ctx.count("rule", "off")
                        if pin != 0:
                            ctx.fail("predicate", "off-balancer-active", f"step {t} {c['name']} is off but its input is {pin}", where)
                    else:
                        fracs.append((c["name"], -pin / c["rated"]))
                elif c["kind"] in BAL:
                    ctx.count("rule", "given-power")
                    if not close(obs[c["name"]]["in"][t], d["given"][t], scale=c["rated"]):
                        ctx.fail("predicate", "given-power-changed", f"step {t} {c['name']}: input {obs[c['name']]['in'][t]} != given {d['given'][t]}", where)
            if len(fracs) >= 2:
                nontrivial = True
                ctx.count("rule", "equal-fraction")
                f0 = fracs[0][1]
                if np.isfinite(f0) and not all(close(f, f0) for _, f in fracs):
                    ctx.fail("predicate", "unequal-load-fraction", f"step {t} group {sorted(g)}: fractions {fracs}", where)
            elif fracs:
                ctx.count("rule", "single-equal-sharing-unit")
    return nontrivial


def run_case(ctx, case, model=True):
    where = {"case": case}
    try:
        plant, obs = E.run_balance(case)
    except Exception as e:
        ctx.fail("predicate", "balance-raises-" + core.error_class(e), f"{type(e).__name__}: {e}", where)
        return False
    nontrivial = check_predicate(ctx, case, obs, where)
    if model and ctx.model_available:
        E.compare_with_model(ctx, case["spec"], case["inputs"], obs, where)
    return nontrivial


CORPUS = core.VERIF / "corpus" / "C03"


def run(ctx):
    from .c01 import signature
    ctx.rule = ("same generator as C01 (electric plants, all source kinds, storage, PTI/PTO, breaker graphs, per-step settings); "
                "non-trivial = some group and step with at least two running equal-sharing units; distinct by "
                "(layout, breakers, all discrete settings)")
    ctx.assumptions += ["share in [0,1], storage/PTI mode in {0,1}"]
    cases = []
    if CORPUS.exists():
        cases += [json.loads(p.read_text()) for p in sorted(CORPUS.glob("*.json"))]
    ncorp = len(cases)
    cases += [E.gen_case(ctx.rng, i) for i in range(ctx.n(150, 4000))]
    for ci, case in enumerate(cases):
        nt = run_case(ctx, case)
        ctx.case_done(signature=signature(case) if nt else None, sample=case if ci == ncorp else None)
    ctx.extra["corpus_cases"] = ncorp


def search(ctx):
    for i in range(1500):
        run_case(ctx, E.gen_case(ctx.rng, 100_000 + i), model=False)
        if any(f["kind"] == "predicate" and not ctx.is_known(f) for f in ctx.failures):
            return


def replay(data):
    ctx = core.Ctx("C03", "quick", data.get("seed", 0))
    ctx.model_available = core.DRIVER.exists()
    run_case(ctx, data["case"]["case"])
    for f in ctx.failures:
        print(f"{f['kind']}: {f['tag']}: {f['what'][:300]}")
    if ctx._model:
        ctx._model.close()
    return 1 if ctx.failures else 0
