"""C18 — fuel-consumption records add, scale and split without loss or side effects.

Correspondence: histories of add / scale / fraction / emission / total operations on a pool of
shared `FuelConsumption` operands (scalar and series masses); after every operation
 (i)  the implementation's result is compared with the Lean model's (`Feems.Fuel.add`, `scale`,
      `fractions`, `total`), step by step for series (numpy arithmetic is element-wise);
 (ii) the property statement itself is evaluated on the implementation alone (per-kind masses and
      total conserved, fractions sum to one / zero, every operand of the pool bit-identical to its
      snapshot before the operation).
"""
from __future__ import annotations

import json

import numpy as np

from .. import core
from ..core import enc, dec, close
from .. import fuels as F
from feems.fuel import FuelConsumption, FuelSpecifiedBy, FuelConsumerClassFuelEUMaritime

THEOREMS = ["add_mass", "add_total", "add_kinds", "add_wellFormed", "add_is_union_merge", "add_comm", "add_assoc", "add_empty_left",
            "legacy_counts_twice", "legacy_eq_of_wellFormed",
            "add_empty_right", "scale_mass", "scale_total", "scale_kinds", "fractions_mass",
            "fractions_sum", "fractions_zero"]


# ---------------------------------------------------------------- case generation

def gen_case(rng, idx):
    """A history: initial pool of records + a list of ops. Everything JSON-serialisable."""
    kinds_all = F.valid_kinds()
    n_steps = int(rng.choice([0, 0, 1, 2, 3, 5]))       # 0 = scalar masses
    mixed = n_steps > 0 and rng.random() < 0.25          # some scalar masses among the series
    pool_kinds = [kinds_all[i] for i in rng.choice(len(kinds_all), size=5, replace=False)]
    user = None
    if rng.random() < 0.3:
        user = F.user_factors(rng)
        pool_kinds[0] = (pool_kinds[0][0], pool_kinds[0][1], FuelSpecifiedBy.USER)
    n_rec = int(rng.integers(2, 4))
    recs = []
    for _ in range(n_rec):
        nk = int(rng.choice([0, 1, 2, 3, 4], p=[0.08, 0.25, 0.3, 0.25, 0.12]))
        ks = [pool_kinds[i] for i in rng.choice(5, size=nk, replace=False)]
        if nk and rng.random() < 0.2:        # a kind listed twice: main and pilot fuel of the same kind (D20)
            ks.insert(int(rng.integers(0, nk + 1)), ks[int(rng.integers(nk))])
        entries = []
        for k in ks:
            if n_steps == 0 or (mixed and rng.random() < 0.5):
                m = gen_mass(rng)
            else:
                m = [gen_mass(rng) for _ in range(n_steps)]
            e = {"kind": [k[0].value, k[1].value, k[2].value], "mass": m}
            if isinstance(m, list) and rng.random() < 0.15:      # a hand-written whole-number series in an integer array
                e["mass"] = m = [float(round(x)) for x in m]
                e["repr"] = "int-series"
            if not isinstance(m, list):       # how the scalar is held: Python float, numpy scalar, or a 0-d array (np.squeeze of a one-step series)
                e["repr"] = str(rng.choice(["float", "float64", "0d"], p=[0.6, 0.2, 0.2]))
            entries.append(e)
        recs.append(entries)
    ops = []
    n_pool = n_rec
    for _ in range(int(rng.integers(2, 7))):
        kind = rng.choice(["add", "add", "add", "scale", "fractions", "emissions", "total"])
        if kind == "add":
            i, j = int(rng.integers(n_pool)), int(rng.integers(n_pool))
            ops.append({"op": "add", "i": i, "j": j})
            n_pool += 1
        elif kind == "scale":
            c = float(rng.choice([0.0, 0.5, 2.0, 1e-7, -1.0, -0.5, float(np.round(rng.uniform(0, 10), 3))]))        # a difference is written a + b * (-1)
            ops.append({"op": "scale", "i": int(rng.integers(n_pool)), "c": c})
            n_pool += 1
        elif kind == "emissions":
            cls = int(rng.integers(1, 7))
            ops.append({"op": "emissions", "i": int(rng.integers(n_pool)), "cls": cls})
        else:
            ops.append({"op": str(kind), "i": int(rng.integers(n_pool))})
    return {"idx": idx, "n_steps": n_steps, "recs": recs, "ops": ops,
            "user": None if user is None else {
                "lhv": user["lhv_mj_per_g"], "wtt": user["ghg_emission_factor_well_to_tank_gco2eq_per_mj"],
                "rows": [[r.co2_factor_gco2_per_gfuel, r.ch4_factor_gch4_per_gfuel, r.n2o_factor_gn2o_per_gfuel,
                          r.c_slip_percent, None if r.fuel_consumer_class is None else r.fuel_consumer_class.value]
                         for r in user["ghg_emission_factor_tank_to_wake"]]}}


def gen_mass(rng):
    r = rng.random()
    if r < 0.2:
        return 0.0
    if r < 0.3:
        return float(rng.integers(1, 1000))
    if r < 0.4:       # mass flows in kg/s of a small unit over a short step: tiny but not zero
        return float(10.0 ** (-rng.uniform(3, 12)))
    return float(np.round(rng.uniform(0, 5000), int(rng.integers(0, 6))))


# ---------------------------------------------------------------- running one case

def build_record(entries, user_json):
    from feems.fuel import TypeFuel, FuelOrigin, GhgEmissionFactorTankToWake
    fuels = []
    for e in entries:
        t, o, s = e["kind"]
        kind = (TypeFuel(t), FuelOrigin(o), FuelSpecifiedBy(s))
        m = e["mass"]
        mass = np.array(m, dtype=int if (e.get("repr") == "int-series" and all(float(x).is_integer() for x in m)) else float) if isinstance(m, list) else \
            {"float": float, "float64": np.float64, "0d": lambda x: np.asarray(float(x))}[e.get("repr", "float")](m)
        user = None
        if kind[2] == FuelSpecifiedBy.USER:
            user = dict(lhv_mj_per_g=user_json["lhv"], ghg_emission_factor_well_to_tank_gco2eq_per_mj=user_json["wtt"],
                        ghg_emission_factor_tank_to_wake=[
                            GhgEmissionFactorTankToWake(r[0], r[1], r[2], r[3],
                                                        None if r[4] is None else FuelConsumerClassFuelEUMaritime(r[4]))
                            for r in user_json["rows"]])
        fuels.append(F.make_fuel(kind, mass, user))
    return FuelConsumption(fuels=fuels)


def steps_of(snapshot, n):
    """Model-side view of an implementation record: list over steps of [[t,o,s,mass],…]."""
    n_eff = max(1, n)
    out = []
    for t in range(n_eff):
        row = []
        for k, m in snapshot:
            v = m[t] if isinstance(m, np.ndarray) else m
            row.append([k[0], k[1], k[2], enc(v)])
        out.append(row)
    return out


def length_of(snapshot):
    ls = {len(m) for _, m in snapshot if isinstance(m, np.ndarray)}
    return max(ls) if ls else 0


def mass_map(snapshot, n):
    """kind -> np.array(n_eff) of summed masses (implementation view)."""
    n_eff = max(1, n)
    out = {}
    for k, m in snapshot:
        v = np.broadcast_to(np.asarray(m, dtype=float), (n_eff,)) if not (isinstance(m, np.ndarray) and m.shape == (n_eff,)) else m
        out[k] = out.get(k, np.zeros(n_eff)) + v
    return out


def run_case(ctx, case, model=True):
    """Runs the history on the implementation (and the model). Reports failures into ctx.
    Returns a dict with counters for the evidence."""
    pool = [build_record(r, case["user"]) for r in case["recs"]]
    nondup = all(len({tuple(e["kind"]) for e in r}) == len(r) for r in case["recs"])
    n = case["n_steps"]
    info = {"ops": 0}
    for opi, op in enumerate(case["ops"]):
        before = [F.rec_snapshot(r) for r in pool]
        kind = op["op"]
        where = {"case": case, "op_index": opi}
        if max(op.get("i", 0), op.get("j", 0)) >= len(pool):       # an operand that an earlier, refused operation would have produced
            ctx.count("op_skipped", "operand-missing")
            continue
        try:
            if kind == "add":
                res = pool[op["i"]] + pool[op["j"]]
            elif kind == "scale":
                res = pool[op["i"]] * op["c"]
            elif kind == "fractions":
                res = pool[op["i"]].fuel_by_mass_fraction
            elif kind == "emissions":
                res = pool[op["i"]].get_total_co2_emissions(
                    fuel_consumer_class=FuelConsumerClassFuelEUMaritime(op["cls"]))
            elif kind == "total":
                res = pool[op["i"]].total_fuel_consumption
        except Exception as e:
            ctx.count("op_rejected", f"{kind}:{core.error_class(e)}")
            # the emission query may refuse a record (a user-specified fuel without factors, a consumer class the table has no row for);
            # adding, scaling, fractions and totals are defined for every record of the property's domain
            if kind != "emissions":       # (a record may hold a constant next to a series: it counts for every sample - D40)
                ctx.fail("predicate", f"{kind}-raises-{core.error_class(e)}", f"{type(e).__name__}: {e}", where)
            after = [F.rec_snapshot(r) for r in pool]
            check_unchanged(ctx, kind, before, after, where)
            continue
        ctx.count("op", kind)
        info["ops"] += 1
        after = [F.rec_snapshot(r) for r in pool]
        check_unchanged(ctx, kind, before, after, where)
        a = before[op["i"]]
        if kind == "add":
            b = before[op["j"]]
            r = F.rec_snapshot(res)
            ma, mb, mr = mass_map(a, n), mass_map(b, n), mass_map(r, n)
            for k in set(ma) | set(mb) | set(mr):
                exp = ma.get(k, 0) + mb.get(k, 0)
                got = mr.get(k, np.zeros(max(1, n)))
                if not all(close(x, y) for x, y in zip(np.atleast_1d(exp), np.atleast_1d(got))):
                    ctx.fail("predicate", "add-mass-not-conserved", f"kind {k}: {got} != {exp}", where)
            if model and ctx.model_available:
                compare_record(ctx, "add", [ctx.model.call("fuel.add", a=x, b=y) for x, y in zip(steps_of(a, n), steps_of(b, n))], r, n, where)
            pool.append(res)
        elif kind == "scale":
            r = F.rec_snapshot(res)
            ma, mr = mass_map(a, n), mass_map(r, n)
            for k in set(ma) | set(mr):
                exp = ma.get(k, 0) * op["c"]
                got = mr.get(k, np.zeros(max(1, n)))
                if not all(close(x, y) for x, y in zip(np.atleast_1d(exp), np.atleast_1d(got))):
                    ctx.fail("predicate", "scale-mass", f"kind {k}: {got} != {exp}", where)
            if model and ctx.model_available:
                compare_record(ctx, "scale", [ctx.model.call("fuel.scale", a=x, c=enc(op["c"])) for x in steps_of(a, n)], r, n, where)
            pool.append(res)
        elif kind == "fractions":
            r = F.rec_snapshot(FuelConsumption(fuels=res.fuels))
            tot = sum(mass_map(a, n).values()) if a else np.zeros(max(1, n))
            mr = mass_map(r, n)
            fsum = sum(mr.values()) if mr else np.zeros(max(1, n))
            for t in range(max(1, n)):
                want = 1.0 if tot[t] != 0 else 0.0
                if not close(fsum[t], want):
                    ctx.fail("predicate", "fractions-sum", f"step {t}: fractions sum to {fsum[t]}, total mass {tot[t]}", where)
                    break
            if model and ctx.model_available:
                exp = [ctx.model.call("fuel.fractions", a=x) for x in steps_of(a, n)]
                # compare as maps kind -> fraction (the scalar branch returns an empty record at zero)
                for t, e in enumerate(exp):
                    em = {}
                    for (ty, o, s, m) in e:
                        em[(ty, o, s)] = em.get((ty, o, s), 0) + dec(m)
                    for k in set(em) | set(mr):
                        g = mr.get(k, np.zeros(max(1, n)))[t]
                        if not close(em.get(k, 0), g):
                            ctx.fail("correspondence", "fractions", f"step {t} kind {k}: model {em.get(k, 0)} impl {g}", where)
        elif kind == "total":
            tot = sum(mass_map(a, n).values()) if a else np.zeros(max(1, n))
            got = np.broadcast_to(np.asarray(res, dtype=float), (max(1, n),)) if a else np.zeros(max(1, n))
            if not all(close(x, y) for x, y in zip(tot, got)):
                ctx.fail("predicate", "total", f"{got} != {tot}", where)
            if model and ctx.model_available:
                exp = [dec(ctx.model.call("fuel.total", a=x)) for x in steps_of(a, n)]
                if not all(close(x, y) for x, y in zip(exp, got)):
                    ctx.fail("correspondence", "total", f"model {exp} impl {got}", where)
    return info


def check_unchanged(ctx, kind, before, after, where):
    for i, (x, y) in enumerate(zip(before, after)):
        if not F.snapshots_equal(x, y):
            ctx.fail("predicate", f"{kind}-operand-mutated", f"pool record {i} changed by {kind}: {x} -> {y}", where)
            return


def compare_record(ctx, what, model_steps, impl_snapshot, n, where):
    """model_steps: per step the model's record; impl: one record with scalar/series masses.
    List structure (kinds in order) must agree, masses within tolerance."""
    impl_kinds = [list(k) for k, _ in impl_snapshot]
    for t, ms in enumerate(model_steps):
        mk = [[e[0], e[1], e[2]] for e in ms]
        if mk != impl_kinds:
            ctx.fail("correspondence", what + "-kinds", f"step {t}: model kinds {mk} impl kinds {impl_kinds}", where)
            return
        for (k, m), e in zip(impl_snapshot, ms):
            v = m[t] if isinstance(m, np.ndarray) and m.ndim == 1 and len(m) > t else m
            if isinstance(v, np.ndarray):
                v = float(v) if v.ndim == 0 else v[0]
            if not close(dec(e[3]), v):
                ctx.fail("correspondence", what + "-mass", f"step {t} kind {k}: model {dec(e[3])} impl {v}", where)
                return


# ---------------------------------------------------------------- entry points

CORPUS = core.VERIF / "corpus" / "C18"


def run(ctx):
    ctx.rule = ("histories of 2-6 add/scale/fractions/emissions/total ops on a pool of 2-3 shared records "
                "(0-4 kinds from all table-accepted (type,origin,spec) + user-specified, scalar or series masses "
                "incl. zeros, some scalar/series mixes); a case is non-trivial when at least one op ran on a "
                "non-empty record; distinct by (n_steps, kinds per record, op list)")
    ctx.assumptions += ["records never list one kind twice (WellFormed) — generated so; the theorem needs it for the left operand",
                        "series operations are element-wise (model evaluated per step)"]
    cases = []
    if CORPUS.exists():
        for p in sorted(CORPUS.glob("*.json")):
            cases.append(json.loads(p.read_text()))
    ncorp = len(cases)
    for i in range(ctx.n(250, 6000)):
        cases.append(gen_case(ctx.rng, i))
    for ci, case in enumerate(cases):
        info = run_case(ctx, case)
        ctx.count("n_steps", case["n_steps"])
        ctx.count("kind_listed_twice", any(len({tuple(e["kind"]) for e in r}) < len(r) for r in case["recs"]))
        ctx.count("records_sizes", ",".join(str(len(r)) for r in case["recs"]))
        sig = (case["n_steps"], tuple(tuple(tuple(e["kind"]) for e in r) for r in case["recs"]),
               tuple((o["op"], o.get("i"), o.get("j")) for o in case["ops"]))
        nontriv = info["ops"] > 0 and any(len(r) > 0 for r in case["recs"])
        ctx.case_done(signature=sig if nontriv else None, sample=case if ci in (ncorp, ncorp + 1) else None)
    ctx.extra["corpus_cases"] = ncorp


def search(ctx):
    """Something (proof or correspondence) is broken but no predicate failed yet: spend a larger
    budget on the implementation alone."""
    for i in range(4000):
        run_case(ctx, gen_case(ctx.rng, 10_000 + i), model=False)
        if any(f["kind"] == "predicate" and not ctx.is_known(f) for f in ctx.failures):
            return


def replay(data):
    ctx = core.Ctx("C18", "quick", data.get("seed", 0))
    ctx.model_available = core.DRIVER.exists()
    case = data["case"]["case"] if "case" in (data.get("case") or {}) else data["case"]
    run_case(ctx, case)
    for f in ctx.failures:
        print(f"{f['kind']}: {f['tag']}: {f['what'][:300]}")
    if ctx._model:
        ctx._model.close()
    return 1 if ctx.failures else 0
