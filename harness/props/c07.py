"""C07 — fuel mass flow follows the consumption and efficiency characteristics.

Correspondence: engines (single and dual fuel), generating sets (with / without rectifier), geared
main engines, fuel-cell systems (1-4 modules), COGAS / COGES, scalar and series powers inside the load
range the curves cover, against `Feems.Engine`; every curve (bsfc, pilot, species, efficiencies, gas
turbine share) is an oracle evaluated on the real component at the load the *model* computes (pull
protocol, chains such as generator load -> efficiency -> engine load -> bsfc take several rounds).
Running hours through `get_fuel_emission_energy_balance_for_component`.
Predicates on the implementation alone: the statements of the property on the run point's own figures.
"""
from __future__ import annotations

import json

import numpy as np
from feems.types_for_feems import TypePower

from . import curve_common
from .. import core, comps, plants
from ..core import enc, dec, close, frac, call_with_oracle
from .c06 import raw_eta, inv_value
from feems.components_model.node import get_fuel_emission_energy_balance_for_component
from feems.components_model.utility import IntegrationMethod
from feems.fuel import Fuel, FuelSpecifiedBy, TypeFuel, FuelOrigin
from feems.types_for_feems import EmissionType

THEOREMS = ["engine", "pilot", "zero", "nonneg", "constant_curve", "genset", "geared", "fuel_cell", "modules_linear", "modules",
            "geared_legacy_wrong_load", "geared_bidirectional", "geared_reverse_legacy_creates_energy", "cogas_point", "cogas_follows_split_curves", "legacy_share_off_curve", "legacy_cogas_gas_is_ratio", "running_hours_cons", "running_hours_idle", "running_hours_always"]
THEOREMS += curve_common.CURVE_THEOREMS["C07"]       # the interpolation rule of the curves (FeemsProofs/CurveProps.lean)
EXTRA_PROOF_MODULES = curve_common.PROOF_MODULES
DEPENDS_ON_MODULES = curve_common.DEPENDS + ["FeemsProofs.C06"]


def curve_range(curve):
    if len(curve) == 1 and not isinstance(curve[0], list):
        return 0.0, 1.0
    xs = [p[0] for p in curve]
    return min(xs), max(xs)


def gen_case(rng, idx):
    kind = str(rng.choice(["engine", "genset", "geared", "fuel_cell_system", "cogas", "coges"]))
    n = int(rng.choice([1, 1, 3, 6]))
    case = {"idx": idx, "kind": kind, "scalar": bool(n == 1 and rng.random() < 0.5)}
    rated = float(rng.choice([500.0, 1000.0, 3000.0, float(np.round(rng.uniform(200, 6000), 0))]))
    if kind in ("engine", "genset", "geared"):
        for _ in range(200):
            eng = plants.gen_engine_spec(rng, rated)
            lo, hi = curve_range(eng["bsfc"])
            if eng.get("dual"):
                l2, h2 = curve_range(eng["dual"]["bspfc"])
                lo, hi = max(lo, l2), min(hi, h2)
            for e in eng.get("emissions", []):
                if len(e["points"]) > 1:          # (a curve of one point is a constant: it covers every load)
                    l2, h2 = curve_range(e["points"])
                    lo, hi = max(lo, l2), min(hi, h2)
            if lo <= hi:
                break       # (curves that cover no common load range leave no power "within the range covered by the curves": drawn again -
            # the old fallback to 30-90 % load put the powers outside the consumption curve, where PCHIP extrapolates below zero)
        case["engine"] = eng
        case["rated"] = rated
        if kind == "genset":
            rg = float(np.round(rated * rng.uniform(0.85, 0.97), 0))
            case["generator"] = {"rated": rg, "speed": 1000.0, "curve": comps.gen_accepted_curve(rng, rg, lo=0.9)}
            if rng.random() < 0.4:
                rr = float(np.round(rg * float(rng.choice([1.0, 1.0, 1.2, 1.5, 2.0])), 0))      # a rectifier is often rated above its generator
                case["rectifier"] = {"rated": rr, "curve": comps.gen_accepted_curve(rng, rr, lo=0.95),
                                     "type": str(rng.choice(["RECTIFIER", "RECTIFIER", "ACTIVE_FRONT_END", "POWER_CONVERTER"]))}
            top = rg
            # powers stay inside the load range the generator's and the rectifier's own curves cover
            for st, r_st in ((case["generator"], rg), (case.get("rectifier"), case.get("rectifier", {}).get("rated"))):
                if st is not None:
                    l2, h2 = curve_range(st["curve"])
                    l2, h2 = l2 * r_st / (0.9 * rg), h2 * r_st / (0.9 * rg)
                    if max(lo, l2) <= min(hi, h2):
                        lo, hi = max(lo, l2), min(hi, h2)
                    else:
                        st["curve"] = [float(np.round(rng.uniform(0.9, 0.98), 3))]
        elif kind == "geared":
            r_gb = float(np.round(rated * float(rng.choice([1.0, 1.0, 1.5, 2.0])), 0))        # a gearbox is rated on its own
            case["gearbox"] = {"rated": r_gb, "curve": comps.gen_accepted_curve(rng, r_gb, lo=0.93)}
            top = rated * 0.93
            l2, h2 = curve_range(case["gearbox"]["curve"])
            l2, h2 = l2 / (0.93 * 0.9) * r_gb / rated, h2 / (0.93 * 0.9) * r_gb / rated
            if max(lo, l2) <= min(hi, h2):
                lo, hi = max(lo, l2), min(hi, h2)
            else:
                case["gearbox"]["curve"] = [float(np.round(rng.uniform(0.93, 0.99), 3))]
        else:
            top = rated
        loads = [float(np.round(rng.uniform(lo, hi), 3)) for _ in range(n)]
        knots = [q[0] for q in eng["bsfc"] if isinstance(q, list) and lo <= q[0] <= hi]
        if rng.random() < 0.5 and knots:
            loads[0] = knots[int(rng.integers(len(knots)))]       # exactly at a given curve point (inside what every curve covers)
        if rng.random() < 0.3:
            loads[-1] = 0.0
        if hi > 1.0 and rng.random() < 0.7:
            loads[0] = float(np.round(rng.uniform(1.01, hi), 3))          # overload operation, inside what the curves cover
        case["powers"] = [float(np.round(l * (top if kind != "engine" else rated) * (0.9 if (kind != "engine" and l <= 1.0) else 1.0), 4)) for l in loads]
    elif kind == "fuel_cell_system":
        s = plants.gen_source_spec(rng, "fcs", 1, kinds=("fuel_cell_system",))
        case["spec"] = s
        lo, hi = curve_range(s["fuel_cell"]["curve"])
        if max(lo, 0.05) > min(hi, 0.95):
            lo, hi = 0.3, 0.9
        case["powers"] = [float(np.round(rng.uniform(max(lo, 0.05), min(hi, 0.95)) * s["rated"] * 0.9, 3)) for _ in range(n)]
        if rng.random() < 0.3:
            case["powers"][-1] = 0.0
    else:
        s = plants.gen_source_spec(rng, "cg", 1, kinds=("coges",))
        case["spec"] = s
        lo, hi = curve_range(s["cogas"]["curve"])
        if max(lo, 0.26) > min(hi, 0.95):
            lo, hi = 0.3, 0.9
        case["powers"] = [float(np.round(rng.uniform(max(lo, 0.26), min(hi, 0.95)) * s["rated"] * 0.9, 3)) for _ in range(n)]
    case["dt"] = [float(rng.choice([1.0, 60.0, 900.0])) for _ in case["powers"]]
    return case


def lhv_of(fuel_type, origin):
    return Fuel(TypeFuel[fuel_type], FuelOrigin[origin], FuelSpecifiedBy.IMO).lhv_mj_per_g


def fuels_of(rp):
    return [(f.fuel_type.name, f.origin.name, np.atleast_1d(np.asarray(f.mass_or_mass_fraction, dtype=float))) for f in rp.fuel_flow_rate_kg_per_s.fuels]


def run_case(ctx, case, model=True):
    where = {"case": case}
    kind = case["kind"]
    ctx.count("kind", kind)
    P = np.array(case["powers"], dtype=float)
    arg = float(P[0]) if case["scalar"] else P.copy()
    n = len(P)
    try:
        if kind in ("engine", "genset", "geared"):
            eng_spec = case["engine"]
            species = []
            if kind == "engine":
                obj = plants.build_engine(eng_spec)
                rp = obj.get_engine_run_point_from_power_out_kw(arg)
                eng = obj
            elif kind == "genset":
                obj = plants.build_electric_component({"kind": "genset", "name": "gs", "swb": 1, "engine": eng_spec,
                                                       "generator": case["generator"], "rectifier": case.get("rectifier")})
                grp = obj.get_fuel_cons_load_bsfc_from_power_out_generator_kw(arg)
                rp, eng = grp.engine, obj.aux_engine
            else:
                obj = plants.build_mechanical_component({"kind": "main_engine", "name": "me", "shaft_line": 1, "engine": eng_spec,
                                                         "gearbox": case["gearbox"]})
                rp, eng = obj.get_engine_run_point_from_power_out_kw(arg), obj.engine
            ctx.count("engine_variant", ("dual" if eng_spec.get("dual") else "single") + ("+curves" if eng_spec.get("emissions") else ""))
            if eng_spec.get("dual"):
                d = eng_spec["dual"]
                ctx.count("pilot_kind", "same-kind-as-main" if (d["pilot_type"], d["pilot_origin"]) == (eng_spec["fuel_type"], eng_spec["fuel_origin"])
                          else ("same-type-other-origin" if d["pilot_type"] == eng_spec["fuel_type"] else "other-type"))
        elif kind == "fuel_cell_system":
            obj = plants.build_electric_component(case["spec"])
            rp = obj.get_fuel_cell_run_point(power_out_kw=arg)
        elif kind == "cogas":
            obj = plants.build_cogas(case["spec"]["cogas"])
            if case["idx"] % 2:         # the power as an argument, on a plant that has not been given a power yet
                rp = obj.get_gas_turbine_run_point_from_power_output_kw(arg)
                ctx.count("cogas_power", "argument")
            else:
                obj.power_output = arg
                rp = obj.get_gas_turbine_run_point_from_power_output_kw()
                ctx.count("cogas_power", "stored")
        else:
            obj = plants.build_electric_component(case["spec"])
            obj.power_output = arg
            crp = obj.get_system_run_point_from_power_output_kw()
            rp = crp.cogas
    except Exception as e:
        ctx.fail("predicate", "run-point-raises-" + core.error_class(e), f"{kind}: {type(e).__name__}: {e}", where)
        return False
    fl = fuels_of(rp)
    # ------------------------------------------------ predicates on the implementation's own figures
    for t in range(n):
        p = float(P[t])
        if kind in ("engine", "genset", "geared"):
            load = float(np.atleast_1d(rp.load_ratio)[t])
            pe = load * eng_spec["rated"]
            bs = float(np.atleast_1d(rp.bsfc_g_per_kWh)[t]) if np.ndim(rp.bsfc_g_per_kWh) else float(rp.bsfc_g_per_kWh)
            main = float(np.broadcast_to(fl[0][2], (n,))[t])
            if not close(main, bs * pe / 3.6e6, scale=eng.rated_power * 250 / 3.6e6):
                ctx.fail("predicate", "fuel-not-bsfc-times-power", f"{kind} step {t}: {main} kg/s != {bs} g/kWh x {pe} kW / 3.6e6", where)
            tiny = 1e-12 * eng.rated_power * 250 / 3.6e6      # the array dispatch sends exactly 0 through the interpolated inverse (1e-19 kW)
            if p == 0 and any(abs(np.broadcast_to(m, (n,))[t]) > tiny for _, _, m in fl):
                ctx.fail("predicate", "fuel-at-zero-power", f"{kind} step {t}: fuel {[m for _, _, m in fl]} at zero power", where)
            if any(np.broadcast_to(m, (n,))[t] < -tiny for _, _, m in fl):
                ctx.fail("predicate", "negative-fuel", f"{kind} step {t}: {fl}", where)
            if eng_spec.get("dual"):
                if len(fl) != 2 or fl[1][0] != eng_spec["dual"]["pilot_type"]:
                    ctx.fail("predicate", "pilot-not-separate", f"fuels {[(a, b) for a, b, _ in fl]}", where)
                else:
                    bp = float(np.atleast_1d(rp.bpsfc_g_per_kWh)[t]) if np.ndim(rp.bpsfc_g_per_kWh) else float(rp.bpsfc_g_per_kWh)
                    if not close(float(np.broadcast_to(fl[1][2], (n,))[t]), bp * pe / 3.6e6, scale=eng.rated_power * 20 / 3.6e6):
                        ctx.fail("predicate", "pilot-not-bpsfc-times-power", f"step {t}", where)
            pts = eng_spec["bsfc"]
            if isinstance(pts[0], list):
                for (lx, v) in pts:
                    if abs(load - lx) < 1e-12 and not close(bs, v):
                        ctx.fail("predicate", "curve-misses-given-point", f"bsfc at load {lx}: {bs} != given {v}", where)
            elif not close(bs, pts[0]):
                ctx.fail("predicate", "single-value-not-constant", f"bsfc {bs} != {pts[0]}", where)
            if kind == "genset" and p >= 0:
                eg = float(obj.generator.get_efficiency_from_load_percentage(abs(p) / case["generator"]["rated"]))
                if not close(pe * eg, p, scale=eng.rated_power):
                    ctx.fail("predicate", "engine-power-not-electric-over-efficiency", f"step {t}: engine {pe} x eff {eg} != {p}", where)
            if kind == "geared":
                egb = float(obj.gearbox.get_efficiency_from_load_percentage(abs(p) / case["gearbox"]["rated"]))
                if not close(pe * egb, p, scale=eng.rated_power):
                    ctx.fail("predicate", "engine-power-not-shaft-over-gearbox-efficiency", f"step {t}: engine {pe} x eff {egb} != {p}", where)
        elif kind == "fuel_cell_system":
            s = case["spec"]
            ec = float(obj.converter.get_efficiency_from_load_percentage(abs(p) / s["converter"]["rated"])) if hasattr(obj, "converter") else 1.0
            pc = p / ec / s["modules"]
            ef = float(obj.fuel_cell.get_efficiency_from_load_percentage(abs(pc) / s["fuel_cell"]["rated"]))
            want = pc / ef / lhv_of(s["fuel_cell"]["fuel_type"], s["fuel_cell"]["fuel_origin"]) / 1e6 * s["modules"]
            got = float(np.broadcast_to(fl[0][2], (n,))[t])
            if not close(got, want, scale=1e-3):
                ctx.fail("predicate", "fuel-cell-mass", f"step {t}: {got} != (P/eta)/LHV x modules = {want}", where)
        else:
            cg = obj if kind == "cogas" else obj.cogas
            pc = float(P[t]) if kind == "cogas" else float(np.broadcast_to(np.asarray(cg.power_output, dtype=float), (n,))[t])
            ef = float(cg.get_efficiency_from_load_percentage(abs(pc) / case["spec"]["cogas"]["rated"]))
            want = pc / ef / lhv_of(case["spec"]["cogas"]["fuel_type"], case["spec"]["cogas"]["fuel_origin"]) / 1e6
            got = float(np.broadcast_to(fl[0][2], (n,))[t])
            if not close(got, want, scale=1e-3):
                ctx.fail("predicate", "turbine-fuel-mass", f"step {t}: {got} != (P/eta)/LHV = {want}", where)
            if rp.gas_turbine_power_kw is not None:
                g = float(np.broadcast_to(np.asarray(rp.gas_turbine_power_kw, dtype=float), (n,))[t])
                st = float(np.broadcast_to(np.asarray(rp.steam_turbine_power_kw, dtype=float), (n,))[t])
                ratio = float(cg.power_ratio_gas_turbine_interpolator(pc / case["spec"]["cogas"]["rated"]))
                if not close(g + st, pc, scale=cg.rated_power):
                    ctx.fail("predicate", "turbine-powers-do-not-add-up", f"step {t}: {g} + {st} != {pc}", where)
                if not close(g, ratio * pc, scale=cg.rated_power):
                    ctx.fail("predicate", "gas-turbine-power-not-share-times-power", f"step {t}: gas {g} != share {ratio} x {pc}", where)
                # "follow the given split curves": the share at this load is that of the two GIVEN power curves at this load (interpolated
                # the way FEEMS interpolates every curve, PCHIP - built here from the case's own points, not read from the component)
                cs = case["spec"]["cogas"]
                if cs.get("gt_curve") is not None and cs.get("st_curve") is not None and len(cs["gt_curve"]) > 1:
                    from scipy.interpolate import PchipInterpolator
                    gp, sp = (np.array(sorted(cs[k]), dtype=float) for k in ("gt_curve", "st_curve"))
                    ld = pc / cs["rated"]
                    if gp[0, 0] <= ld <= gp[-1, 0]:
                        gv, sv = float(PchipInterpolator(gp[:, 0], gp[:, 1])(ld)), float(PchipInterpolator(sp[:, 0], sp[:, 1])(ld))
                        ctx.count("cogas_share_vs_given_curves", "at a point" if any(abs(ld - x) < 1e-12 for x in gp[:, 0]) else "between points")
                        if gv + sv > 0 and not close(g, gv / (gv + sv) * pc, scale=cg.rated_power, tol=1e-9):
                            ctx.fail("predicate", "turbine-powers-do-not-follow-split-curves", f"step {t}: load {ld}: gas turbine {g} kW, the given curves give "
                                     f"{gv:.6g} / ({gv:.6g} + {sv:.6g}) x {pc} = {gv / (gv + sv) * pc}", where)
                        # the same with the two given curves interpolated by the MODEL (Pchip.curve): no scipy on the judging side
                        if model and ctx.model_available:
                            mg = dec(ctx.model.call("pchip.curve", points=[[enc(a), enc(b)] for a, b in cs["gt_curve"]], at=[enc(ld)])[0])
                            ms = dec(ctx.model.call("pchip.curve", points=[[enc(a), enc(b)] for a, b in cs["st_curve"]], at=[enc(ld)])[0])
                            ctx.count("cogas_share_vs_modelled_curves", True)
                            if mg + ms > 0 and not close(mg / (mg + ms) * dec(enc(pc)), g, scale=cg.rated_power):
                                ctx.fail("correspondence", "cogas-split-modelled", f"step {t}: load {ld}: gas turbine {g} kW, the model's curves give {float(mg / (mg + ms)) * pc}", where)
    # a generator behind a rectifier: at the tabulated loads the machine's efficiency is generator x rectifier, each at its own load
    if kind == "genset" and case.get("rectifier"):
        g0 = plants.build_machine(case["generator"], TypePower.POWER_SOURCE, 1)
        r0 = plants.build_basic(dict(case["rectifier"], type="RECTIFIER"), 1, TypePower.POWER_SOURCE, "r")
        for kx in range(1, 11):
            pw = kx / 10.0 * case["generator"]["rated"]
            want = float(g0.get_efficiency_from_load_percentage(pw / case["generator"]["rated"])) * \
                float(r0.get_efficiency_from_load_percentage(pw / case["rectifier"]["rated"]))
            got = float(obj.generator.get_efficiency_from_load_percentage(pw / case["generator"]["rated"]))
            if abs(got - min(max(want, 0.01), 1.0)) > 1e-7:
                ctx.fail("predicate", "generator-with-rectifier-not-product-of-stages", f"at {pw} kW: {got} != {want} (ratings {case['generator']['rated']}, {case['rectifier']['rated']})", where)
                break
    # running hours through the per-component result
    if kind in ("genset", "geared", "fuel_cell_system", "coges") and not case["scalar"]:
        obj.power_output = P.copy()
        dt = np.array(case["dt"], dtype=float)
        try:
            res = get_fuel_emission_energy_balance_for_component(obj, dt, IntegrationMethod.sum_with_time)
            hrs = {"genset": res.running_hours_genset_total_hr, "coges": res.running_hours_genset_total_hr,
                   "geared": res.running_hours_main_engines_hr, "fuel_cell_system": res.running_hours_fuel_cell_total_hr}[kind]
            want = float(sum(d for p, d in zip(P, dt) if p != 0) / 3600)
            if not close(hrs, want):
                ctx.fail("predicate", "running-hours", f"{hrs} h != {want} h", where)
            if model and ctx.model_available:
                m = dec(ctx.model.call("hours.run", p=[enc(x) for x in P], dt=[enc(x) for x in dt]))
                if not close(m, hrs):
                    ctx.fail("correspondence", "running-hours", f"model {float(m)} impl {hrs}", where)
        except Exception as e:
            ctx.fail("predicate", "component-result-raises-" + core.error_class(e), f"{type(e).__name__}: {e}", where)
    # ------------------------------------------------ correspondence (pull oracle)
    if not (model and ctx.model_available):
        return True
    for t in range(n):
        p = float(P[t])
        if kind in ("engine", "genset", "geared"):
            sp_names = [s.name for s in rp.emissions_g_per_s]

            def oracle(name, key, eng=eng, obj=obj):
                x = float(key)
                if name == "bsfc":
                    return float(eng.specific_fuel_consumption_interp(x))
                if name == "bpsfc":
                    return float(eng.specific_pilot_fuel_consumption_interp(x))
                if name == "eta_gen":
                    return raw_eta(obj.generator, key)[0]
                if name == "inv_gen":
                    return inv_value(obj.generator, x)[0]
                if name == "eta_gb":
                    return raw_eta(obj.gearbox, key)[0]
                return float(eng.emissions_g_per_kwh(EmissionType[name], x))
            args = dict(p=enc(p), rated=enc(eng_spec["rated"]), dual=bool(eng_spec.get("dual")), species=sp_names,
                        generator_rated=enc(case["generator"]["rated"]) if kind == "genset" else None,
                        gearbox=True if kind == "geared" else None, gearbox_rated=enc(case["gearbox"]["rated"]) if kind == "geared" else None)
            ans, tables, rounds = call_with_oracle(ctx.model, "engine.engine", args, oracle)
            ctx.count("oracle_rounds", rounds)
            load = float(np.atleast_1d(rp.load_ratio)[t])
            if not close(dec(ans["load"]), load):
                ctx.fail("correspondence", "engine-load", f"step {t}: model {float(dec(ans['load']))} impl {load}", where)
            if not close(dec(ans["fuel"]), float(np.broadcast_to(fl[0][2], (n,))[t]), scale=eng.rated_power * 250 / 3.6e6):
                ctx.fail("correspondence", "engine-fuel", f"step {t}: model {float(dec(ans['fuel']))} impl {np.broadcast_to(fl[0][2], (n,))[t]}", where)
            if eng_spec.get("dual") and len(fl) == 2 and not close(dec(ans["pilot"]), float(np.broadcast_to(fl[1][2], (n,))[t]), scale=eng.rated_power * 20 / 3.6e6):
                ctx.fail("correspondence", "pilot-fuel", f"step {t}: model {float(dec(ans['pilot']))} impl {np.broadcast_to(fl[1][2], (n,))[t]}", where)
            for s, v in rp.emissions_g_per_s.items():
                if not close(dec(ans["species"][s.name]), float(np.broadcast_to(np.asarray(v, dtype=float), (n,))[t]), scale=eng.rated_power * 15 / 3600):
                    ctx.fail("correspondence", "species-rate", f"step {t} {s.name}: model {float(dec(ans['species'][s.name]))} impl {v}", where)
            # the same run point with NO oracle: every curve (consumption, pilot, generator / gearbox efficiency, species) computed by
            # the model from the case's own points (`engine.modelled`: Pchip.curve, and Comp.invTable behind the generator)
            if p >= 0 and "rectifier" not in case:
                def pts_of(c):
                    return [[enc(a), enc(b)] for a, b in (c if isinstance(c[0], list) else [[1.0, c[0]]])]
                given = {e["species"]: e["points"] for e in eng_spec.get("emissions", [])}
                sp_m = [s_ for s_ in sp_names if s_ in given and not (s_ == "NOX" and eng_spec.get("nox", "TIER_2") != "CURVE")]
                points = {"bsfc": pts_of(eng_spec["bsfc"])}
                if eng_spec.get("dual"):
                    points["bpsfc"] = pts_of(eng_spec["dual"]["bspfc"])
                if kind == "genset":
                    points["eta_gen"] = pts_of(case["generator"]["curve"])
                if kind == "geared":
                    points["eta_gb"] = pts_of(case["gearbox"]["curve"])
                for s_ in sp_m:
                    points[s_] = pts_of(given[s_])
                try:
                    am = ctx.model.call("engine.modelled", p=enc(p), rated=enc(eng_spec["rated"]), dual=bool(eng_spec.get("dual")), species=sp_m, points=points,
                                        generator_rated=enc(case["generator"]["rated"]) if kind == "genset" else None,
                                        gearbox_rated=enc(case["gearbox"]["rated"]) if kind == "geared" else None)
                except core.ModelReject as e:
                    ctx.fail("correspondence", "modelled-run-point-rejected", f"{e}", where)
                    am = None
                if am is not None:
                    ctx.count("run_point_without_oracle", kind)
                    if not close(dec(am["load"]), load):
                        ctx.fail("correspondence", "modelled-engine-load", f"step {t}: model {float(dec(am['load']))} impl {load}", where)
                    if not close(dec(am["fuel"]), float(np.broadcast_to(fl[0][2], (n,))[t]), scale=eng.rated_power * 250 / 3.6e6):
                        ctx.fail("correspondence", "modelled-engine-fuel", f"step {t}: model {float(dec(am['fuel']))} impl {np.broadcast_to(fl[0][2], (n,))[t]}", where)
                    if eng_spec.get("dual") and len(fl) == 2 and not close(dec(am["pilot"]), float(np.broadcast_to(fl[1][2], (n,))[t]), scale=eng.rated_power * 20 / 3.6e6):
                        ctx.fail("correspondence", "modelled-pilot-fuel", f"step {t}: model {float(dec(am['pilot']))} impl {np.broadcast_to(fl[1][2], (n,))[t]}", where)
                    for s, v in rp.emissions_g_per_s.items():
                        if s.name in sp_m and not close(dec(am["species"][s.name]), float(np.broadcast_to(np.asarray(v, dtype=float), (n,))[t]), scale=eng.rated_power * 15 / 3600):
                            ctx.fail("correspondence", "modelled-species-rate", f"step {t} {s.name}: model {float(dec(am['species'][s.name]))} impl {v}", where)
        elif kind == "fuel_cell_system":
            s = case["spec"]

            def oracle(name, key, obj=obj):
                if name == "eta_conv":
                    return raw_eta(obj, key)[0]           # the system carries the converter's curve
                if name == "inv_conv":
                    return inv_value(obj, float(key))[0]
                if name == "eta_cell":
                    return raw_eta(obj.fuel_cell, key)[0]
                return inv_value(obj.fuel_cell, float(key))[0]
            args = dict(p=enc(p), rated_conv=enc(s["converter"]["rated"]), rated_cell=enc(s["fuel_cell"]["rated"]),
                        lhv=enc(lhv_of(s["fuel_cell"]["fuel_type"], s["fuel_cell"]["fuel_origin"])), modules=s["modules"])
            ans, tables, rounds = call_with_oracle(ctx.model, "engine.fuel_cell_system", args, oracle)
            ctx.count("oracle_rounds", rounds)
            if not close(dec(ans["fuel"]), float(np.broadcast_to(fl[0][2], (n,))[t]), scale=1e-3):
                ctx.fail("correspondence", "fuel-cell-fuel", f"step {t}: model {float(dec(ans['fuel']))} impl {np.broadcast_to(fl[0][2], (n,))[t]}", where)
        else:
            cg = obj if kind == "cogas" else obj.cogas
            cs = case["spec"]["cogas"]

            def oracle(name, key, obj=obj, cg=cg):
                x = float(key)
                if name == "eta":
                    return raw_eta(cg, key)[0]
                if name == "ratio":
                    return float(cg.power_ratio_gas_turbine_interpolator(x))
                if name in ("gt", "st"):
                    # the GIVEN curve, interpolated here from the case's own points (PCHIP, as FEEMS interpolates every curve)
                    from scipy.interpolate import PchipInterpolator
                    pts = np.array(sorted(cs["gt_curve" if name == "gt" else "st_curve"]), dtype=float)
                    return float(PchipInterpolator(pts[:, 0], pts[:, 1])(x)) if len(pts) > 1 else float(pts[0, 1])
                if name == "eta_gen":
                    return raw_eta(obj.generator, key)[0]
                if name == "inv_gen":
                    return inv_value(obj.generator, x)[0]
                return float(cg.emissions_g_per_kwh(EmissionType[name], x))
            args = dict(p=enc(p), rated=enc(cs["rated"]), lhv=enc(lhv_of(cs["fuel_type"], cs["fuel_origin"])),
                        split=cs.get("gt_curve") is not None, species=[s_.name for s_ in rp.emissions_g_per_s],
                        generator_rated=enc(case["spec"]["generator"]["rated"]) if kind == "coges" else None)
            ans, tables, rounds = call_with_oracle(ctx.model, "engine.cogas", args, oracle)
            ctx.count("oracle_rounds", rounds)
            if not close(dec(ans["fuel"]), float(np.broadcast_to(fl[0][2], (n,))[t]), scale=1e-3):
                ctx.fail("correspondence", "turbine-fuel", f"step {t}: model {float(dec(ans['fuel']))} impl {np.broadcast_to(fl[0][2], (n,))[t]}", where)
            if ans["gas"] is not None and rp.gas_turbine_power_kw is not None:
                g = float(np.broadcast_to(np.asarray(rp.gas_turbine_power_kw, dtype=float), (n,))[t])
                if not close(dec(ans["gas"]), g, scale=cg.rated_power):
                    ctx.fail("correspondence", "gas-turbine-power", f"step {t}: model {float(dec(ans['gas']))} impl {g}", where)
    return True


CORPUS = core.VERIF / "corpus" / "C07"


def run(ctx):
    ctx.rule = ("consumer kinds {engine, genset(+rectifier), geared main engine, fuel-cell system (1-4 modules), COGAS, COGES}; engines single/dual "
                "fuel over 12 fuel x origin pairs, bsfc / pilot / species curves single-value or 2-6 points, tier or curve NOx; powers inside the "
                "load range all curves cover, some exactly at a given curve point, some zero; scalar call or series of 1-6; running hours for "
                "series; non-trivial = a non-zero power; distinct by (kind, curves, powers)")
    ctx.assumptions += ["all characteristic curves are oracles evaluated on the real objects at the model's own keys (pull protocol)"]
    cases = []
    if CORPUS.exists():
        cases += [json.loads(p.read_text()) for p in sorted(CORPUS.glob("*.json"))]
    ncorp = len(cases)
    cases += [gen_case(ctx.rng, i) for i in range(ctx.n(200, 5000))]
    for ci, case in enumerate(cases):
        ok = run_case(ctx, case)
        sig = (case["kind"], json.dumps(case.get("engine", case.get("spec")), sort_keys=True), tuple(case["powers"]))
        ctx.case_done(signature=sig if ok and any(p != 0 for p in case["powers"]) else None, sample=case if ci in (ncorp, ncorp + 1) else None)
    ctx.extra["corpus_cases"] = ncorp

    curve_common.run_curves(ctx, "bsfc", 60, 1500)

def search(ctx):
    for i in range(2000):
        run_case(ctx, gen_case(ctx.rng, 100_000 + i), model=False)
        if any(f["kind"] == "predicate" and not ctx.is_known(f) for f in ctx.failures):
            return


def replay(data):
    ctx = core.Ctx("C07", "quick", data.get("seed", 0))
    ctx.model_available = core.DRIVER.exists()
    if data["case"]["case"].get("kind") == "curve":
        curve_common.replay_curve(ctx, data["case"]["case"])
    else:
        run_case(ctx, data["case"]["case"])
    for f in ctx.failures:
        print(f"{f['kind']}: {f['tag']}: {f['what'][:300]}")
    if ctx._model:
        ctx._model.close()
    return 1 if ctx.failures else 0
