"""C20 — invalid configurations are rejected; supported ones are accepted.

Correspondence: valid base configurations from the C01 / C04 / C05 generators (electric, mechanical,
hybrid) and, for each, single invalidating changes from every listed family applied at a random
place; the real constructors + balance + result calculation either raise or yield a finite result;
`Feems.Validate.accepted` is evaluated on the abstract description of the same (changed)
configuration and must agree.  Predicates on the implementation alone: every changed configuration
is rejected and yields no result; every unchanged base is accepted with finite results (bases are
sized so that every group has balancing capacity).
"""
from __future__ import annotations

import copy
import json

import numpy as np

from .. import core, comps, plants, result_common as R, elec_common as E, mech_common as M
from ..core import enc, dec
from feems.components_model.component_electric import ElectricComponent, ElectricMachine, Genset
from feems.components_model.component_mechanical import MechanicalPropulsionComponent
from feems.components_model.utility import get_efficiency_curve_from_points, IntegrationMethod
from feems.fuel import Fuel, FuelSpecifiedBy, TypeFuel, FuelOrigin, GhgEmissionFactorTankToWake
from feems.system_model import ElectricPowerSystem, MechanicalPropulsionSystem, HybridPropulsionSystem
from feems.types_for_feems import TypeComponent, TypePower, Power_kW, Speed_rpm, SwbId

THEOREMS = ["rejects", "accepts_iff", "family_witnesses", "names_per_category", "monotone_examples", "denominators_nonzero",
            "lhv_positive", "fraction_defined"]
DEPENDS_ON_MODULES = ["FeemsProofs.C06", "FeemsProofs.C08"]

FAMILIES = ["no-supply", "bad-id", "no-breakers", "duplicate-name", "wrong-kind", "pti-mismatch", "bad-rating", "non-monotone",
            "fuel-spec", "lengths"]
CAT = {"generator": "source", "genset": "source", "fuel_cell_system": "source", "coges": "source", "other_load": "consumer", "drive": "consumer",
       "pti_pto": "pti_pto", "battery": "storage", "battery_system": "storage", "supercap": "storage", "supercap_system": "storage",
       "main_engine": "source", "mech_load": "consumer", "pti_pto_ref": "pti_pto"}


def abstract(case):
    """The facts the validation looks at, for the model."""
    spec, mut = case["spec"], case.get("mutation") or {}
    elec = [{"name": c["name"], "node": int(c["swb"]), "cat": CAT[c["kind"]], "kind_ok": c["name"] not in mut.get("wrong_kind", []),
             "rated": enc(c["rated"])} for c in spec.get("electric", [])]
    pti_line = {c["name"]: c.get("shaft_line", 1) for c in spec.get("electric", []) if c["kind"] == "pti_pto"}
    mech = []
    for c in spec.get("mechanical", []):
        if c["kind"] == "pti_pto_ref":
            ref = next(e for e in spec.get("electric", []) + spec.get("electric_objects", []) if e["name"] == c["name"])
            mech.append({"name": c["name"], "node": int(ref.get("shaft_line", 1)), "cat": "pti_pto", "kind_ok": True, "rated": enc(ref["rated"])})
        else:
            mech.append({"name": c["name"], "node": int(c["shaft_line"]), "cat": CAT[c["kind"]], "kind_ok": True, "rated": enc(c["rated"])})
    if mut.get("extra_mech"):
        x = mut["extra_mech"]
        mech.append({"name": x["name"], "node": int(x["shaft_line"]), "cat": "source", "kind_ok": False, "rated": enc(x["rated"])})
    e_pti = [i for i, c in enumerate(spec.get("electric", [])) if c["kind"] == "pti_pto"]
    m_pti = list(e_pti)
    if mut.get("family") == "pti-mismatch":
        m_pti = [100 + i for i in e_pti] if mut["how"] == "copy" else e_pti[:-1]
    n = case["inputs"]["n"]
    lengths = [n] * 4 if mut.get("family") != "lengths" else [n, n, mut["bad_length"], n]
    return dict(electric=elec, breakers=len(spec.get("bus_ties", [])), mechanical=mech, hybrid=spec.get("type") == "hybrid",
                elec_pti=e_pti, mech_pti=m_pti, monotone=[mut.get("family") != "non-monotone"],
                fuels=[mut["fuel"]] if mut.get("family") == "fuel-spec" else [[False, False, False, False]], lengths=lengths)


# ---------------------------------------------------------------- applying one invalidating change

def mutate(rng, base, family):
    """Returns a changed copy of the case (spec / inputs / mutation record) or None if not applicable."""
    case = copy.deepcopy(base)
    spec, inp = case["spec"], case["inputs"]
    el = spec.get("electric", [])
    mut = {"family": family}
    swbs = sorted({c["swb"] for c in el})
    if family == "no-supply":
        if not el:
            return None
        s = int(rng.choice(swbs))
        keep = [c for c in el if not (c["swb"] == s and CAT[c["kind"]] in ("source", "storage"))]
        if not any(c["swb"] == s for c in keep):
            keep.append({"kind": "other_load", "name": f"load{s}_only", "swb": s, "rated": 100.0, "curve": [0.95]})
            ein = R.elec_inputs(case)
            ein["comp"][f"load{s}_only"] = {"load": [10.0] * inp["n"]}
        spec["electric"] = keep
        spec.pop("order", None)
    elif family == "bad-id":
        if not el:
            return None
        s, bad = int(rng.choice(swbs)), int(rng.choice([0, -1, -7]))
        for c in el:
            if c["swb"] == s:
                c["swb"] = bad
        spec["bus_ties"] = [[bad if x == s else x for x in e] for e in spec.get("bus_ties", [])]
        mut["numpy_id"] = bool(rng.random() < 0.5)
    elif family == "no-breakers":
        if len(swbs) < 2:
            return None
        spec["bus_ties"] = []
        inp["breaker"] = []
    elif family == "duplicate-name":
        groups = {}
        pool = el if (el and (rng.random() < 0.6 or not spec.get("mechanical"))) else [c for c in spec.get("mechanical", []) if c["kind"] != "pti_pto_ref"]
        for c in pool:
            if c["kind"] == "pti_pto":
                continue
            groups.setdefault((c.get("swb", c.get("shaft_line")), CAT[c["kind"]]), []).append(c)
        cands = [g for g in groups.values() if len(g) >= 2]
        if not cands:
            return None
        g = cands[int(rng.integers(len(cands)))]
        store = R.elec_inputs(case)["comp"] if pool is el else R.mech_inputs(case)["comp"]
        old = g[1]["name"]
        g[1]["name"] = g[0]["name"]
        if "label" in g[0] or "label" in g[1]:          # relabelled plants: the label is the name FEEMS sees
            g[1]["label"] = g[0].get("label", g[0]["name"])
        store.pop(old, None)
        mut["renamed"] = [old, g[0]["name"]]
    elif family == "wrong-kind":
        if not el:
            return None
        # which component is of the wrong kind for its role, and how (the last four were accepted before D102 / D103 / D128 / D130)
        hows = []
        if any(c["kind"] == "generator" for c in el):
            hows += ["plain-component-as-source", "load-label-on-source"]
        if any(c["kind"] == "other_load" for c in el):
            hows += ["source-label-on-consumer"]
        if any(c["kind"] == "genset" for c in el):
            hows += ["genset-with-consumer-generator"]
        if any(c["kind"] == "main_engine" for c in spec.get("mechanical", [])):
            hows += ["main-engine-label-on-another-class"]
        if not hows:
            return None
        how = str(rng.choice(hows))
        mut["how"] = how
        core.axis("wrong_kind", how)
        if how in ("plain-component-as-source", "load-label-on-source"):
            mut["wrong_kind"] = [next(c["name"] for c in el if c["kind"] == "generator")]
        elif how == "source-label-on-consumer":
            mut["wrong_kind"] = [next(c["name"] for c in el if c["kind"] == "other_load")]
            mut["label"] = str(rng.choice(["GENERATOR", "SHORE_POWER"]))
        elif how == "genset-with-consumer-generator":
            mut["wrong_kind"] = [next(c["name"] for c in el if c["kind"] == "genset")]
            mut["generator_power_type"] = str(rng.choice(["POWER_CONSUMER", "PTI_PTO"]))
        else:
            me = next(c for c in spec["mechanical"] if c["kind"] == "main_engine")
            mut["extra_mech"] = {"name": "second main engine", "shaft_line": me["shaft_line"], "rated": me["rated"],
                                 "label": str(rng.choice(["MAIN_ENGINE", "MAIN_ENGINE_WITH_GEARBOX"])), "power_type": str(rng.choice(["ENERGY_STORAGE", "NONE"]))}
    elif family == "pti-mismatch":
        if spec.get("type") != "hybrid":
            return None
        mut["how"] = str(rng.choice(["copy", "deepcopy", "missing"]))        # deepcopy keeps the uid, a rebuilt copy only the name
    elif family == "bad-rating":
        pool = [c for c in el if c["kind"] in ("generator", "other_load")] + [c for c in spec.get("mechanical", []) if c["kind"] == "main_engine"]
        if not pool:
            return None
        c = pool[int(rng.integers(len(pool)))]
        c["rated"] = float(rng.choice([0.0, -100.0]))
        if c["kind"] == "main_engine":
            c["engine"]["rated"] = c["rated"]
        mut["component"] = c["name"]
    elif family == "non-monotone":
        pool = [c for c in el if c["kind"] in ("generator", "other_load")]
        if not pool:
            return None
        c = pool[int(rng.integers(len(pool)))]
        c["curve"] = [[0.1, 0.5], [0.45, 0.52], [0.5, 0.99], [1.0, 0.99]] if rng.random() < 0.5 else [[0.2, 0.3], [0.3, 0.95], [1.0, 0.96]]
        mut["component"] = c["name"]
    elif family == "fuel-spec":
        mut["fuel"] = [[True, True, False, True], [True, False, False, False], [False, True, False, False], [False, True, True, True],
                       [False, False, True, False], [False, False, False, True]][int(rng.integers(6))]
        mut["falsy"] = bool(rng.random() < 0.4)       # the given factor is 0.0 / an empty list: still "given"
    elif family == "lengths":
        n = inp["n"]
        if n < 2:
            return None
        if el and spec.get("bus_ties") and rng.random() < 0.3:
            # the breaker status table is a status series too
            bad = int(rng.choice([n - 1, n + 1])) if n > 2 else n + 1
            inp["breaker"] = [(row + [row[-1]])[:bad] for row in inp["breaker"]]
            mut.update(component="bus-tie breakers", field="breaker", bad_length=bad)
            if rng.random() < 0.5:
                # … next to consumers that are all constants held as one value: the sums are then stretched to the breaker length,
                # and the breaker series used to be compared with itself (D141)
                store = R.elec_inputs(case)["comp"]
                for v in store.values():
                    if "load" in v and isinstance(v["load"], list):
                        v["load"] = [v["load"][0]] * len(v["load"])
                (inp.get("flags") if "flags" in inp else inp)["constants_single"] = True
                mut["constant_consumers"] = True
            case["mutation"] = mut
            return case
        store = R.elec_inputs(case)["comp"] if el else R.mech_inputs(case)["comp"]
        names = [k for k, v in store.items() if any(isinstance(x, list) and len(x) == n for x in v.values())
                 and not k.startswith("pti")]          # the shared PTI/PTO's series are set from the mechanical side
        if not names:
            return None
        nm = names[int(rng.integers(len(names)))]
        field = [f for f, x in store[nm].items() if isinstance(x, list) and len(x) == n][0]
        bad = int(rng.choice([n - 1, n + 1])) if n > 2 else n + 1       # a single value standing for a constant is exempt
        store[nm][field] = (store[nm][field] + [store[nm][field][-1]])[:bad]
        mut.update(component=nm, field=field, bad_length=bad)
        for holder in (inp, inp.get("flags") or {}, inp.get("mech_flags") or {}):       # the series is handed over as written, not
            if "constants_single" in holder:                                             # collapsed to one value where it is constant
                holder["constants_single"] = False
    case["mutation"] = mut
    return case


def attempt(case):
    """Build + balance + result on the real code. Returns ('rejected', error class) or ('accepted', finite?)."""
    spec, mut = case["spec"], case.get("mutation") or {}
    fam = mut.get("family")
    try:
        if fam == "fuel-spec":
            by_user, lhv, wtt, ttw = mut["fuel"]
            falsy = mut.get("falsy", False)
            Fuel(TypeFuel.DIESEL, FuelOrigin.FOSSIL, FuelSpecifiedBy.USER if by_user else FuelSpecifiedBy.IMO,
                 lhv_mj_per_g=(0.0 if falsy else 0.0427) if lhv else None,
                 ghg_emission_factor_well_to_tank_gco2eq_per_mj=(0.0 if falsy else 14.4) if wtt else None,
                 ghg_emission_factor_tank_to_wake=([] if falsy else [GhgEmissionFactorTankToWake(3.2, 0.0, 0.0, 0.0, None)]) if ttw else None)
            return "accepted", True
        plant = plants.Plant.__new__(plants.Plant)
        plant.spec, plant.by_name = spec, {}
        ecomps = []
        for c in spec.get("electric", []):
            if c["name"] in mut.get("wrong_kind", []):
                how = mut.get("how", "plain-component-as-source")
                if how == "plain-component-as-source":
                    obj = ElectricComponent(type_=TypeComponent.GENERATOR, name=c["name"], rated_power=Power_kW(c["rated"]),
                                            eff_curve=comps.curve_array(c["curve"]), power_type=TypePower.POWER_SOURCE, switchboard_id=SwbId(c["swb"]))
                elif how == "load-label-on-source":
                    obj = ElectricMachine(type_=TypeComponent.OTHER_LOAD, name=c["name"], rated_power=Power_kW(c["rated"]), rated_speed=Speed_rpm(1000.0),
                                          eff_curve=comps.curve_array(c["curve"]), power_type=TypePower.POWER_SOURCE, switchboard_id=SwbId(c["swb"]))
                elif how == "source-label-on-consumer":
                    obj = ElectricComponent(type_=TypeComponent[mut["label"]], name=c["name"], rated_power=Power_kW(c["rated"]),
                                            eff_curve=comps.curve_array(c["curve"]), power_type=TypePower.POWER_CONSUMER, switchboard_id=SwbId(c["swb"]))
                else:       # a generating set whose generator is declared a consumer / PTI/PTO
                    gen = c["generator"]
                    machine = ElectricMachine(type_=TypeComponent.GENERATOR, name=c["name"] + " generator", rated_power=Power_kW(gen["rated"]),
                                              rated_speed=Speed_rpm(gen.get("speed", 1000.0)), eff_curve=comps.curve_array(gen["curve"]),
                                              power_type=TypePower[mut["generator_power_type"]], switchboard_id=SwbId(c["swb"]))
                    obj = Genset(c["name"], plants.build_engine(c["engine"]), machine)
            else:
                obj = plants.build_electric_component(c)
            if fam == "bad-id" and mut.get("numpy_id") and c["swb"] <= 0:
                obj.switchboard_id = np.int64(c["swb"])
            plant.by_name[c["name"]] = obj
            ecomps.append(obj)
        for c in spec.get("electric_objects", []):
            plant.by_name[c["name"]] = plants.build_electric_component(c)
        plant.electric = ElectricPowerSystem("p", ecomps, [(SwbId(a), SwbId(b)) for a, b in spec.get("bus_ties", [])]) if ecomps else None
        mcomps, copies = [], []
        for c in spec.get("mechanical", []):
            if c["kind"] == "pti_pto_ref":
                obj = plant.by_name[c["name"]]
                if fam == "pti-mismatch":
                    if mut["how"] == "missing" and c is [m for m in spec["mechanical"] if m["kind"] == "pti_pto_ref"][-1]:
                        continue
                    if mut["how"] == "copy":
                        ref = next(e for e in spec["electric"] if e["name"] == c["name"])
                        obj = plants.build_electric_component(ref)
                        copies.append((c["name"], obj))
                    elif mut["how"] == "deepcopy":
                        obj = copy.deepcopy(obj)
                        copies.append((c["name"], obj))
            else:
                obj = plants.build_mechanical_component(c)
            plant.by_name.setdefault(c["name"], obj)
            mcomps.append(obj)
        if mut.get("extra_mech") and mcomps:
            x = mut["extra_mech"]
            mcomps.append(MechanicalPropulsionComponent(TypeComponent[x["label"]], TypePower[x["power_type"]], x["name"], Power_kW(x["rated"]),
                                                        np.array([1.0]), Speed_rpm(150.0), shaft_line_id=x["shaft_line"]))
        plant.mechanical = MechanicalPropulsionSystem("m", mcomps) if mcomps else None
        t = spec.get("type", "electric")
        plant.system = {"electric": plant.electric, "mechanical": plant.mechanical}.get(t)
        if t == "hybrid":
            plant.system = HybridPropulsionSystem("h", plant.electric, plant.mechanical)
        def twin_inputs(pl):
            # a second instance of a PTI/PTO built from the same data gets the inputs a user would give it: the same ones
            for name, twin in copies:
                orig = pl.by_name[name]
                twin.status = np.array(orig.status, copy=True)
                twin.full_pti_mode = np.array(orig.full_pti_mode, copy=True)
                twin.load_sharing_mode = np.array(orig.load_sharing_mode, copy=True)
                twin.set_power_input_from_output(np.array(orig.power_output, dtype=float))
        R.run_plant(case, plant=plant, before_balance=twin_inputs)
        res = R.system_results(plant, case, FuelSpecifiedBy.IMO)
        finite = all(np.isfinite(R.observe_result(r)["ext"]).all() and all(np.isfinite(e[3]) for e in R.observe_result(r)["fuel"]) for r in res.values())
        return "accepted", bool(finite)
    except Exception as e:
        return "rejected", core.error_class(e)


def monotone_by_model(ctx, curve, rated):
    interp, _ = get_efficiency_curve_from_points(comps.curve_array(curve))
    table = [[enc(core.frac(j) / 100), enc(float(interp(j / 100.0)))] for j in range(0, 101)]
    a = ctx.model.call("validate.monotone", rated=enc(rated), eta=table)
    return a


def run_case(ctx, base, model=True):
    ok = False
    outcome, info = attempt(base)
    where = {"case": base}
    ctx.count("base", base["kind"])
    if outcome != "accepted":
        ctx.fail("predicate", "valid-configuration-rejected", f"{base['kind']} base: {info}", where)
    elif not info:
        ctx.count("base_nonfinite_capacity")          # a group without balancing capacity slipped through: not a valid base
        return False
    else:
        ok = True
    if model and ctx.model_available:
        a = ctx.model.call("validate.accepted", **abstract(base))
        if a["accepted"] != (outcome == "accepted"):
            ctx.fail("correspondence", "base-acceptance", f"model {a} impl {outcome} {info}", where)
    rng = np.random.default_rng(base["idx"] + 99)
    for fam in FAMILIES:
        case = mutate(rng, base, fam)
        if case is None:
            ctx.count("family_not_applicable", fam)
            continue
        w = {"case": case}
        outcome, info = attempt(case)
        ctx.count("family", fam)
        ctx.count("error_class", info if outcome == "rejected" else "accepted")
        if outcome == "accepted":
            sub = fam
            if fam == "bad-id" and case["mutation"].get("numpy_id"):
                sub = "bad-id-numpy-integer"
            if fam == "bad-rating" and case["mutation"]["component"].startswith("me"):
                sub = "bad-rating-engine"
            ctx.fail("predicate", "invalid-configuration-accepted-" + sub, f"{fam}: {case['mutation']} yields a result (finite={info})", w)
        if model and ctx.model_available:
            ab = abstract(case)
            if fam == "non-monotone":
                c = next(x for x in case["spec"]["electric"] if x["name"] == case["mutation"]["component"])
                ab["monotone"] = [bool(monotone_by_model(ctx, c["curve"], c["rated"]))]
            a = ctx.model.call("validate.accepted", **ab)
            if a["accepted"] != (outcome == "accepted"):
                ctx.fail("correspondence", "acceptance-" + fam, f"model accepted={a['accepted']} ({[k for k, v in a['checks'].items() if not v]}), impl {outcome} {info}", w)
        ctx.case_done(signature=(fam, json.dumps(case["mutation"], sort_keys=True, default=str), base["idx"]))
    return ok


def gen_base(rng, idx):
    kind = str(rng.choice(["electric", "electric", "mechanical", "hybrid"]))
    case = R.gen_plant_case(rng, idx, kind=kind, n=int(rng.choice([2, 3, 5])))
    # valid bases have balancing capacity everywhere: all sources on, equal sharing
    ein = R.elec_inputs(case) if kind != "mechanical" else None
    if ein is not None:
        for c in case["spec"]["electric"]:
            d = ein["comp"][c["name"]]
            if c["kind"] in E.SOURCE_KINDS:
                d["status"], d["share"] = [True] * ein["n"], [0.0] * ein["n"]
        ein["breaker"] = [[True] * ein["n"] for _ in ein["breaker"]]
    if kind != "electric":
        mi = R.mech_inputs(case)
        for c in case["spec"]["mechanical"]:
            if c["kind"] == "main_engine":
                mi["comp"][c["name"]]["status"] = [True] * mi["n"]
    return case


CORPUS = core.VERIF / "corpus" / "C20"


def run(ctx):
    ctx.rule = ("valid bases {electric x2, mechanical, hybrid} from the C10 generator with all sources / engines on (balancing capacity everywhere), 2-5 steps; "
                "for every base one invalidating change from each of the 10 families where applicable (random place / variant: id 0,-1,-7 as int or numpy "
                "integer; rating 0 or -100 on generator, load or main engine; two non-monotone curves; four wrong fuel specifications; series one shorter or "
                "longer; PTI/PTO copy or missing; ...); one evaluation = one changed configuration; distinct by (family, change, base)")
    bases = []
    if CORPUS.exists():
        bases += [json.loads(p.read_text()) for p in sorted(CORPUS.glob("*.json"))]
    ncorp = len(bases)
    bases += [gen_base(ctx.rng, i) for i in range(ctx.n(40, 800))]
    for ci, b in enumerate(bases):
        run_case(ctx, b)
        if ci == ncorp:
            ctx.samples.append({"kind": b["kind"], "components": [c["kind"] for c in b["spec"].get("electric", []) + b["spec"].get("mechanical", [])], "families": FAMILIES})
    ctx.extra["corpus_cases"] = ncorp


def search(ctx):
    for i in range(200):
        run_case(ctx, gen_base(ctx.rng, 100_000 + i), model=False)
        if any(f["kind"] == "predicate" and not ctx.is_known(f) for f in ctx.failures):
            return


def replay(data):
    ctx = core.Ctx("C20", "quick", data.get("seed", 0))
    ctx.model_available = core.DRIVER.exists()
    case = data["case"]["case"]
    print(attempt(case), case.get("mutation"))
    return 1
