"""C11 — results are additive over time, order-free and linear in interval length.

Theorems: `Feems.Props.C11` (interval-weighted sums of an arbitrary per-step rate: split, permute,
scale; duration; running hours; single point = series of one).
Correspondence (a) model vs code for `integrate_data(sum_with_time)`, `integrate_data_accumulative`
and `get_duration_s` incl. rejected shapes; (b) that the *whole pipeline* is such a sum: electric,
mechanical, hybrid and mechanical-with-electric plants with breaker and status changes inside the
series are run on the whole series, on consecutive parts (merged with `sum_and_extend_duration`), with
the steps permuted together with all their inputs, and with the intervals scaled; every extensive
figure must agree (1e-9 relative; 1e-4 for the split of hybrid plants, where a part without a
full-PTI step skips the second electric pass — bounded by C05's round-trip accuracy).
"""
from __future__ import annotations

import copy
import json

import numpy as np

from .. import core, plants, result_common as R
from ..core import enc, dec, close
from . import c19
from feems.components_model.utility import integrate_data, integrate_data_accumulative, IntegrationMethod
from feems.components_model.node import get_duration_s
from feems.fuel import FuelSpecifiedBy

THEOREMS = ["dot_replicate", "integrateC_eq", "integrateC_constant", "integrate_legacy_refuses_constant", "total_eq_sum", "append", "split", "perm", "scale", "duration_eq", "duration_append", "singleton", "integrate_is_total",
            "running_hours_append", "running_hours_scale", "dot_append", "component_figures_append", "component_fuel_append"]
EXTRA_PROOF_MODULES = ["FeemsProofs.C11Component"]
DEPENDS_ON_MODULES = ["FeemsProofs.C17"]


def slice_inputs(inp, idx):
    """inputs restricted to the steps idx (list of indices), for both electric and mechanical parts"""
    out = {"n": len(idx), "dt": [inp["dt"][i] for i in idx]}
    if "breaker" in inp:
        out["breaker"] = [[row[i] for i in idx] for row in inp["breaker"]]
    for key in ("comp", "mech"):
        if key in inp:
            out[key] = {name: {f: [v[i] for i in idx] for f, v in d.items()} for name, d in inp[key].items()}
    for key, v in inp.items():          # how the series are handed over (dtypes, shared objects …) stays the same
        if key not in out and key not in ("n", "dt", "breaker", "comp", "mech"):
            out[key] = v
    return out


def run_total(case, inp):
    c = dict(case, inputs=inp)
    plant = R.run_plant(c)
    res = R.system_results(plant, c, FuelSpecifiedBy.IMO)
    finite = all(np.all(np.isfinite(np.asarray(o.power_output, dtype=float))) for o in plant.by_name.values())
    return res, finite


def extend(a, b):
    return {side: a[side].sum_and_extend_duration(b[side]) for side in a}


def compare(ctx, ra, rb, what, where, tag, tol):
    ok = True
    for side in ra:
        oa, ob = R.observe_result(ra[side]), R.observe_result(rb[side])
        scale = max([1.0] + [abs(x) for x in oa["ext"]] + [abs(e[3]) for e in oa["fuel"]])
        bad = []
        if not c19.opt_close(oa["duration"], ob["duration"]):
            bad.append("duration")
        if not all(close(x, y, tol=tol, scale=scale) for x, y in zip(oa["ext"], ob["ext"])):
            bad.append("ext")
        ma, mb = c19.as_map(oa["fuel"]), c19.as_map(ob["fuel"])
        if not all(close(ma.get(k, 0.0), mb.get(k, 0.0), tol=tol, scale=scale) for k in set(ma) | set(mb)):
            bad.append("fuel")
        ea, eb = c19.as_map(oa["emis"] or []), c19.as_map(ob["emis"] or [])
        if not all(close(ea.get(k, 0.0), eb.get(k, 0.0), tol=tol, scale=scale) for k in set(ea) | set(eb)):
            bad.append("emis")
        if not all(close(x, y, tol=tol, scale=max(1.0, *map(abs, oa["co2"]))) for x, y in zip(oa["co2"], ob["co2"])):
            bad.append("co2")
        for f in bad:
            ok = False
            ctx.fail("predicate", tag + "-" + f, f"{side} {what}: {f}: {oa.get(f)} vs {ob.get(f)}", where)
    return ok


def scaled(res, c):
    """what the property predicts for intervals scaled by c: every extensive figure x c"""
    out = {}
    for side, r in res.items():
        o = R.observe_result(r)
        o["duration"] = None if o["duration"] is None else o["duration"] * c
        o["ext"] = [x * c for x in o["ext"]]
        o["fuel"] = [[t, g, s, m * c] for t, g, s, m in o["fuel"]]
        o["emis"] = None if o["emis"] is None else [[k, v * c] for k, v in o["emis"]]
        o["co2"] = [x * c for x in o["co2"]]
        out[side] = o
    return out


def run_plant_case(ctx, case):
    where = {"case": case}
    inp = case["inputs"]
    n = inp["n"]
    ctx.count("plant", case["kind"])
    ctx.count("n_steps", n)
    try:
        whole, finite = run_total(case, inp)
    except Exception as e:
        ctx.count("rejected", core.error_class(e))
        # generated plants and series are valid inputs (IMO factors): the calculation has no reason to refuse them
        ctx.fail("predicate", "calculation-raises-" + core.error_class(e), f"{type(e).__name__}: {e}", where)
        return False
    if not finite:
        ctx.count("skipped", "bus-without-capacity")
        return False
    tol_split = 1e-4 if case["kind"] == "hybrid" else 1e-9
    br = inp.get("breaker") or []
    if len(br) >= 2:
        d = np.diff(np.array(br, dtype=int), axis=1)
        ctx.count("ties_open_and_close_at_one_point", ("numeric-status" if inp.get("dtype", {}).get("breaker", "bool") != "bool" else "bool-status")
                  if np.any((d != 0).any(axis=0) & (d.sum(axis=0) == 0)) else "no")
    rng = np.random.default_rng(case["idx"] + 17)
    # (1) split into consecutive parts
    if n >= 2:
        cuts = sorted(set(int(x) for x in rng.choice(range(1, n), size=min(n - 1, int(rng.integers(1, 3))), replace=False)))
        bounds = [0] + cuts + [n]
        merged = None
        for a, b in zip(bounds, bounds[1:]):
            part, _ = run_total(case, slice_inputs(inp, list(range(a, b))))
            merged = part if merged is None else extend(merged, part)
        ctx.count("relation", "split")
        compare(ctx, whole, merged, f"whole vs parts at {cuts}", where, "not-additive-over-split", tol_split)
    # (1b) every step on its own, summed: no step may depend on what came before it
    if n >= 2:
        merged = None
        for t in range(n):
            part, _ = run_total(case, slice_inputs(inp, [t]))
            merged = part if merged is None else extend(merged, part)
        ctx.count("relation", "single-steps")
        compare(ctx, whole, merged, "whole vs sum of single steps", where, "not-additive-over-single-steps", tol_split)
    # (2) permute steps together with all inputs
    if n >= 2:
        perm = [int(i) for i in rng.permutation(n)]
        permuted, _ = run_total(case, slice_inputs(inp, perm))
        ctx.count("relation", "permute")
        compare(ctx, whole, permuted, f"whole vs permuted {perm}", where, "order-dependent", 1e-9)
    # (3) scale the intervals
    c = float(rng.choice([0.5, 2.0, 3.0, 10.0]))
    inp2 = copy.deepcopy(inp)
    inp2["dt"] = [d * c for d in inp["dt"]]
    sc, _ = run_total(case, inp2)
    want = scaled(whole, c)
    ctx.count("relation", "scale")
    for side in sc:
        o = R.observe_result(sc[side])
        bad = [f for f in c19.equiv(o, want[side]) if f not in ("load", "detail")]
        for f in bad:
            ctx.fail("predicate", "not-linear-in-interval-" + f, f"{side} intervals x {c}: {o[f]} vs {want[side][f]}", where)
    # (4) the reported duration is the sum of the intervals
    for side, r in whole.items():
        if not close(r.duration_s, sum(inp["dt"])):
            ctx.fail("predicate", "duration-not-sum-of-intervals", f"{side}: {r.duration_s} vs {sum(inp['dt'])}", where)
    return True


def run_integrate_case(ctx, rng, model=True):
    n = int(rng.choice([1, 1, 2, 5, 9]))
    rate = [float(np.round(rng.uniform(-50, 500), 3)) for _ in range(n)]
    mode = str(rng.choice(["series", "series", "scalar", "bad-length"]))
    if mode == "series":
        dt = np.array([float(rng.choice([1.0, 60.0, 0.5])) for _ in range(n)])
    elif mode == "scalar":
        dt = float(rng.choice([1.0, 60.0]))
    else:
        dt = np.array([1.0] * (n + 1))
    where = {"case": {"kind": "integrate", "rate": rate, "dt": dt.tolist() if isinstance(dt, np.ndarray) else dt}}
    ctx.count("integrate", mode if not (mode == "scalar" and n > 1) else "scalar-with-series")
    try:
        v = float(integrate_data(data_to_integrate=np.array(rate), time_interval_s=dt, integration_method=IntegrationMethod.sum_with_time))
    except Exception:
        v = None
    # defined when the lengths agree, or for a single value: it stands for a constant over all the intervals
    want = float(np.sum(np.asarray(rate) * dt)) if (isinstance(dt, np.ndarray) and (len(dt) == n or n == 1)) or (not isinstance(dt, np.ndarray) and n == 1) else None
    if (v is None) != (want is None) or (v is not None and not close(v, want, scale=abs(want))):
        ctx.fail("predicate", "integral-not-interval-weighted-sum", f"integrate_data({rate}, {dt}) = {v}, interval-weighted sum {want}", where)
    if model and ctx.model_available:
        a = ctx.model.call("integrate.sum", rate=[enc(x) for x in rate], dt=[enc(x) for x in dt] if isinstance(dt, np.ndarray) else enc(dt))
        mv = None if a["value"] is None else dec(a["value"])
        if (mv is None) != (v is None) or (v is not None and not close(mv, v, scale=abs(v))):
            ctx.fail("correspondence", "integrate", f"model {mv} impl {v}", where)
        if isinstance(dt, np.ndarray) and len(dt) == n:
            acc = integrate_data_accumulative(data_to_integrate=np.array(rate), time_interval_s=dt, integration_method=IntegrationMethod.sum_with_time)
            ma = [dec(x) for x in ctx.model.call("integrate.acc", rate=[enc(x) for x in rate], dt=[enc(x) for x in dt])]
            if len(ma) != len(acc) or not all(close(x, y, scale=max(1.0, abs(float(acc[-1])))) for x, y in zip(ma, acc)):
                ctx.fail("correspondence", "accumulate", f"model {[float(x) for x in ma]} impl {list(acc)}", where)
            d = get_duration_s(IntegrationMethod.sum_with_time, n, dt)
            if not close(dec(a["duration"]), d):
                ctx.fail("correspondence", "duration", f"model {float(dec(a['duration']))} impl {d}", where)
    ctx.case_done(signature=("integrate", tuple(rate), mode))


def mixed_sharing(ctx, case):
    """Hybrid plants with two or more PTI/PTOs: one of them shares the bus load (mode 0) at the step where another carries
    its shaft alone (full PTI) and is given its power (mode 1) at some other step of the same series - a step's figures
    may not depend on what the machine does at the other steps (seeded change C11-r6: the decision to balance the shaft
    lines again was taken on the whole mode series at once)."""
    if case["kind"] != "hybrid" or case["inputs"]["n"] < 2:
        return
    ptis = [c for c in case["spec"]["electric"] if c["kind"] == "pti_pto"]
    rng = np.random.default_rng(case["idx"] + 4711)
    if len(ptis) < 2 or rng.random() < 0.3 or case["inputs"].get("mech_flags", {}).get("pti_power_single"):
        return
    n, inp = case["inputs"]["n"], case["inputs"]
    k = int(rng.integers(len(ptis)))
    sharing, other = ptis[k], ptis[(k + 1) % len(ptis)]
    full = inp["mech"][other["name"]]["full"]
    if not any(full):
        full[int(rng.integers(n))] = True
    t = full.index(True)
    mode = [1.0] * n
    mode[t] = 0.0
    for u in range(n):
        if u != t and rng.random() < 0.3:
            mode[u] = 0.0
    if all(m == 0.0 for m in mode):
        mode[(t + 1) % n] = 1.0
    inp["comp"][sharing["name"]]["mode"] = mode
    inp["mech"][sharing["name"]]["full"] = [False] * n
    case["mixed_sharing"] = sharing["name"]
    ctx.count("hybrid_pti_mode_series", "mixed 0/1 with another machine in full PTI")


CORPUS = core.VERIF / "corpus" / "C11"


def run(ctx):
    ctx.rule = ("(a) integrate_data / accumulative / duration on random rate vectors of 1-9 samples with series, scalar and wrong-length time bases; "
                "(b) plants {electric, mechanical, hybrid, mechanical+electric} with 1-8 steps, breaker positions and statuses changing inside the "
                "series: whole vs 2-3 consecutive parts merged, vs a random permutation of the steps, vs intervals scaled by {0.5,2,3,10}; "
                "non-trivial = plant case with >= 2 steps; distinct by (plant layout, n, relation)")
    ctx.assumptions += ["hybrid split tolerance 1e-4 relative (second electric pass skipped in parts without a full-PTI step), everything else 1e-9"]
    for i in range(ctx.n(150, 3000)):
        run_integrate_case(ctx, ctx.rng)
    cases = []
    if CORPUS.exists():
        cases += [json.loads(p.read_text()) for p in sorted(CORPUS.glob("*.json"))]
    ncorp = len(cases)
    for i in range(ctx.n(80, 1200)):
        cases.append(R.gen_plant_case(ctx.rng, i, n=int(ctx.rng.choice([2, 3, 5, 8]))))
    for case in cases[ncorp:]:
        mixed_sharing(ctx, case)
    for ci, case in enumerate(cases):
        ok = run_plant_case(ctx, case)
        sig = (case["kind"], case["inputs"]["n"], json.dumps([(c["kind"]) for c in case["spec"].get("electric", []) + case["spec"].get("mechanical", [])]))
        ctx.case_done(signature=sig if ok else None, sample={"kind": case["kind"], "n": case["inputs"]["n"], "dt": case["inputs"]["dt"]} if ci in (ncorp, ncorp + 1) else None)
    ctx.extra["corpus_cases"] = ncorp


def search(ctx):
    for i in range(400):
        run_plant_case(ctx, R.gen_plant_case(ctx.rng, 100_000 + i, n=int(ctx.rng.choice([2, 3, 5]))))
        if any(f["kind"] == "predicate" and not ctx.is_known(f) for f in ctx.failures):
            return


def replay(data):
    ctx = core.Ctx("C11", "quick", data.get("seed", 0))
    ctx.model_available = core.DRIVER.exists()
    case = data["case"]["case"]
    if case.get("kind") == "integrate":
        print("integrate case:", case)
        return 1
    run_plant_case(ctx, case)
    for f in ctx.failures:
        print(f"{f['kind']}: {f['tag']}: {f['what'][:300]}")
    if ctx._model:
        ctx._model.close()
    return 1 if ctx.failures else 0
