"""C19 — combining results adds every quantity present in either operand.

Correspondence: pairs and triples of `FEEMSResult` objects (unset fields on either side, differing
species sets and fuel kinds, equal / different durations) are merged with
`sum_with_freeze_duration` / `sum_and_extend_duration`; the result is compared field by field with
`Feems.Result.merge`.  Predicates on the implementation alone: every extensive field / kind /
species added, detail concatenated, duration and generator-load rules, associativity on triples,
`FEEMSResult()` neutral, operands unchanged.
"""
from __future__ import annotations

import copy
import dataclasses
import json
from collections import defaultdict

import numpy as np
import pandas as pd

from .. import core
from ..core import enc, dec, close
from .. import fuels as F
from feems.fuel import FuelConsumption, GHGEmissions, TypeFuel, FuelOrigin, FuelSpecifiedBy
from feems.types_for_feems import FEEMSResult, EmissionType

THEOREMS = ["merge_ok", "adds_ext", "adds_fuel", "adds_co2", "adds_species", "species_one_sided",
            "detail_concat", "freeze_duration", "freeze_load", "extend_duration", "extend_load",
            "extend_defined", "extend_assoc", "freeze_assoc", "neutral_left", "neutral_right",
            "extend_not_assoc_incoherent", "legacy_species_merge_drops"]

SPECIAL = {"duration_s", "load_ratio_genset", "total_emission_kg", "detail_result",
           "multi_fuel_consumption_total_kg", "co2_emission_total_kg"}


def ext_fields():
    """The float fields that are simply added, in dataclass order (read from the code)."""
    return [f.name for f in dataclasses.fields(FEEMSResult) if f.name not in SPECIAL]


# ---------------------------------------------------------------- generation (JSON-able specs)

def gen_result(rng, kinds_pool, n_ext):
    spec = {}
    r = rng.random()
    # (0 s is what the per-component results carry as their duration)
    spec["duration"] = None if r < 0.15 else float(rng.choice([10.0, 60.0, 3600.0, float(np.round(rng.uniform(1, 5000), 2)), 0.0], p=[0.24, 0.24, 0.24, 0.24, 0.04]))
    spec["ext"] = [float(np.round(rng.uniform(0, 1000), int(rng.integers(0, 4)))) if rng.random() < 0.8 else 0.0 for _ in range(n_ext)]
    r = rng.random()       # a generating set at zero power reports a load of exactly 0.0
    spec["load"] = None if r < 0.25 else (0.0 if r < 0.4 else float(np.round(rng.uniform(0, 1), 3)))
    spec["load_repr"] = str(rng.choice(["float", "array1"], p=[0.6, 0.4]))      # a single-point calculation reports the load as a one-element array
    if rng.random() < 0.25:
        spec["emis"] = None
    else:
        ks = [int(k) for k in rng.choice(range(1, 8), size=int(rng.integers(0, 5)), replace=False)]
        spec["emis"] = [[k, float(np.round(rng.uniform(0, 50), 3))] for k in ks]
    spec["emis_defaultdict"] = bool(rng.random() < 0.5)
    spec["detail"] = None if rng.random() < 0.3 else [int(x) for x in rng.integers(0, 1000, size=int(rng.integers(1, 4)))]
    # hand-made tables come in several shapes: the usual columns, other columns, or row labels only
    spec["detail_shape"] = str(rng.choice(["full", "other-columns", "no-columns"], p=[0.6, 0.2, 0.2]))
    nk = int(rng.choice([0, 1, 2, 3]))
    ks = [kinds_pool[i] for i in rng.choice(len(kinds_pool), size=nk, replace=False)]
    spec["fuel"] = [[k[0], k[1], k[2], float(np.round(rng.uniform(0, 3000), 2))] for k in ks]
    spec["co2"] = [float(np.round(rng.uniform(0, 9000), 2)) for _ in range(3)]
    return spec


def build_result(spec, names):
    kw = dict(zip(names, spec["ext"]))
    fuels = [F.make_fuel((TypeFuel(t), FuelOrigin(o), FuelSpecifiedBy(s)), m) for t, o, s, m in spec["fuel"]]
    emis = None
    if spec["emis"] is not None:
        emis = defaultdict(float) if spec["emis_defaultdict"] else {}
        for k, v in spec["emis"]:
            emis[EmissionType(k)] = v
    detail = None
    if spec["detail"] is not None:
        idx = [f"c{i}" for i in spec["detail"]]
        shape = spec.get("detail_shape", "full")
        if shape == "no-columns":
            detail = pd.DataFrame(index=idx)
        elif shape == "other-columns":
            detail = pd.DataFrame({"y": [float(i) / 2 for i in spec["detail"]]}, index=idx)
        else:
            detail = pd.DataFrame({"row_id": spec["detail"], "x": [float(i) for i in spec["detail"]]}, index=idx)
    load = spec["load"]
    if load is not None and spec.get("load_repr") == "array1":
        load = np.array([load], dtype=float)
    return FEEMSResult(duration_s=spec["duration"], load_ratio_genset=load, total_emission_kg=emis,
                       detail_result=detail, multi_fuel_consumption_total_kg=FuelConsumption(fuels=fuels),
                       co2_emission_total_kg=GHGEmissions(*spec["co2"]), **kw)


def f1(x):
    """float of a Python / numpy scalar or a one-element array"""
    a = np.asarray(x, dtype=float).reshape(-1)
    if a.size != 1:
        raise ValueError(f"expected one number, got {a.size}")
    return float(a[0])


def observe(r: FEEMSResult, names):
    """JSON-able snapshot of a result (the observables C19 speaks about)."""
    emis = None
    if r.total_emission_kg is not None:
        emis = [[k.value, f1(v)] for k, v in r.total_emission_kg.items()]
    detail = None if r.detail_result is None else [int(str(x)[1:]) for x in r.detail_result.index]        # rows by their labels
    g = r.co2_emission_total_kg
    return {"duration": None if r.duration_s is None else f1(r.duration_s),
            "ext": [f1(getattr(r, n)) for n in names],
            "load": None if r.load_ratio_genset is None else f1(r.load_ratio_genset),
            "emis": emis, "detail": detail,
            "fuel": [[k[0], k[1], k[2], f1(m)] for k, m in F.rec_snapshot(r.multi_fuel_consumption_total_kg)],
            "co2": [f1(g.tank_to_wake_kg_or_gco2eq_per_gfuel), f1(g.well_to_tank_kg_or_gco2eq_per_gfuel),
                    f1(g.tank_to_wake_kg_or_gco2eq_per_gfuel_without_slip)]}


def to_model(obs):
    return {"duration": None if obs["duration"] is None else enc(obs["duration"]),
            "ext": [enc(x) for x in obs["ext"]],
            "load": None if obs["load"] is None else enc(obs["load"]),
            "emis": None if obs["emis"] is None else [[k, enc(v)] for k, v in obs["emis"]],
            "detail": obs["detail"],
            "fuel": [[t, o, s, enc(m)] for t, o, s, m in obs["fuel"]],
            "co2": [enc(x) for x in obs["co2"]]}


def merge_impl(a, b, freeze):
    return a.sum_with_freeze_duration(b) if freeze else a.sum_and_extend_duration(b)


# ---------------------------------------------------------------- comparison

def opt_close(x, y):
    if x is None or y is None:
        return x is None and y is None
    return close(x, y)


def as_map(pairs):
    out = {}
    for *k, v in pairs:
        out[tuple(k)] = out.get(tuple(k), 0.0) + float(v)
    return out


def equiv(x, y):
    """Field-wise comparison of two observations, dictionaries as maps. Returns list of field names that differ."""
    bad = []
    if not opt_close(x["duration"], y["duration"]):
        bad.append("duration")
    if len(x["ext"]) != len(y["ext"]) or not all(close(p, q) for p, q in zip(x["ext"], y["ext"])):
        bad.append("ext")
    if not opt_close(x["load"], y["load"]):
        bad.append("load")
    if (x["emis"] is None) != (y["emis"] is None):
        bad.append("emis")
    elif x["emis"] is not None:
        mx, my = as_map(x["emis"]), as_map(y["emis"])
        if set(mx) != set(my) or not all(close(mx[k], my[k]) for k in mx):
            bad.append("emis")
    if x["detail"] != y["detail"]:
        bad.append("detail")
    mx, my = as_map(x["fuel"]), as_map(y["fuel"])
    if not all(close(mx.get(k, 0.0), my.get(k, 0.0)) for k in set(mx) | set(my)):
        bad.append("fuel")
    if not all(close(p, q) for p, q in zip(x["co2"], y["co2"])):
        bad.append("co2")
    return bad


def model_obs(out):
    return {"duration": None if out["duration"] is None else dec(out["duration"]),
            "ext": [dec(x) for x in out["ext"]],
            "load": None if out["load"] is None else dec(out["load"]),
            "emis": None if out["emis"] is None else [[k, dec(v)] for k, v in out["emis"]],
            "detail": out["detail"], "fuel": [[t, o, s, dec(m)] for t, o, s, m in out["fuel"]],
            "co2": [dec(x) for x in out["co2"]]}


# ---------------------------------------------------------------- one case

def expected_pair(oa, ob, freeze):
    """The property statement as arithmetic on the operands' observations (no model involved).
    Returns the expected observation or the string 'reject'."""
    def om(f, x, y):
        if x is None:
            return y
        if y is None:
            return x
        return f(x, y)
    if freeze and oa["duration"] is not None and ob["duration"] is not None and oa["duration"] != ob["duration"]:
        return "reject"
    dur = om((lambda x, y: x) if freeze else (lambda x, y: x + y), oa["duration"], ob["duration"])

    def load(x, y):
        if freeze:
            return max(x, y)
        if oa["duration"] is None:
            return y
        if ob["duration"] is None:
            return x
        return (x * oa["duration"] + y * ob["duration"]) / (oa["duration"] + ob["duration"])

    def emis(x, y):
        mx, my = as_map(x), as_map(y)
        keys = [k for k in mx] + [k for k in my if k not in mx]
        return [[k[0], mx.get(k, 0.0) + my.get(k, 0.0)] for k in keys]

    mf = as_map(oa["fuel"])
    for k, v in as_map(ob["fuel"]).items():
        mf[k] = mf.get(k, 0.0) + v
    return {"duration": dur, "ext": [p + q for p, q in zip(oa["ext"], ob["ext"])],
            "load": om(load, oa["load"], ob["load"]), "emis": om(emis, oa["emis"], ob["emis"]),
            "detail": om(lambda x, y: x + y, oa["detail"], ob["detail"]),
            "fuel": [[*k, v] for k, v in mf.items()], "co2": [p + q for p, q in zip(oa["co2"], ob["co2"])]}


def run_case(ctx, case, model=True):
    names = ext_fields()
    if len(names) != case["n_ext"]:
        # the dataclass gained / lost a float field since the case was stored: regenerate values
        for s in case["specs"]:
            s["ext"] = (s["ext"] + [0.0] * len(names))[:len(names)]
    specs = case["specs"]
    freeze = case["freeze"]
    objs = [build_result(s, names) for s in specs]
    obs0 = [observe(o, names) for o in objs]
    where = {"case": case}
    ctx.count("mode", "freeze" if freeze else "extend")
    ctx.count("operands", len(specs))

    def merged(x, y, ox, oy, label):
        """merge on the implementation + predicate + correspondence; returns (obj, obs) or None"""
        zero_total = (not freeze and ox["duration"] is not None and oy["duration"] is not None and ox["duration"] + oy["duration"] == 0
                      and ox["load"] is not None and oy["load"] is not None)
        if zero_total:
            # both periods have no length but a generator load: the time-weighted load divides by zero (known finding D60)
            try:
                r = merge_impl(x, y, freeze)
                lr = observe(r, names)["load"]
                ok0 = lr is not None and np.isfinite(lr)
            except Exception:
                ok0 = False
            if not ok0:
                ctx.fail("predicate", "extend-zero-duration-load-ratio", f"{label}: loads {ox['load']} and {oy['load']} over 0 s + 0 s", where)
            return None
        exp = expected_pair(ox, oy, freeze)
        try:
            r = merge_impl(x, y, freeze)
        except Exception as e:
            ctx.count("merge_rejected", core.error_class(e))
            if exp != "reject" and not (not freeze and ox["duration"] is not None and oy["duration"] is not None
                                        and ox["duration"] + oy["duration"] == 0):
                tag = "species-merge-keyerror" if isinstance(e, KeyError) else "merge-raises-" + core.error_class(e)
                ctx.fail("predicate", tag, f"{label}: merge raised {type(e).__name__}: {e}", where)
            return None
        o = observe(r, names)
        if exp == "reject":
            ctx.fail("predicate", "freeze-different-durations-accepted", f"{label}: merged results of different durations", where)
            return None
        bad = equiv(o, exp)
        for fld in bad:
            ctx.fail("predicate", "merge-" + fld, f"{label}: field {fld}: got {o[fld]} expected {exp[fld]}", where)
        if model and ctx.model_available:
            try:
                mo = model_obs(ctx.model.call("result.merge", a=to_model(ox), b=to_model(oy), freeze=freeze))
                badm = equiv(o, mo)
                # list structure too (order of fuel entries / species keys as the code produces them)
                if not badm:
                    if [e[:3] for e in o["fuel"]] != [e[:3] for e in mo["fuel"]]:
                        badm.append("fuel-order")
                    if o["emis"] is not None and [e[0] for e in o["emis"]] != [e[0] for e in mo["emis"]]:
                        badm.append("emis-order")
                for fld in badm:
                    ctx.fail("correspondence", "merge-" + fld, f"{label}: model {mo.get(fld.split('-')[0])} impl {o.get(fld.split('-')[0])}", where)
            except core.ModelReject as e:
                ctx.fail("correspondence", "model-rejects", f"{label}: model rejects ({e}) what the code accepts", where)
        return r, o

    results = {}
    ab = merged(objs[0], objs[1], obs0[0], obs0[1], "a+b")
    # operands unchanged
    for i, o in enumerate(objs):
        if observe(o, names) != obs0[i]:
            ctx.fail("predicate", "merge-operand-mutated", f"operand {i} changed: {obs0[i]} -> {observe(o, names)}", where)
            obs0[i] = observe(o, names)
    # … and stay unchanged when the RESULT is used afterwards: it is a record of its own (D99: with a field unset on one side the
    # result used to be handed the other operand's own table)
    if ab is not None:
        import copy as _copy
        used = _copy.copy(ab[0])          # (the fields are the result's own objects; `ab` itself is combined further below)
        kept = None
        try:
            if used.total_emission_kg is not None:
                _ = used.total_emission_kg.get("no such species"), [used.total_emission_kg[k] for k in list(used.total_emission_kg)]
                first = next(iter(used.total_emission_kg), None)
                if first is not None:
                    kept = used.total_emission_kg[first]
                    used.total_emission_kg[first] = kept * 2.0 + 1.0
            if used.detail_result is not None and len(used.detail_result.columns) > 0:
                used.detail_result["operation mode"] = "transit"
            ctx.count("result_used_after_merge", True)
        except Exception as e:
            ctx.count("result_use_rejected", core.error_class(e))
        for i, o in enumerate(objs[:2]):
            now = observe(o, names)
            cols = list(o.detail_result.columns) if o.detail_result is not None else []
            if now != obs0[i] or "operation mode" in cols:
                ctx.fail("predicate", "merge-result-shares-operand", f"operand {i} changed when the combined result was used: {obs0[i]} -> {now}, columns {cols}", where)
                obs0[i] = now
        # (undo on the result, whose tables are its own)
        if kept is not None:
            used.total_emission_kg[next(iter(used.total_emission_kg))] = kept
        if used.detail_result is not None and "operation mode" in used.detail_result.columns:
            del used.detail_result["operation mode"]
    if len(specs) == 3 and ab is not None:
        l = merged(ab[0], objs[2], ab[1], obs0[2], "(a+b)+c")
        bc = merged(objs[1], objs[2], obs0[1], obs0[2], "b+c")
        if bc is not None and l is not None:
            r = merged(objs[0], bc[0], obs0[0], bc[1], "a+(b+c)")
            if r is not None:
                bad = equiv(l[1], r[1])
                for fld in bad:
                    incoherent = (not freeze) and any(o["duration"] is not None and o["load"] is None for o in obs0)
                    tag = "extend-assoc-load-ratio-unset" if (fld == "load" and incoherent) else "assoc-" + fld
                    ctx.fail("predicate", tag, f"(a+b)+c vs a+(b+c): {fld}: {l[1][fld]} vs {r[1][fld]}", where)
        for i, o in enumerate(objs):
            if observe(o, names) != obs0[i]:
                ctx.fail("predicate", "merge-operand-mutated", f"operand {i} changed", where)
    # neutral element
    if case.get("neutral"):
        for label, x, y in (("empty+a", FEEMSResult(), objs[0]), ("a+empty", objs[0], FEEMSResult())):
            try:
                o = observe(merge_impl(x, y, freeze), names)
                bad = equiv(o, obs0[0])
                for fld in bad:
                    ctx.fail("predicate", "neutral-" + fld, f"{label}: {fld}: {o[fld]} vs {obs0[0][fld]}", where)
            except Exception as e:
                ctx.fail("predicate", "neutral-raises", f"{label}: {type(e).__name__}: {e}", where)
    return ab is not None


def gen_case(rng, idx):
    kinds = [(k[0].value, k[1].value, k[2].value) for k in F.valid_kinds()]
    pool = [kinds[i] for i in rng.choice(len(kinds), size=4, replace=False)]
    n_ext = len(ext_fields())
    n = int(rng.choice([2, 3, 3]))
    freeze = bool(rng.random() < 0.5)
    specs = [gen_result(rng, pool, n_ext) for _ in range(n)]
    if freeze and rng.random() < 0.85:   # same period: mostly equal durations
        d = specs[0]["duration"] or 60.0
        for s in specs:
            if s["duration"] is not None:
                s["duration"] = d
    return {"idx": idx, "freeze": freeze, "specs": specs, "n_ext": n_ext, "neutral": bool(rng.random() < 0.3)}


CORPUS = core.VERIF / "corpus" / "C19"


def run(ctx):
    ctx.rule = ("pairs and triples of FEEMSResult (duration/load/species/detail unset with prob 0.15-0.3, 0-4 species "
                "from all 7 EmissionType members in plain dict or defaultdict, 0-3 fuel kinds, random float fields), "
                "both merge modes, 30% with the neutral-element probe; non-trivial = the first merge was accepted; "
                "distinct by (mode, per-operand pattern of unset fields, species sets, fuel kinds)")
    ctx.assumptions += ["detail tables are compared through a row-id column (pd.concat semantics assumed)",
                        "float fields are taken from dataclasses.fields(FEEMSResult) at run time"]
    cases = []
    if CORPUS.exists():
        cases += [json.loads(p.read_text()) for p in sorted(CORPUS.glob("*.json"))]
    ncorp = len(cases)
    cases += [gen_case(ctx.rng, i) for i in range(ctx.n(300, 8000))]
    for ci, case in enumerate(cases):
        ok = run_case(ctx, case)
        sig = (case["freeze"], tuple((s["duration"] is None, s["load"] is None,
                                      None if s["emis"] is None else tuple(sorted(k for k, _ in s["emis"])),
                                      s["detail"] is None, tuple(tuple(e[:3]) for e in s["fuel"])) for s in case["specs"]))
        ctx.case_done(signature=sig if ok else None, sample=case if ci in (ncorp, ncorp + 1) else None)
    ctx.extra["corpus_cases"] = ncorp
    ctx.extra["ext_fields"] = ext_fields()


def search(ctx):
    for i in range(5000):
        run_case(ctx, gen_case(ctx.rng, 100_000 + i), model=False)
        if any(f["kind"] == "predicate" and not ctx.is_known(f) for f in ctx.failures):
            return


def replay(data):
    ctx = core.Ctx("C19", "quick", data.get("seed", 0))
    ctx.model_available = core.DRIVER.exists()
    run_case(ctx, data["case"]["case"])
    for f in ctx.failures:
        print(f"{f['kind']}: {f['tag']}: {f['what'][:300]}")
    if ctx._model:
        ctx._model.close()
    return 1 if ctx.failures else 0
