"""C08 — greenhouse-gas emissions = sum over fuels of mass x pathway factor.

The factor tables are *data*: `Generated/FuelTables.lean` is rewritten from the two CSVs (as
`feems.fuel` parsed them) and the three mapping dicts on every run, and the table theorems
(IMO carries CO2 only, slip by class and independent of origin, one row per gas class, key
uniqueness, the list of incomplete rows) are re-checked by the kernel against it.
Correspondence: every (type x origin x specification) `Fuel(...)` accepts, every consumer class,
mixes of 1-4 kinds of one specification (IMO / FuelEU / user), scalar and series masses incl. zeros:
`get_total_co2_emissions` against `Feems.Ghg.recordEmissions`; the exhaustive single-fuel sweep
compares acceptance too.  Predicates on the implementation alone: total = sum of mass x factor with the
factor recomputed from the fuel's own table rows by the formula of the property; slip of the engine
class on the natural-gas share only; scalar = series.
"""
from __future__ import annotations

import itertools
import json

import numpy as np

from .. import core
from ..core import enc, dec, close
from .. import fuels as F
from feems.fuel import (Fuel, FuelConsumption, FuelSpecifiedBy, FuelConsumerClassFuelEUMaritime as Cls, TypeFuel, FuelOrigin,
                        GhgEmissionFactorTankToWake, GHGEmissions)

THEOREMS = ["ttw_formula", "gwp_match", "factors_formula", "mixFactor_eq", "total", "total_zero", "series_eq_scalar", "gas_only",
            "gas_keeps_class", "imo_ignores_class", "imo_co2_only", "slip_by_class", "gas_classes_complete", "rows_unique",
            "incomplete_rows", "prescribed_complete", "user_classless_serves_every_class", "user_class_row_first",
            "user_classless_legacy_refused"]


def ttw_of(row, no_slip=False):
    if no_slip:
        return row.co2_factor_gco2_per_gfuel
    s = row.c_slip_percent / 100
    return (1 - s) * (row.co2_factor_gco2_per_gfuel + 25 * row.ch4_factor_gch4_per_gfuel + 298 * row.n2o_factor_gn2o_per_gfuel) + 25 * s


def expected_total(fuels, cls):
    """The property statement evaluated on the fuels' own rows (implementation objects only)."""
    ttw = wtt = nos = 0.0
    for f in fuels:
        m = np.asarray(f.mass_or_mass_fraction, dtype=float)
        if f.fuel_specified_by == FuelSpecifiedBy.IMO:
            row = f.ghg_emission_factor_tank_to_wake[0]
        else:
            c = cls
            if cls is not None and "LNG" in cls.name and f.fuel_type != TypeFuel.NATURAL_GAS:
                c = Cls.ICE
            rows = f.ghg_emission_factor_tank_to_wake
            # a user's record that names no class holds for every consumer
            row = next(iter([r for r in rows if r.fuel_consumer_class == c] + [r for r in rows if r.fuel_consumer_class is None]))
        ttw = ttw + m * ttw_of(row)
        nos = nos + m * ttw_of(row, True)
        wtt = wtt + m * f.ghg_emission_factor_well_to_tank_gco2eq_per_mj * f.lhv_mj_per_g
    return ttw, wtt, nos


def gen_case(rng, idx):
    spec = str(rng.choice(["IMO", "FUEL_EU_MARITIME", "FUEL_EU_MARITIME", "USER"]))
    n_steps = int(rng.choice([0, 0, 1, 3, 5]))
    kinds = [(t, o) for (t, o, s) in F.valid_kinds() if s.name == ("IMO" if spec == "USER" else spec)]
    nk = int(rng.choice([1, 2, 3, 4], p=[0.35, 0.35, 0.2, 0.1]))
    idxs = rng.choice(len(kinds), size=nk, replace=False)
    chosen = [kinds[i] for i in idxs]
    if spec == "FUEL_EU_MARITIME" and rng.random() < 0.6 and not any(t == TypeFuel.NATURAL_GAS for t, _ in chosen):
        chosen[0] = (TypeFuel.NATURAL_GAS, FuelOrigin(int(rng.integers(1, 4))))     # gas share in a gas engine
    fuels = []
    for t, o in chosen:
        if n_steps == 0:
            m = float(np.round(rng.uniform(0, 2000), 2)) if rng.random() < 0.85 else 0.0
        else:
            m = [float(np.round(rng.uniform(0, 2000), 2)) if rng.random() < 0.8 else 0.0 for _ in range(n_steps)]
        fuels.append({"type": t.value, "origin": o.value, "mass": m})
    cls = int(rng.integers(1, 7))
    user = None
    if spec == "USER":
        u = F.user_factors(rng)
        user = {"lhv": u["lhv_mj_per_g"], "wtt": u["ghg_emission_factor_well_to_tank_gco2eq_per_mj"],
                "rows": [[r.co2_factor_gco2_per_gfuel, r.ch4_factor_gch4_per_gfuel, r.n2o_factor_gn2o_per_gfuel, r.c_slip_percent,
                          None if r.fuel_consumer_class is None else r.fuel_consumer_class.value] for r in u["ghg_emission_factor_tank_to_wake"]]}
        # which consumer classes the user's records name: all of them (+ a class-less one), only the class-less one ("the factors do not
        # depend on the consumer", the default of the record type), or a few classes next to it
        cover = str(rng.choice(["all", "classless-only", "some"], p=[0.5, 0.35, 0.15]))
        if cover == "classless-only":
            user["rows"] = [r for r in user["rows"] if r[4] is None]
        elif cover == "some":
            user["rows"] = [r for r in user["rows"] if r[4] is None or rng.random() < 0.4]
            if rng.random() < 0.5:
                user["rows"] = user["rows"][::-1]
        core.axis("user_rows", cover)
    int_series = bool(n_steps > 0 and rng.random() < 0.15)       # a hand-written whole-number series in an integer array
    if int_series:
        for f in fuels:
            f["mass"] = [float(round(x)) for x in f["mass"]]
    if spec == "USER" and len(fuels) >= 2 and rng.random() < 0.5:
        # two products of one type and origin in one mix (two bunkers, main and pilot fuel from different suppliers), each with the
        # factors its supplier gave: every entry is counted with its OWN records (seeded change C08-r6: one lookup per kind)
        import copy
        fuels[1]["type"], fuels[1]["origin"] = fuels[0]["type"], fuels[0]["origin"]
        u2 = copy.deepcopy(user)
        k = float(rng.choice([0.8, 0.9, 1.15]))
        u2["rows"] = [[r[0] * k, r[1] * 2.0 + 1e-5, r[2], r[3] + 0.5, r[4]] for r in u2["rows"]]
        fuels[1]["user"] = u2
        core.axis("user_mix", "two products of one kind with their own factors")
    return {"idx": idx, "spec": spec, "fuels": fuels, "cls": cls, "n_steps": n_steps, "user": user, "int_series": int_series}


def build(case):
    spec = FuelSpecifiedBy[case["spec"]]
    out = []
    for f in case["fuels"]:
        m = f["mass"]
        as_int = isinstance(m, list) and case.get("int_series") and all(float(x).is_integer() for x in m)
        mass = np.array(m, dtype=int if as_int else float) if isinstance(m, list) else float(m)
        if spec == FuelSpecifiedBy.USER:
            u = f.get("user") or case["user"]
            rows = [GhgEmissionFactorTankToWake(r[0], r[1], r[2], r[3], None if r[4] is None else Cls(r[4])) for r in u["rows"]]
            out.append(Fuel(TypeFuel(f["type"]), FuelOrigin(f["origin"]), spec, lhv_mj_per_g=u["lhv"],
                            ghg_emission_factor_well_to_tank_gco2eq_per_mj=u["wtt"], ghg_emission_factor_tank_to_wake=rows,
                            mass_or_mass_fraction=mass))
        else:
            out.append(Fuel(TypeFuel(f["type"]), FuelOrigin(f["origin"]), spec, mass_or_mass_fraction=mass))
    return out


def field(g, name, n):
    v = getattr(g, name)
    return np.broadcast_to(np.asarray(v, dtype=float), (max(1, n),))


def run_case(ctx, case, model=True):
    where = {"case": case}
    n = case["n_steps"]
    cls = Cls(case["cls"])
    ctx.count("spec", case["spec"])
    ctx.count("class", cls.name)
    ctx.count("n_fuels", len(case["fuels"]))
    try:
        fuels = build(case)
    except Exception as e:
        ctx.count("fuel_rejected", core.error_class(e))
        fuels = None
    res = None
    if fuels is not None:
        fc = FuelConsumption(fuels=fuels)
        try:
            res = fc.get_total_co2_emissions(fuel_consumer_class=cls)
        except Exception as e:
            ctx.count("emissions_rejected", core.error_class(e))
            if case["user"] is not None and any(r[4] is None for r in case["user"]["rows"]):
                ctx.fail("predicate", "user-fuel-with-classless-record-refused", f"user-specified fuels with a record that names no consumer class, class {cls.name}: "
                         f"{type(e).__name__}: {e}", where)
    # the record is changed after a first evaluation (a mass re-assigned, the pilot fuel appended later): the next evaluation sees the change
    if res is not None and len(case["fuels"]) >= 1 and case["idx"] % 3 == 1:
        try:
            import copy
            case2 = copy.deepcopy(case)
            f0 = case2["fuels"][0]
            f0["mass"] = [3.0 * x + 1.0 for x in f0["mass"]] if isinstance(f0["mass"], list) else 3.0 * f0["mass"] + 1.0
            fresh_fuels = build(case2)
            fc.fuels[0].mass_or_mass_fraction = fresh_fuels[0].mass_or_mass_fraction.copy() if isinstance(fresh_fuels[0].mass_or_mass_fraction, np.ndarray) else fresh_fuels[0].mass_or_mass_fraction
            moved = fc.fuels.pop()          # … and the last fuel taken out and appended again
            fc.fuels.append(moved)
            res2 = fc.get_total_co2_emissions(fuel_consumer_class=cls)
            res3 = FuelConsumption(fuels=fresh_fuels).get_total_co2_emissions(fuel_consumer_class=cls)
            ctx.count("record_changed_after_first_evaluation", True)
            for nm in ("tank_to_wake_kg_or_gco2eq_per_gfuel", "well_to_tank_kg_or_gco2eq_per_gfuel", "tank_to_wake_kg_or_gco2eq_per_gfuel_without_slip"):
                a, b = field(res2, nm, n), field(res3, nm, n)
                if not all(close(x, y, scale=1.0) for x, y in zip(a, b)):
                    ctx.fail("predicate", "stale-answer-after-record-changed", f"{nm}: {a.tolist()} after re-assigning a mass on the record, {b.tolist()} for a fresh record", where)
                    break
        except Exception as e:
            ctx.count("record_change_rejected", core.error_class(e))
        finally:
            orig = build(case)
            fc.fuels[0].mass_or_mass_fraction = orig[0].mass_or_mass_fraction
    # a user's own factors edited in place after a first evaluation (a slip sweep on one factor object): the next evaluation uses them
    if res is not None and case["user"] is not None and case["idx"] % 2 == 0 and not any("user" in f for f in case["fuels"]):
        try:
            import copy
            case2 = copy.deepcopy(case)
            for r in case2["user"]["rows"]:
                r[0], r[3] = float(np.round(r[0] * 1.07, 6)), float(np.round(max(0.0, r[3] * 0.5 + 0.3), 6))
            for f in fuels:
                for row, r2 in zip(f.ghg_emission_factor_tank_to_wake, case2["user"]["rows"]):
                    row.co2_factor_gco2_per_gfuel, row.c_slip_percent = r2[0], r2[3]
            res2 = fc.get_total_co2_emissions(fuel_consumer_class=cls)
            res3 = FuelConsumption(fuels=build(case2)).get_total_co2_emissions(fuel_consumer_class=cls)
            ctx.count("user_factors_edited_in_place", True)
            for nm in ("tank_to_wake_kg_or_gco2eq_per_gfuel", "well_to_tank_kg_or_gco2eq_per_gfuel", "tank_to_wake_kg_or_gco2eq_per_gfuel_without_slip"):
                a, b = field(res2, nm, n), field(res3, nm, n)
                if not all(close(x, y, scale=1.0) for x, y in zip(a, b)):
                    ctx.fail("predicate", "stale-factors-after-in-place-edit", f"{nm}: {a.tolist()} after editing the factor objects, {b.tolist()} with fresh ones", where)
                    break
        except Exception as e:
            ctx.count("user_factor_edit_rejected", core.error_class(e))
        finally:        # back to the case's own factors for what follows
            for f in fuels:
                for row, r0 in zip(f.ghg_emission_factor_tank_to_wake, case["user"]["rows"]):
                    row.co2_factor_gco2_per_gfuel, row.c_slip_percent = r0[0], r0[3]
    # ---------------- model
    mres = "skip"
    if model and ctx.model_available and not any("user" in f for f in case["fuels"]):       # (the model's record carries one set of user factors)
        mres = []
        user_m = None if case["user"] is None else {
            "lhv": enc(case["user"]["lhv"]), "wtt": enc(case["user"]["wtt"]),
            "rows": [[enc(r[0]), enc(r[1]), enc(r[2]), enc(r[3]), r[4]] for r in case["user"]["rows"]]}
        for t in range(max(1, n)):
            rec = [[f["type"], f["origin"], FuelSpecifiedBy[case["spec"]].value,
                    enc(f["mass"][t] if isinstance(f["mass"], list) else f["mass"])] for f in case["fuels"]]
            try:
                mres.append(ctx.model.call("ghg.total", fuels=rec, cls=case["cls"], user=user_m, series=bool(n > 0)))
            except core.ModelReject:
                mres = None
                break
    if res is None:
        if mres not in ("skip", None):
            ctx.fail("correspondence", "acceptance", f"code rejects, model accepts: {case['spec']} class {cls.name} fuels {[(f['type'], f['origin']) for f in case['fuels']]}", where)
        return False
    if not isinstance(res, GHGEmissions):
        ctx.fail("predicate", "emissions-not-a-ghg-record", f"get_total_co2_emissions returned {type(res).__name__} (series masses)", where)
        return True
    try:
        ttw, wtt, nos = expected_total(fuels, cls)
    except StopIteration:
        # no row for this class, yet a result: only legitimate when nothing was burned (empty fraction record)
        if all(np.all(np.asarray(f.mass_or_mass_fraction) == 0) for f in fuels):
            ttw = wtt = nos = 0.0
        else:
            ctx.fail("predicate", "result-without-class-row", f"emissions reported although a fuel has no factors for class {cls.name}", where)
            return True
    got = [field(res, "tank_to_wake_kg_or_gco2eq_per_gfuel", n), field(res, "well_to_tank_kg_or_gco2eq_per_gfuel", n),
           field(res, "tank_to_wake_kg_or_gco2eq_per_gfuel_without_slip", n), field(res, "well_to_wake_kg_or_gco2eq_per_gfuel", n)]
    want = [np.broadcast_to(np.asarray(x, dtype=float), (max(1, n),)) for x in (ttw, wtt, nos, ttw + wtt)]
    scale = float(np.max(np.abs(np.concatenate(want)))) if want else 1.0
    for name, g, w in zip(("tank-to-wake", "well-to-tank", "tank-to-wake-no-slip", "well-to-wake"), got, want):
        if not all((np.isfinite(a) and close(a, b, scale=scale)) or (not np.isfinite(a) and not np.isfinite(b)) for a, b in zip(g, w)):
            tag = "total-not-sum-of-mass-times-factor"
            if not all(np.isfinite(g)):
                tag = "non-finite-emissions"
            ctx.fail("predicate", tag, f"{name}: reported {g} expected {w}", where)
            break
    if mres is None:
        ctx.fail("correspondence", "acceptance", f"model rejects, code accepts: {case['spec']} class {cls.name} fuels {[(f['type'], f['origin']) for f in case['fuels']]}", where)
    elif mres != "skip":
        for t, m in enumerate(mres):
            for key, g in zip(("ttw", "wtt", "ttw_no_slip", "wtw"), got):
                if np.isfinite(g[t]) and not close(dec(m[key]), g[t], scale=scale, tol=1e-8):
                    ctx.fail("correspondence", "total-" + key, f"step {t}: model {float(dec(m[key]))} impl {g[t]}", where)
    return True


def sweep_cases():
    """every fuel type x origin x {IMO, FuelEU} x class, single fuel, scalar mass"""
    for t in TypeFuel:
        for o in FuelOrigin:
            for s in ("IMO", "FUEL_EU_MARITIME"):
                for c in range(1, 7):
                    yield {"idx": -1, "spec": s, "fuels": [{"type": t.value, "origin": o.value, "mass": 1000.0}], "cls": c, "n_steps": 0, "user": None}


CORPUS = core.VERIF / "corpus" / "C08"


def run(ctx):
    ctx.rule = ("exhaustive single-fuel sweep: 14 fuel types x 4 origins x {IMO, FuelEU} x 6 classes (acceptance and value), plus random mixes of "
                "1-4 kinds of one specification (IMO / FuelEU / user factors), FuelEU mixes biased to contain natural gas, scalar or 1-5 step "
                "series masses with zeros, random class; non-trivial = emissions were computed; distinct by (spec, kinds, class, mass pattern)")
    ctx.assumptions += ["records of one specification (mixed IMO/FuelEU records are refused by the code; mixes with user fuels are not generated)",
                        "table cells enter the Lean module as the shortest decimal of the parsed double"]
    cases = []
    if CORPUS.exists():
        cases += [json.loads(p.read_text()) for p in sorted(CORPUS.glob("*.json"))]
    ncorp = len(cases)
    cases += list(sweep_cases())
    cases += [gen_case(ctx.rng, i) for i in range(ctx.n(300, 6000))]
    for ci, case in enumerate(cases):
        ok = run_case(ctx, case)
        sig = (case["spec"], tuple((f["type"], f["origin"], isinstance(f["mass"], list)) for f in case["fuels"]), case["cls"], case["n_steps"])
        ctx.case_done(signature=sig if ok else None, sample=case if ci in (ncorp, len(cases) - 1) else None)
    ctx.extra["corpus_cases"] = ncorp
    ctx.extra["exhaustive_scope"] = "single fuel: all TypeFuel x FuelOrigin x {IMO, FuelEU} x 6 consumer classes"


def search(ctx):
    """A table proof or the correspondence broke: look for an input on which the property itself fails
    on the implementation: the slip of a natural-gas row must be that of its class whatever the origin."""
    by_cls = {}
    for o in (FuelOrigin.FOSSIL, FuelOrigin.BIO, FuelOrigin.RENEWABLE_NON_BIO):
        try:
            f = Fuel(TypeFuel.NATURAL_GAS, o, FuelSpecifiedBy.FUEL_EU_MARITIME, mass_or_mass_fraction=1000.0)
        except Exception:
            continue
        for c in Cls:
            if c.name == "NONE" or c.name == "ICE":
                continue
            case = {"idx": -2, "spec": "FUEL_EU_MARITIME", "fuels": [{"type": 2, "origin": o.value, "mass": 1000.0}], "cls": c.value, "n_steps": 0, "user": None}
            try:
                g = FuelConsumption(fuels=[f]).get_total_co2_emissions(fuel_consumer_class=c)
                rows = [r for r in f.ghg_emission_factor_tank_to_wake if r.fuel_consumer_class == c]
                slip = rows[0].c_slip_percent
            except Exception as e:
                ctx.fail("predicate", "gas-class-without-factors", f"natural gas of origin {o.name} has no factors for class {c.name}: {type(e).__name__}", {"case": case})
                continue
            if len(rows) != 1:
                ctx.fail("predicate", "gas-class-row-not-unique", f"natural gas {o.name}: {len(rows)} rows for class {c.name} (slips {[r.c_slip_percent for r in rows]})", {"case": case})
            if c in by_cls and by_cls[c][0] != slip:
                ctx.fail("predicate", "slip-depends-on-origin", f"class {c.name}: slip {slip} % for {o.name} but {by_cls[c][0]} % for {by_cls[c][1]}", {"case": case})
            by_cls.setdefault(c, (slip, o.name))
    for t, o, s in F.valid_kinds():
        if s != FuelSpecifiedBy.IMO:
            continue
        f = Fuel(t, o, s)
        r = f.ghg_emission_factor_tank_to_wake[0]
        if r.ch4_factor_gch4_per_gfuel != 0 or r.n2o_factor_gn2o_per_gfuel != 0 or r.c_slip_percent != 0:
            ctx.fail("predicate", "imo-not-co2-only", f"IMO {t.name}/{o.name}: CH4 {r.ch4_factor_gch4_per_gfuel} N2O {r.n2o_factor_gn2o_per_gfuel} slip {r.c_slip_percent}",
                     {"case": {"idx": -2, "spec": "IMO", "fuels": [{"type": t.value, "origin": o.value, "mass": 1.0}], "cls": 1, "n_steps": 0, "user": None}})
    for i in range(3000):
        run_case(ctx, gen_case(ctx.rng, 100_000 + i), model=False)
        if any(f["kind"] == "predicate" and not ctx.is_known(f) for f in ctx.failures):
            return


def replay(data):
    ctx = core.Ctx("C08", "quick", data.get("seed", 0))
    ctx.model_available = core.DRIVER.exists()
    if data["case"]["case"].get("idx") == -2:
        search(ctx)
    else:
        run_case(ctx, data["case"]["case"])
    for f in ctx.failures:
        print(f"{f['kind']}: {f['tag']}: {f['what'][:300]}")
    if ctx._model:
        ctx._model.close()
    return 1 if ctx.failures else 0
