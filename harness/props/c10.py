"""C10 — system totals equal the sum of component figures, in any order.

Correspondence: electric, mechanical, hybrid and mechanical-with-electric plants mixing engines with
and without emission curves, several fuel kinds, fuel cells, COGES, storage, PTI/PTO; after the
power balance the system result (IMO or FuelEU factors) is compared with `Feems.Result.accumulateNested`
applied to the per-component results obtained through the public per-component function
(grouped by switchboard / shaft line, in the node's own order).
Predicates on the implementation alone: every total = arithmetic sum of the per-component figures
(fuel per kind, CO2 components, every species, running hours per class, energies); system = sum of
nodes; three random permutations of the component list give identical totals; one detail row per
source / PTI-PTO / storage (electric) or main engine / PTI-PTO (mechanical) carrying that component's figures.
"""
from __future__ import annotations

import copy
import json

import numpy as np

from .. import core, plants, result_common as R
from ..core import enc, dec, close
from . import c19
from feems.fuel import FuelSpecifiedBy
from feems.components_model.utility import IntegrationMethod
from .. import fuels as F
from feems.types_for_feems import EmissionType, TypePower, TypeComponent

THEOREMS = ["merge_freeze_eq", "wf_merge", "figures_merge", "fold_eq_sum", "accumulate_eq_sum", "perm", "system_eq_sum_nodes",
            "detail_rows", "hours_one_class", "runningHours_nonneg", "runningHours_le_duration", "runningHours_idle", "runningHours_always",
            "energy_classes", "pti_pto_sides", "fuel_reported", "load_ratio_reported"]
DEPENDS_ON_MODULES = ["FeemsProofs.C19", "FeemsProofs.C18"]


def totals_equal(ctx, a, b, what, where, tag):
    bad = [f for f in c19.equiv(a, b) if f not in ("duration", "load", "detail")]
    for f in bad:
        ctx.fail("predicate", tag + "-" + f, f"{what}: {f}: {a[f]} vs {b[f]}", where)
    return not bad


def py_sum(obs_list, n_ext):
    """Arithmetic sums of observations (the property statement, no merge code involved)."""
    out = {"duration": None, "ext": [0.0] * n_ext, "load": None, "emis": None, "detail": None, "fuel": [], "co2": [0.0, 0.0, 0.0]}
    fuel, emis = {}, {}
    any_emis = False
    for o in obs_list:
        out["ext"] = [x + y for x, y in zip(out["ext"], o["ext"])]
        out["co2"] = [x + y for x, y in zip(out["co2"], o["co2"])]
        for t, og, s, m in o["fuel"]:
            fuel[(t, og, s)] = fuel.get((t, og, s), 0.0) + m
        if o["emis"] is not None:
            any_emis = True
            for k, v in o["emis"]:
                emis[k] = emis.get(k, 0.0) + v
    out["fuel"] = [[*k, v] for k, v in fuel.items()]
    out["emis"] = [[k, v] for k, v in emis.items()] if any_emis else None
    return out


KIND_OF = {"generator": "generator", "genset": "genset", "fuel_cell_system": "fuel_cell", "coges": "coges", "other_load": "other_load",
           "drive": "propulsion", "pti_pto": "pti_pto", "battery": "storage", "battery_system": "storage", "supercap": "storage",
           "supercap_system": "storage", "main_engine": "main_engine"}
FIG = {"cons_electric": "energy_consumption_electric_total_mj", "cons_mechanical": "energy_consumption_mechanical_total_mj",
       "stored": "energy_stored_total_mj", "input_mechanical": "energy_input_mechanical_total_mj", "input_electric": "energy_input_electric_total_mj",
       "propulsion": "energy_consumption_propulsion_total_mj", "auxiliary": "energy_consumption_auxiliary_total_mj",
       "hours_main": "running_hours_main_engines_hr", "hours_genset": "running_hours_genset_total_hr",
       "hours_fuel_cell": "running_hours_fuel_cell_total_hr", "hours_pti_pto": "running_hours_pti_pto_total_hr"}


def component_figures(ctx, comp, cspec, dt, spec_by, where):
    """The per-component result against `CompResult.eval`: which figure the component's series go into. The series are read from
    the component after the real function ran (it recomputes a generator's input and an auxiliary load's output); fuel mass-flow
    series and the load ratio come from the machine's own run point, stored energy from the storage unit (C07 / C17)."""
    from feems.components_model.node import get_fuel_emission_energy_balance_for_component as real
    kind = KIND_OF.get(cspec["kind"]) or ("propulsion" if cspec.get("type", "PROPELLER_LOAD") == "PROPELLER_LOAD" else "other_load")
    n = len(dt)
    for mech_side in ([False, True] if kind == "pti_pto" else [False]):
        cr = real(component=comp, time_interval_s=dt, integration_method=IntegrationMethod.sum_with_time, fuel_specified_by=spec_by,
                  isSystemMechanical=mech_side)
        pout = np.broadcast_to(np.asarray(comp.power_output, dtype=float), (n,))
        pin = np.broadcast_to(np.asarray(comp.power_input, dtype=float), (n,))
        fuels, load, stored = [], [], 0.0
        if kind == "genset":
            rp = comp.get_fuel_cons_load_bsfc_from_power_out_generator_kw(power=comp.power_output, fuel_specified_by=spec_by)
            fuels, load = rp.engine.fuel_flow_rate_kg_per_s.fuels, np.atleast_1d(rp.genset_load_ratio)
        elif kind == "main_engine":
            fuels = comp.get_engine_run_point_from_power_out_kw(fuel_specified_by=spec_by).fuel_flow_rate_kg_per_s.fuels
        elif kind == "fuel_cell":
            fuels = comp.get_fuel_cell_run_point(power_out_kw=comp.power_output, fuel_specified_by=spec_by).fuel_flow_rate_kg_per_s.fuels
        elif kind == "coges":
            rp = comp.get_system_run_point_from_power_output_kw(fuel_specified_by=spec_by)
            fuels, load = rp.cogas.fuel_flow_rate_kg_per_s.fuels, np.atleast_1d(rp.coges_load_ratio)
        elif kind == "storage":
            stored = float(comp.get_energy_stored_kj(time_interval_s=dt, integration_method=IntegrationMethod.sum_with_time))
        fj = [[f.fuel_type.value, f.origin.value, f.fuel_specified_by.value,
               [enc(x) for x in np.broadcast_to(np.asarray(f.mass_or_mass_fraction, dtype=float), (n,))]] for f in fuels]
        ans = ctx.model.call("compresult.eval", kind=kind, mech_side=mech_side, pout=[enc(x) for x in pout], pin=[enc(x) for x in pin],
                             dt=[enc(x) for x in dt], fuel=fj, stored_kj=enc(stored), load=[enc(float(x)) for x in np.asarray(load, dtype=float).reshape(-1)])
        ctx.count("component_figures", kind + (":mech-side" if mech_side else ""))
        scale = max(1.0, float(np.dot(np.abs(pout), dt)) / 1000, float(np.dot(np.abs(pin), dt)) / 1000)
        for key, field in FIG.items():
            got = getattr(cr, field)
            got = 0.0 if got is None else float(np.asarray(got, dtype=float).reshape(-1)[0]) if np.size(got) == 1 else float(np.sum(got))
            if not close(dec(ans[key]), got, scale=scale):
                ctx.fail("correspondence", "component-figure-" + key, f"{kind} {comp.name}{' (mechanical side)' if mech_side else ''}: {field}: model {float(dec(ans[key]))} impl {got}", where)
        mm = c19.as_map([[t, o, sp, float(dec(m))] for t, o, sp, m in ans["fuel"]])
        mi = c19.as_map([[k[0], k[1], k[2], c19.f1(m)] for k, m in F.rec_snapshot(cr.multi_fuel_consumption_total_kg)])
        if set(mm) != set(mi) or not all(close(mm[k], mi[k], scale=1.0) for k in mm):
            ctx.fail("correspondence", "component-fuel", f"{kind} {comp.name}: model {mm} impl {mi}", where)
        lr = cr.load_ratio_genset
        if (ans["load"] is None) != (lr is None) or (lr is not None and not close(dec(ans["load"]), c19.f1(lr))):
            ctx.fail("correspondence", "component-load-ratio", f"{kind} {comp.name}: model {ans['load']} impl {lr}", where)


def run_case(ctx, case, model=True):
    where = {"case": case}
    spec_by = FuelSpecifiedBy[case.get("spec_by", "IMO")]
    ctx.count("plant", case["kind"])
    ctx.count("factors", spec_by.name)
    try:
        plant = R.run_plant(case)
        sysres = R.system_results(plant, case, spec_by)
    except Exception as e:
        ctx.count("rejected", core.error_class(e))
        if isinstance(e, (NotImplementedError,)) or "COGAS" in str(e) or "not available" in str(e):
            return False          # FuelEU factors not offered for this fuel / COGAS: the code says so
        ctx.fail("predicate", "result-raises-" + core.error_class(e), f"{type(e).__name__}: {e}", where)
        return False
    names = c19.ext_fields()
    dt = np.array(case["inputs"]["dt"], dtype=float)
    # a bus with load but no running unit has an undefined load fraction (C01's precondition): not a supported input
    for c in case["spec"].get("electric", []) + case["spec"].get("mechanical", []):
        obj = plant.by_name[c["name"]]
        if not (np.all(np.isfinite(np.asarray(obj.power_output, dtype=float))) and np.all(np.isfinite(np.asarray(obj.power_input, dtype=float)))):
            ctx.count("skipped", "bus-without-capacity")
            return False
    spec_of = {id(plant.by_name[c["name"]]): c for c in case["spec"].get("electric", []) + case["spec"].get("mechanical", []) if c["kind"] != "pti_pto_ref"}
    for side, res in sysres.items():
        sys_obs = R.observe_result(res)
        node_obs, all_comp_obs, model_nodes = [], [], []
        for nid, comps_ in R.nodes_of(plant, side):
            cobs = []
            for comp in comps_:
                try:
                    cr = R.component_result(comp, dt, spec_by)
                except Exception as e:
                    # the system gave totals for these factors, so every component must be able to give its part
                    ctx.fail("predicate", "component-refuses-what-the-system-totalled", f"{side} {comp.name}: {type(e).__name__}: {e}", where)
                    return False
                cobs.append(R.observe_result(cr))
                if model and ctx.model_available and id(comp) in spec_of and not (side == "mechanical" and spec_of[id(comp)]["kind"] == "pti_pto"):
                    component_figures(ctx, comp, spec_of[id(comp)], dt, spec_by, where)
                for f in cr.multi_fuel_consumption_total_kg.fuels:
                    ctx.count("fuel_kind", f.fuel_type.name)
            all_comp_obs += cobs
            node_obs.append(py_sum(cobs, len(names)))
            model_nodes.append([c19.to_model(o) for o in cobs])
        # totals = sum over all components; = sum over nodes
        totals_equal(ctx, sys_obs, py_sum(all_comp_obs, len(names)), f"{side} system vs sum of components", where, "total-not-sum-of-components")
        totals_equal(ctx, sys_obs, py_sum(node_obs, len(names)), f"{side} system vs sum of nodes", where, "total-not-sum-of-nodes")
        # what every switchboard / shaft line reports itself (with and without its detail table), and the system's second entry point
        try:
            own, own_nd = [], []
            if side == "electric":
                for swb in plant.electric.switchboards.values():
                    kw = dict(time_interval_s=dt, integration_method=IntegrationMethod.sum_with_time, fuel_specified_by=spec_by)
                    own.append(R.observe_result(swb.get_fuel_energy_consumption_running_time(**kw)))
                    own_nd.append(R.observe_result(swb.get_fuel_energy_consumption_running_time_without_details(**kw)))
            else:
                for sl in plant.mechanical.shaft_line:
                    own.append(R.observe_result(sl.get_fuel_calculation_running_hours(time_step=dt, integration_method=IntegrationMethod.sum_with_time,
                                                                                       fuel_specified_by=spec_by)))
            for k, (o, mine) in enumerate(zip(own, node_obs)):
                totals_equal(ctx, o, mine, f"{side} node {k} as reported vs sum of its components", where, "node-not-sum-of-components")
            totals_equal(ctx, sys_obs, py_sum(own, len(names)), f"{side} system vs sum of the nodes' own results", where, "total-not-sum-of-nodes")
            for k, (o, mine) in enumerate(zip(own_nd, node_obs)):
                totals_equal(ctx, o, mine, f"{side} node {k} (without details) vs sum of its components", where, "node-not-sum-of-components")
            if side == "electric" and case["kind"] == "electric":
                alt = R.observe_result(plant.electric.get_fuel_energy_consumption_running_time_scalar(fuel_specified_by=spec_by))
                ctx.count("entry_point", "scalar")
                totals_equal(ctx, alt, py_sum(all_comp_obs, len(names)), "electric system (scalar entry point) vs sum of components", where, "total-not-sum-of-components")
        except Exception as e:
            ctx.fail("predicate", "node-result-raises-" + core.error_class(e), f"{side}: {type(e).__name__}: {e}", where)
        # detail rows
        detail = res.detail_result
        want_rows = []
        for nid, comps_ in R.nodes_of(plant, side):
            for comp in comps_:
                if side == "electric" and comp.power_type in (TypePower.POWER_SOURCE, TypePower.PTI_PTO, TypePower.ENERGY_STORAGE):
                    want_rows.append(comp.name)
                if side == "mechanical" and (comp.type in (TypeComponent.MAIN_ENGINE, TypeComponent.MAIN_ENGINE_WITH_GEARBOX, TypeComponent.PTI_PTO_SYSTEM)):
                    want_rows.append(comp.name)
        got_rows = [] if detail is None else [str(x) for x in detail.index]
        if sorted(got_rows) != sorted(want_rows):
            ctx.fail("predicate", "detail-rows", f"{side}: rows {sorted(got_rows)} expected {sorted(want_rows)}", where)
        elif detail is not None:
            for nid, comps_ in R.nodes_of(plant, side):
                for comp in comps_:
                    has_row = (side == "electric" and comp.power_type in (TypePower.POWER_SOURCE, TypePower.PTI_PTO, TypePower.ENERGY_STORAGE)) or \
                        (side == "mechanical" and comp.type in (TypeComponent.MAIN_ENGINE, TypeComponent.MAIN_ENGINE_WITH_GEARBOX, TypeComponent.PTI_PTO_SYSTEM))
                    if not has_row:
                        continue
                    cr = R.component_result(comp, dt, spec_by)
                    # names repeat across switchboards / shaft lines: the row of this component is the one of its node
                    sel = detail[(detail.index == comp.name) & (detail["switchboard id" if side == "electric" else "shaftline id"] == nid)
                                 & (detail["component type"] == comp.type.name)]
                    if len(sel) != 1:
                        ctx.fail("predicate", "detail-rows", f"{side}: {len(sel)} rows for {comp.name} on node {nid}", where)
                        continue
                    row = sel.iloc[0]
                    fuel_row = row["multi fuel consumption [kg]"].total_fuel_consumption
                    if not close(float(np.sum(fuel_row)), float(np.sum(cr.multi_fuel_consumption_total_kg.total_fuel_consumption)), scale=1.0):
                        ctx.fail("predicate", "detail-row-fuel", f"{side} {comp.name}: row {fuel_row} component {cr.multi_fuel_consumption_total_kg.total_fuel_consumption}", where)
                    g1, g2 = row["CO2 emission [kg]"], cr.co2_emission_total_kg
                    if not close(float(g1.tank_to_wake_kg_or_gco2eq_per_gfuel), float(g2.tank_to_wake_kg_or_gco2eq_per_gfuel), scale=1.0):
                        ctx.fail("predicate", "detail-row-co2", f"{side} {comp.name}", where)
        # model: nested accumulation of the per-component results
        if model and ctx.model_available:
            try:
                mo = c19.model_obs(ctx.model.call("result.accumulate", n_ext=len(names), nodes=model_nodes))
                bad = [f for f in c19.equiv(sys_obs, mo) if f not in ("duration", "load", "detail")]
                for f in bad:
                    ctx.fail("correspondence", "accumulate-" + f, f"{side}: model {mo[f]} impl {sys_obs[f]}", where)
            except core.ModelReject as e:
                ctx.fail("correspondence", "model-rejects", f"{side}: {e}", where)
    # order independence: permute the component lists
    if case.get("permute", True):
        base = {side: R.observe_result(r) for side, r in sysres.items()}
        for _ in range(2):
            c2 = copy.deepcopy(case)
            rng = np.random.default_rng(abs(hash(json.dumps(case["spec"], sort_keys=True))) % (2 ** 32) + _)
            if c2["spec"].get("electric"):
                c2["spec"]["order"] = [int(i) for i in rng.permutation(len(c2["spec"]["electric"]))]
            if c2["spec"].get("mechanical"):
                c2["spec"]["mech_order"] = [int(i) for i in rng.permutation(len(c2["spec"]["mechanical"]))]
            try:
                p2 = R.run_plant(c2)
                r2 = R.system_results(p2, c2, spec_by)
            except Exception as e:
                ctx.fail("predicate", "permuted-plant-raises-" + core.error_class(e), f"{type(e).__name__}: {e}", where)
                continue
            for side in base:
                totals_equal(ctx, base[side], R.observe_result(r2[side]), f"{side} totals after permuting the component list", where, "order-dependent")
    return True


def gen_case(rng, idx):
    case = R.gen_plant_case(rng, idx)
    case["spec_by"] = str(rng.choice(["IMO", "IMO", "FUEL_EU_MARITIME"]))
    return case


CORPUS = core.VERIF / "corpus" / "C10"


def run(ctx):
    ctx.rule = ("plants {electric x2, mechanical, hybrid, mechanical+electric} from the C01/C04 generators (all source kinds, dual fuel, emission curves "
                "on ~40% of engines, storage, PTI/PTO), 1-8 steps, IMO (2/3) or FuelEU (1/3) factors; each case also run for two random "
                "permutations of the component lists; distinct by (plant layout, factor spec)")
    cases = []
    if CORPUS.exists():
        cases += [json.loads(p.read_text()) for p in sorted(CORPUS.glob("*.json"))]
    ncorp = len(cases)
    cases += [gen_case(ctx.rng, i) for i in range(ctx.n(100, 1500))]
    for ci, case in enumerate(cases):
        ok = run_case(ctx, case)
        sig = (case["kind"], case.get("spec_by"), json.dumps([(c["kind"], c.get("swb"), c.get("shaft_line")) for c in case["spec"].get("electric", []) + case["spec"].get("mechanical", [])]))
        ctx.case_done(signature=sig if ok else None, sample={"kind": case["kind"], "components": [c["kind"] for c in case["spec"].get("electric", []) + case["spec"].get("mechanical", [])], "n": case["inputs"]["n"]} if ci in (ncorp, ncorp + 1) else None)
    ctx.extra["corpus_cases"] = ncorp


def search(ctx):
    for i in range(600):
        run_case(ctx, gen_case(ctx.rng, 100_000 + i), model=False)
        if any(f["kind"] == "predicate" and not ctx.is_known(f) for f in ctx.failures):
            return


def replay(data):
    ctx = core.Ctx("C10", "quick", data.get("seed", 0))
    ctx.model_available = core.DRIVER.exists()
    run_case(ctx, data["case"]["case"])
    for f in ctx.failures:
        print(f"{f['kind']}: {f['tag']}: {f['what'][:300]}")
    if ctx._model:
        ctx._model.close()
    return 1 if ctx.failures else 0
