"""C15 — load-dependent start/stop picks a sufficient, minimal generator set.

Correspondence: `min_load_table_dict` + `PmsLoadTable.on_pattern` (RunFeemsSim) against
`Feems.Pms.pick`, and `_ideal_number_of_gensets_on` (feems.runsimulation) against
`Feems.Pms.equalSizeCount`, on rating lists with equal / distinct ratings and equal subset sums,
loads below zero, exactly at every switching threshold, between thresholds and above plant
capacity.  Predicates on the implementation alone (brute force over all 2^n subsets): sufficient,
all-on otherwise, minimal among non-empty sets, monotone, non-empty.
At loads within 1e-9 (relative) of a threshold the double product `fraction * sum` and the exact
rational can order differently; there either neighbouring pattern is accepted.
"""
from __future__ import annotations

import itertools
import json

import numpy as np

from .. import core
from ..core import enc, frac
from RunFeemsSim.pms_basic import PmsLoadTable, min_load_table_dict

THEOREMS = ["sufficient", "all_on_otherwise", "minimal", "monotone", "nonempty", "loading", "loading_with_pti", "loading_legacy_overload",
            "eq_nonempty", "eq_sufficient", "eq_minimal", "eq_monotone"]

REL = 1e-9


def gen_case(rng, idx):
    n = int(rng.choice([1, 2, 3, 4, 5, 6], p=[0.1, 0.2, 0.25, 0.2, 0.15, 0.1]))
    style = str(rng.choice(["equal", "distinct", "subset_sums", "decimal"]))
    if style == "equal":
        rs = [float(rng.choice([100, 250, 1000]))] * n
    elif style == "distinct":
        rs = [float(x) for x in rng.choice(np.arange(50, 3000, 50), size=n, replace=False)]
    elif style == "subset_sums":
        base = float(rng.choice([100, 200, 500]))
        rs = [base * int(rng.integers(1, 4)) for _ in range(n)]
    else:
        rs = [float(np.round(rng.uniform(10, 2000), 1)) for _ in range(n)]
    f = float(rng.integers(1, 21)) / 20.0
    if style != "decimal" and rng.random() < 0.6:
        f = float(rng.integers(1, 9)) / 8.0      # dyadic: fraction * sum is exact in double arithmetic
    return {"idx": idx, "ratings": rs, "f": f, "style": style, "extra_loads": [float(np.round(x, 3)) for x in rng.uniform(-0.2, 1.3, size=6) * sum(rs)]}


def loads_for(case, table_keys):
    """Loads to probe: below zero, every threshold of the real table, midpoints, just below/above
    thresholds, above capacity, plus random ones."""
    keys = sorted(set(float(k) for k in table_keys))
    cap = sum(case["ratings"]) * case["f"]
    loads = [-1.0, -1e-6 * max(1.0, cap), 0.0, cap, cap * 1.01, cap * 2 + 1]
    for a, b in zip(keys, keys[1:]):
        loads += [a, (a + b) / 2, b * (1 - 1e-6), b]
    loads += [k * (1 + 1e-6) for k in keys[1:]]
    loads += case["extra_loads"]
    return loads


def run_case(ctx, case, model=True):
    rs, f = case["ratings"], case["f"]
    where = {"case": case}
    n = len(rs)
    ctx.count("n_sources", n)
    ctx.count("style", case["style"])
    try:
        d = min_load_table_dict(rs, f)
        table = PmsLoadTable(min_load2on_pattern=d)
    except Exception as e:
        ctx.fail("predicate", "table-raises-" + core.error_class(e), f"{type(e).__name__}: {e}", where)
        return []
    loads = loads_for(case, d.keys())
    picks = [tuple(bool(b) for b in p) for p in table.on_pattern(np.array(loads))]
    # ---- predicates on the implementation (exact rational arithmetic on the picked patterns)
    R = [frac(r) for r in rs]
    F = frac(f)
    subsets = list(itertools.product([False, True], repeat=n))
    caps = {q: sum((r for r, on in zip(R, q) if on), start=frac(0)) for q in subsets}
    fcaps = sorted(((F * c, c, q) for q, c in caps.items()), key=lambda t: t[0])
    thresholds = sorted(set(t[0] for t in fcaps))
    thr_f = [float(t) for t in thresholds]
    import bisect

    # exact mode: integer ratings and a dyadic fraction make every threshold an exact double, so the
    # implementation and the rational model must agree *exactly*, also at the thresholds themselves
    exact = all(float(r).is_integer() for r in rs) and (f * 8).is_integer()
    ctx.count("arithmetic", "exact" if exact else "tolerant")

    def near(L):
        if exact:
            return False
        j = bisect.bisect_left(thr_f, L)
        for t in thresholds[max(0, j - 1):j + 2]:
            if abs(frac(L) - t) <= REL * max(1, abs(t)):
                return True
        return False

    cap_all = caps[subsets[-1]]
    nonempty_sorted = [(fc, c) for fc, c, q in fcaps if any(q)]
    prev_cap = None
    order = np.argsort(loads, kind="stable")
    for i in order:
        L, p = loads[i], picks[i]
        Lf = frac(L)
        if len(p) != n or not any(p):
            ctx.fail("predicate", "empty-or-malformed-pattern", f"load {L}: pattern {p}", where)
            continue
        nr = near(L)
        if nr:
            ctx.count("load_kind", "near-threshold")
        else:
            ctx.count("load_kind", "negative" if L < 0 else ("above-capacity" if Lf >= F * cap_all else "interior"))
        c = caps[p]
        exists = F * cap_all > Lf
        slack = 0 if exact else REL * max(1, abs(Lf))
        if exists and not (F * c > Lf - slack if not exact else F * c > Lf):
            ctx.fail("predicate", "not-sufficient", f"load {L}: picked {p} with f*cap {float(F * c)} although a sufficient set exists", where)
        if not exists and c != cap_all:
            ctx.fail("predicate", "not-all-on", f"load {L}: no set suffices but picked {p}", where)
        # smallest non-empty set that would do
        for fc, cq in nonempty_sorted:
            if fc > Lf + slack:
                if cq < c and (exact or cq < c * (1 - frac(REL))):      # equal subset sums of decimals differ by an ulp
                    ctx.fail("predicate", "not-minimal", f"load {L}: picked {p} (cap {float(c)}) but a set of cap {float(cq)} would do", where)
                break
        if prev_cap is not None and c < prev_cap[1] and not (nr or prev_cap[2]):
            ctx.fail("predicate", "not-monotone", f"capacity {float(prev_cap[1])} at load {prev_cap[0]} but {float(c)} at load {L}", where)
        prev_cap = (L, c, nr)
    # ---- correspondence with the model
    if model and ctx.model_available:
        out = ctx.model.call("pms.pick", ratings=[enc(r) for r in rs], f=enc(f), loads=[enc(L) for L in loads])
        for L, p, m in zip(loads, picks, out):
            m = tuple(bool(b) for b in m)
            if m != p:
                if near(L) or (not exact and abs(caps[m] - caps[p]) <= frac(REL) * max(1, caps[p])):
                    ctx.count("accepted_near_threshold_difference")
                    continue
                ctx.fail("correspondence", "pick", f"load {L}: model {m} impl {p}", where)
        # the equal-size rule of feems.runsimulation on the same plant when all ratings are equal
    return loads


def run_equal_size(ctx, case, model=True):
    from feems.runsimulation import EqualEngineSizeAllClosedSimulationInterface
    n, r, f = case["n"], case["r"], case["f"]
    where = {"case": case}
    sim = EqualEngineSizeAllClosedSimulationInterface(swb2n_gensets={1: n}, rated_power_gensets=r,
                                                      maximum_allowable_genset_load_percentage=f, n_bus_ties=0)
    loads = np.array(case["loads"], dtype=float)
    ks = [int(k) for k in sim._ideal_number_of_gensets_on(len(loads), loads)]
    R, F = frac(r), frac(f)
    exact = float(r).is_integer() and (f * 8).is_integer()
    ctx.count("arithmetic_equal_size", "exact" if exact else "tolerant")
    for L, k in zip(loads, ks):
        Lf = frac(float(L))
        slack = 0 if exact else REL * max(1, abs(Lf))
        if not (1 <= k <= n):
            ctx.fail("predicate", "eq-count-range", f"load {L}: {k} sets of {n}", where)
        if Lf <= n * R * F and not (Lf <= k * R * F + slack):
            ctx.fail("predicate", "eq-not-sufficient", f"load {L}: {k} sets", where)
        if k >= 2 and L > 0 and not ((k - 1) * R * F < Lf + slack):
            ctx.fail("predicate", "eq-not-minimal", f"load {L}: {k} sets although {k - 1} suffice", where)
    if model and ctx.model_available:
        out = ctx.model.call("pms.equal_size", n=n, r=enc(r), f=enc(f), loads=[enc(float(L)) for L in loads])
        for L, k, m in zip(loads, ks, out):
            if k != m:
                x = frac(float(L)) / (R * F)
                if not exact and abs(x - round(x)) <= REL * max(1, abs(x)):
                    ctx.count("accepted_near_threshold_difference")
                    continue
                ctx.fail("correspondence", "equal-size-count", f"load {L}: model {m} impl {k}", where)
    return len(loads)


def gen_equal_case(rng, idx):
    n = int(rng.integers(1, 7))
    r = float(rng.choice([100.0, 450.0, 1000.0, float(np.round(rng.uniform(50, 3000), 1))]))
    f = float(rng.integers(1, 21)) / 20.0 if rng.random() < 0.4 else float(rng.integers(1, 9)) / 8.0
    loads = [-10.0, 0.0] + [k * r * f for k in range(1, n + 2)] + [k * r * f * (1 + 1e-6) for k in range(1, n + 1)] \
        + [float(x) for x in rng.uniform(0, (n + 1) * r * f, size=5)]
    return {"idx": idx, "equal_size": True, "n": n, "r": r, "f": f, "loads": loads}


def run_frontend_case(ctx, rng, idx, case=None):
    if case is not None:
        return exec_frontend_case(ctx, case)
    """a calculation driven by the table: no running source above the allowed fraction when avoidable, at least one runs"""
    from .. import plants, elec_common as E
    from RunFeemsSim.machinery_calculation import MachineryCalculation
    n_swb = int(rng.choice([1, 2, 3, 4]))
    spec = plants.gen_electric_plant(rng, n_swb=n_swb, with_pti=False, with_storage=False, source_kinds=("genset", "generator"))
    if not any(c["kind"] == "drive" for c in spec["electric"]):
        spec["electric"].append(plants.gen_serial_spec(rng, "drive", "drive_x", spec["electric"][0]["swb"], 900.0))
    if rng.random() < 0.6:        # components handed over in any order, not grouped by switchboard (port / starboard pairwise …)
        spec["order"] = [int(i) for i in rng.permutation(len(spec["electric"]))]
    ctx.count("frontend_component_order", "permuted" if "order" in spec else "grouped-by-switchboard")
    f_pct = float(rng.choice([50.0, 80.0, 100.0]))
    srcs = [c for c in spec["electric"] if c["kind"] in E.SOURCE_KINDS]
    total = sum(c["rated"] for c in srcs)
    n = int(rng.integers(1, 6))
    P = [float(np.round(rng.uniform(0.0, 0.7) * total, 1)) for _ in range(n)]
    case = {"kind": "frontend", "spec": spec, "P": P, "fraction": f_pct}
    ties = len(spec.get("bus_ties", []))
    if ties >= 2 and rng.random() < 0.6:
        # a split-bus study before this calculation: a breaker other than the first was opened by the user (for the same samples),
        # on a fresh plant or after an earlier calculation of the same length (seeded change C15-r6: the interface closed the
        # breakers only when the FIRST one was not already closed)
        case["opened_before"] = {"breaker": int(rng.integers(2, ties + 1)), "after_first_calculation": bool(rng.random() < 0.6)}
    return exec_frontend_case(ctx, case)


def exec_frontend_case(ctx, case):
    from .. import plants, elec_common as E
    from RunFeemsSim.machinery_calculation import MachineryCalculation
    spec, P, f_pct = case["spec"], case["P"], case["fraction"]
    n, n_swb = len(P), len({c["swb"] for c in spec["electric"]})
    srcs = [c for c in spec["electric"] if c["kind"] in E.SOURCE_KINDS]
    total = sum(c["rated"] for c in srcs)
    where = {"case": case}
    ctx.count("frontend_switchboards", n_swb)
    try:
        plant = plants.Plant(spec)
        mc = MachineryCalculation(feems_system=plant.system, maximum_allowed_power_source_load_percentage=f_pct)
        ob = case.get("opened_before")
        if ob:
            ctx.count("breaker_opened_before_the_calculation", "after an earlier calculation" if ob["after_first_calculation"] else "fresh plant")
            if ob["after_first_calculation"]:
                mc.calculate_machinery_system_output_from_statistics(propulsion_power=np.array(P), frequency=np.full(n, 60.0), auxiliary_power_kw=0.0)
            plant.electric.set_bus_tie_status([(ob["breaker"], np.zeros(n, dtype=bool))])
        mc.calculate_machinery_system_output_from_statistics(propulsion_power=np.array(P), frequency=np.full(n, 60.0), auxiliary_power_kw=0.0)
    except Exception as e:
        ctx.fail("predicate", "front-end-raises-" + core.error_class(e), f"{type(e).__name__}: {e}", where)
        return
    f = f_pct / 100.0
    demand = np.zeros(n)
    for c in spec["electric"]:
        if c["kind"] in ("drive", "other_load"):
            demand = demand + np.broadcast_to(np.asarray(plant.by_name[c["name"]].power_input, dtype=float), (n,))
    for t in range(n):
        running = [c for c in srcs if np.broadcast_to(plant.by_name[c["name"]].status, (n,))[t]]
        if not running:
            ctx.fail("predicate", "no-source-running", f"step {t}: no source runs", where)
            continue
        avoidable = total * f > demand[t] * (1 + 1e-9)
        for c in running:
            frac_ = float(np.broadcast_to(np.asarray(plant.by_name[c["name"]].power_output, dtype=float), (n,))[t]) / c["rated"]
            if avoidable and frac_ > f * (1 + 1e-9):
                ctx.fail("predicate", "source-above-allowed-fraction", f"step {t}: {c['name']} at {frac_:.4f} > {f} although the plant could carry {demand[t]} kW within it", where)
    ctx.case_done(signature=("frontend", n_swb, tuple(P)))


def run_simulation_case(ctx, rng, idx, case=None):
    if case is not None:
        return exec_run_simulation_case(ctx, case)
    """the table driven through feems.runsimulation.run_simulation with loads set on the components themselves, some of them as a
    single value standing for a constant (FEEMS broadcasts it in the balance)"""
    from .. import plants, elec_common as E
    from feems.runsimulation import run_simulation
    from feems.components_model.utility import IntegrationMethod
    from RunFeemsSim.pms_basic import PmsLoadTable, PmsLoadTableSimulationInterface, get_min_load_table_dict_from_feems_system
    n_swb = int(rng.choice([1, 2, 3]))
    with_pti = bool(rng.random() < 0.4)          # a PTI/PTO with a given power on the bus: part of the load the sources carry (D109)
    spec = plants.gen_electric_plant(rng, n_swb=n_swb, with_pti=with_pti, with_storage=False, source_kinds=("genset", "generator"))
    if rng.random() < 0.5:
        spec["order"] = [int(i) for i in rng.permutation(len(spec["electric"]))]
    f_pct = float(rng.choice([50.0, 80.0, 100.0]))
    srcs = [c for c in spec["electric"] if c["kind"] in E.SOURCE_KINDS]
    cons = [c for c in spec["electric"] if c["kind"] in ("drive", "other_load")]
    total = sum(c["rated"] for c in srcs)
    n = int(rng.integers(2, 6))
    const_swb = int(rng.choice(sorted({c["swb"] for c in cons}))) if rng.random() < 0.5 else None
    loads = {}
    for c in cons:
        cap = min(c["rated"], 0.6 * total / len(cons))
        if c["swb"] == const_swb:
            loads[c["name"]] = [float(np.round(rng.uniform(0.2, 0.9) * cap, 1))]                      # one value for the whole series
        else:
            loads[c["name"]] = [float(np.round(rng.uniform(0.0, 0.9) * cap, 1)) for _ in range(n)]
    pti = {}
    for c in spec["electric"]:
        if c["kind"] == "pti_pto":
            lim = min(0.8 * c["rated"], 0.3 * total)
            pti[c["name"]] = {"power": [float(np.round(rng.uniform(-0.3, 1.0) * lim, 1)) for _ in range(n)],
                              "mode": [float(rng.random() < 0.85) for _ in range(n)]}
    return exec_run_simulation_case(ctx, {"kind": "run_simulation", "spec": spec, "loads": loads, "fraction": f_pct, "n": n, "const_swb": const_swb, "pti": pti})


def exec_run_simulation_case(ctx, case):
    from .. import plants, elec_common as E
    from feems.runsimulation import run_simulation
    from feems.components_model.utility import IntegrationMethod
    from RunFeemsSim.pms_basic import PmsLoadTable, PmsLoadTableSimulationInterface, get_min_load_table_dict_from_feems_system
    spec, loads, f_pct, n, const_swb = case["spec"], case["loads"], case["fraction"], case["n"], case.get("const_swb")
    n_swb = len({c["swb"] for c in spec["electric"]})
    srcs = [c for c in spec["electric"] if c["kind"] in E.SOURCE_KINDS]
    cons = [c for c in spec["electric"] if c["kind"] in ("drive", "other_load")]
    total = sum(c["rated"] for c in srcs)
    where = {"case": case}
    ctx.count("run_simulation_constant_load_on_one_switchboard", const_swb is not None)
    try:
        plant = plants.Plant(spec)
        for c in cons:
            plant.by_name[c["name"]].set_power_input_from_output(np.array(loads[c["name"]], dtype=float))
        for name, d in (case.get("pti") or {}).items():
            obj = plant.by_name[name]
            obj.status = np.ones(n, dtype=bool)
            obj.load_sharing_mode = np.array(d["mode"], dtype=float)
            obj.power_input = np.array(d["power"], dtype=float)
        ctx.count("run_simulation_pti_pto_on_the_bus", bool(case.get("pti")))
        plant.electric.set_time_interval(np.full(n, 60.0), integration_method=IntegrationMethod.sum_with_time)
        # the load the table is asked with vs the model's `busLoad` (consumers + given PTI/PTO power), summed over the switchboards
        if ctx.model_available:
            asked = plant.electric.get_sum_consumption_kw_sources_switchboard()
            asked_total = sum(np.broadcast_to(np.asarray(v, dtype=float), (n,)) for v in asked.values())
            for t in range(n):
                cons_t = sum(float(np.broadcast_to(np.asarray(plant.by_name[c["name"]].power_input, dtype=float), (n,))[t]) for c in cons)
                m = core.dec(ctx.model.call("pms.bus_load", consumers=enc(cons_t), pti_power=[enc(d["power"][t]) for d in (case.get("pti") or {}).values()],
                                            pti_mode=[enc(d["mode"][t]) for d in (case.get("pti") or {}).values()]))
                if not core.close(m, float(asked_total[t]), scale=max(1.0, total)):
                    ctx.fail("correspondence", "bus-load", f"step {t}: model {float(m)} kW, the table is asked with {float(asked_total[t])} kW", where)
        table = PmsLoadTable(min_load2on_pattern=get_min_load_table_dict_from_feems_system(system=plant.electric, maximum_allowed_genset_load_percentage=f_pct))
        run_simulation(plant.electric, PmsLoadTableSimulationInterface(n_bus_ties=len(spec.get("bus_ties", [])), pms_load_table=table))
    except Exception as e:
        ctx.fail("predicate", "run-simulation-raises-" + core.error_class(e), f"{type(e).__name__}: {e}", where)
        return
    f = f_pct / 100.0
    demand = np.zeros(n)
    for c in cons:
        demand = demand + np.broadcast_to(np.asarray(plant.by_name[c["name"]].power_input, dtype=float), (n,))
    for name, d in (case.get("pti") or {}).items():      # what a PTI/PTO is given to take from (or feed into) the bus
        demand = demand + np.where(np.array(d["mode"]) != 0, np.array(d["power"]) * np.array(d["mode"]), 0.0)
    for t in range(n):
        running = [c for c in srcs if np.broadcast_to(plant.by_name[c["name"]].status, (n,))[t]]
        if not running:
            ctx.fail("predicate", "no-source-running", f"step {t}: no source runs", where)
            continue
        avoidable = total * f > demand[t] * (1 + 1e-9)
        for c in running:
            frac_ = float(np.broadcast_to(np.asarray(plant.by_name[c["name"]].power_output, dtype=float), (n,))[t]) / c["rated"]
            if avoidable and frac_ > f * (1 + 1e-9):
                ctx.fail("predicate", "source-above-allowed-fraction", f"step {t}: {c['name']} at {frac_:.4f} > {f} although the plant could carry {demand[t]} kW within it", where)
    ctx.case_done(signature=("run_simulation", n_swb, json.dumps(loads)))


def equal_size_simulation_case(ctx, rng, idx, case=None):
    """the equal-size rule driven through feems.runsimulation.run_simulation on plants with several switchboards in a chain
    (k - 1 breakers, all closed by the interface) - also series shorter than the number of breakers"""
    if case is None:
        k = int(rng.choice([1, 2, 3, 4, 5]))
        per = [int(rng.integers(1, 3)) for _ in range(k)]
        r = float(rng.choice([500.0, 1000.0, 1800.0]))
        f = float(rng.choice([0.5, 0.8, 1.0]))
        n = int(rng.choice([1, 2, 3, 6]))
        total = r * sum(per)
        loads = {s + 1: [float(np.round(rng.uniform(0.0, 0.9) * total / k, 1)) for _ in range(n)] for s in range(k)}
        if k >= 2 and rng.random() < 0.4:          # switchboards that feed no consumer (the first one among them half of the time)
            for s in rng.choice(range(1, k + 1), size=int(rng.integers(1, k)), replace=False):
                del loads[int(s)]
        case = {"kind": "equal_size_simulation", "per_swb": per, "rated": r, "fraction": f, "n": n, "loads": {str(s): v for s, v in loads.items()}}
    return exec_equal_size_simulation_case(ctx, case)


def exec_equal_size_simulation_case(ctx, case):
    from .. import plants
    from feems.runsimulation import run_simulation, EqualEngineSizeAllClosedSimulationInterface
    from feems.components_model.utility import IntegrationMethod
    per, r, f, n = case["per_swb"], case["rated"], case["fraction"], case["n"]
    k = len(per)
    where = {"case": case}
    spec = {"type": "electric", "name": "plant", "electric": [], "bus_ties": [[s, s + 1] for s in range(1, k)]}
    for s in range(1, k + 1):
        for g in range(per[s - 1]):
            spec["electric"].append({"kind": "genset", "name": f"g{s}_{g}", "swb": s, "rated": r, "generator": {"rated": r, "speed": 1000.0, "curve": [0.95]},
                                     "engine": {"rated": 1.1 * r, "speed": 1000.0, "bsfc": [200.0]}})
        if str(s) in case["loads"]:
            spec["electric"].append({"kind": "other_load", "name": f"l{s}", "swb": s, "rated": r * sum(per), "curve": [1.0]})
    ctx.count("equal_size_switchboards_without_consumer", k - len(case["loads"]))
    ctx.count("equal_size_simulation", f"{k} switchboards, {n} samples" if n < k - 1 else "series at least as long as the breaker list")
    try:
        plant = plants.Plant(spec)
        for s in case["loads"]:
            plant.by_name[f"l{s}"].set_power_input_from_output(np.array(case["loads"][s], dtype=float))
        for c in spec["electric"]:
            if c["kind"] == "genset":           # a fixed share left from an earlier calculation: the interface sets equal sharing (D142)
                plant.by_name[c["name"]].load_sharing_mode = np.full(n + 1, 0.9)
        plant.electric.set_time_interval(np.full(n, 60.0), integration_method=IntegrationMethod.sum_with_time)
        run_simulation(plant.electric, EqualEngineSizeAllClosedSimulationInterface(swb2n_gensets={s: per[s - 1] for s in range(1, k + 1)}, rated_power_gensets=r,
                                                                                   n_bus_ties=k - 1, maximum_allowable_genset_load_percentage=f))
    except Exception as e:
        ctx.fail("predicate", "equal-size-simulation-raises-" + core.error_class(e), f"{type(e).__name__}: {e}", where)
        return
    demand = sum(np.array(v, dtype=float) for v in case["loads"].values())
    gens = [c for c in spec["electric"] if c["kind"] == "genset"]
    for t in range(n):
        running = [c for c in gens if np.broadcast_to(plant.by_name[c["name"]].status, (n,))[t]]
        if not running:
            ctx.fail("predicate", "no-source-running", f"step {t}: no source runs", where)
            continue
        avoidable = r * len(gens) * f > demand[t] * (1 + 1e-9)
        for c in running:
            frac_ = float(np.broadcast_to(np.asarray(plant.by_name[c["name"]].power_output, dtype=float), (n,))[t]) / r
            if avoidable and frac_ > f * (1 + 1e-9):
                ctx.fail("predicate", "source-above-allowed-fraction", f"step {t}: {c['name']} at {frac_:.4f} > {f} although the plant could carry {demand[t]} kW within it", where)
    ctx.case_done(signature=("equal_size_simulation", k, n, json.dumps(case["loads"])))


CORPUS = core.VERIF / "corpus" / "C15"


def run(ctx):
    ctx.rule = ("rating lists of 1-6 sources (equal / distinct / multiples of one base so that subset sums tie / one-decimal), "
                "fraction k/20, loads: negative, 0, every threshold of the real table, midpoints, 1e-6 below/above thresholds, "
                "capacity, above capacity, 6 random; plus the equal-size rule with 1-6 sets; one evaluation = one (plant, load) "
                "lookup; non-trivial & distinct = distinct (ratings, fraction, load) with a load not within 1e-9 of a threshold")
    ctx.assumptions += ["all ratings > 0 and fraction in (0,1] (the API's domain)",
                        "model lookup = 'last pair with key <= max(load, key0)' is the closed form of dict(zip)+np.digitize; validated on every case"]
    cases = []
    if CORPUS.exists():
        cases += [json.loads(p.read_text()) for p in sorted(CORPUS.glob("*.json"))]
    ncorp = len(cases)
    nt = ctx.n(120, 3000)
    cases += [gen_case(ctx.rng, i) for i in range(nt)]
    cases += [gen_equal_case(ctx.rng, i) for i in range(ctx.n(60, 1500))]
    if not ctx.quick():
        # exhaustive small scope: every multiset of ratings from a 4-value alphabet up to length 4, 3 fractions
        for n in range(1, 5):
            for rs in itertools.combinations_with_replacement([100.0, 200.0, 300.0, 450.0], n):
                for f in (0.5, 0.75, 0.8, 1.0):
                    cases.append({"idx": -1, "ratings": list(rs), "f": f, "style": "exhaustive", "extra_loads": []})
    for ci, case in enumerate(cases):
        if case.get("equal_size"):
            nl = run_equal_size(ctx, case)
            for L in case["loads"]:
                ctx.case_done(signature=("eq", case["n"], case["r"], case["f"], L))
        else:
            for L in run_case(ctx, case):
                ctx.case_done(signature=(tuple(case["ratings"]), case["f"], L))
        if ci in (ncorp, ncorp + 1):
            ctx.samples.append(case)
    for i in range(ctx.n(40, 800)):
        run_frontend_case(ctx, ctx.rng, i)
    for i in range(ctx.n(40, 800)):
        run_simulation_case(ctx, ctx.rng, i)
    for i in range(ctx.n(30, 600)):
        equal_size_simulation_case(ctx, ctx.rng, i)
    ctx.extra["corpus_cases"] = ncorp


def search(ctx):
    for i in range(3000):
        run_case(ctx, gen_case(ctx.rng, 100_000 + i), model=False)
        run_equal_size(ctx, gen_equal_case(ctx.rng, 100_000 + i), model=False)
        if any(f["kind"] == "predicate" and not ctx.is_known(f) for f in ctx.failures):
            return


def replay(data):
    ctx = core.Ctx("C15", "quick", data.get("seed", 0))
    ctx.model_available = core.DRIVER.exists()
    case = data["case"]["case"]
    if case.get("kind") == "frontend":
        exec_frontend_case(ctx, case)
    elif case.get("kind") == "run_simulation":
        exec_run_simulation_case(ctx, case)
    elif case.get("kind") == "equal_size_simulation":
        exec_equal_size_simulation_case(ctx, case)
    else:
        (run_equal_size if case.get("equal_size") else run_case)(ctx, case)
    for f in ctx.failures:
        print(f"{f['kind']}: {f['tag']}: {f['what'][:300]}")
    if ctx._model:
        ctx._model.close()
    return 1 if ctx.failures else 0
