"""C12 — a calculation depends only on its own inputs, not on earlier runs.

Histories of 2-4 calculations on ONE system object (electric, mechanical, hybrid, mechanical with
electric, and through the RunFeemsSim front end `MachineryCalculation`), with changes of loads,
statuses, breaker positions, sharing modes and series length between them and interleaved result
queries (totals, emissions, mass fractions, protobuf export).  After every calculation:
 (i)   the balance outputs are compared with the Lean model of that plant type;
 (ii)  balance outputs and results are compared with a *fresh* object given the same inputs;
 (iii) the arrays the caller handed in are compared with snapshots taken before the call;
 (iv)  repeating the calculation and re-reading the results gives identical figures.
"""
from __future__ import annotations

import copy
import json

import numpy as np
import pandas as pd

from .. import core, plants, result_common as R, elec_common as E, mech_common as M
from ..core import close
from . import c19
from feems.fuel import FuelSpecifiedBy
from feems.components_model.utility import IntegrationMethod

THEOREMS = ["non_interference", "fresh_object", "after_any_history", "idempotent", "rebalance", "queries_pure", "query_twice",
            "interleaved_queries", "filter_afterBalance", "modeLen_afterBalance", "numberPoints_no_trace", "numberPoints_legacy_trace"]


def results_differ(a, b, tol=1e-9):
    out = []
    for side in a:
        oa, ob = R.observe_result(a[side]), R.observe_result(b[side])
        out += [f"{side}:{f}" for f in c19.equiv(oa, ob) if f not in ("detail",)]
        if oa["detail_names"] != ob["detail_names"]:
            out.append(f"{side}:detail-rows")
    return out


def outputs_of(plant, case):
    obs = {}
    if plant.electric is not None:
        obs.update({"e:" + k: v for k, v in E.observe(plant, R.elec_inputs(case)).items()})
    if plant.mechanical is not None:
        obs.update({"m:" + k: v for k, v in M.observe(plant, R.mech_inputs(case)).items()})
    return obs


def outputs_differ(a, b, scale=1000.0):
    bad = []
    for k in a:
        for f in a[k]:
            x, y = np.asarray(a[k][f], dtype=float), np.asarray(b[k][f], dtype=float)
            if x.shape != y.shape or not all(close(p, q, scale=scale) or (not np.isfinite(p) and not np.isfinite(q)) for p, q in zip(x, y)):
                bad.append(f"{k}.{f}")
    return bad


def caller_arrays(plant):
    """(component, attribute) -> the array object currently held, for the attributes a caller sets directly"""
    out = {}
    for name, obj in plant.by_name.items():
        for attr in ("status", "load_sharing_mode", "power_input", "power_output", "full_pti_mode"):
            v = getattr(obj, attr, None)
            if isinstance(v, np.ndarray):
                out[(name, attr)] = v
    return out


def series_lengths(plant):
    """lengths of the input series as they are held in the real objects just before a balance"""
    es = plant.electric
    consumers = [int(np.size(c.power_input)) for c in es.other_load + es.propulsion_drives]
    units = [{"mode_len": int(np.size(u.load_sharing_mode)), "shares_always": bool(np.all(np.asarray(u.load_sharing_mode) == 0)),
              "power_len": int(np.size(u.power_input))} for u in es.energy_storage + es.pti_pto]
    return {"consumers": max(consumers, default=1), "status": [int(np.size(s.status)) for s in es.power_sources] + [int(np.size(s.load_sharing_mode)) for s in es.power_sources]
            + [int(np.size(u.status)) for u in es.energy_storage + es.pti_pto], "units": units,
            "breakers": [int(np.size(b.status)) for b in es.bus_tie_breakers]}


def queries(ctx, plant, case, res, where):
    """read-only queries; returns nothing, reports if reading twice differs"""
    for side, r in res.items():
        fc = r.multi_fuel_consumption_total_kg
        try:
            from feems.fuel import FuelConsumerClassFuelEUMaritime as Cls
            a1 = fc.get_total_co2_emissions(fuel_consumer_class=Cls.ICE)
            _ = fc.fuel_by_mass_fraction
            _ = r.fuel_consumption_total_kg
            a2 = fc.get_total_co2_emissions(fuel_consumer_class=Cls.ICE)
        except Exception as e:       # FuelEU factors of a gas fuel need the gas engine's class
            ctx.count("query_rejected", core.error_class(e))
            continue
        if not close(a1.tank_to_wake_kg_or_gco2eq_per_gfuel, a2.tank_to_wake_kg_or_gco2eq_per_gfuel):
            ctx.fail("predicate", "query-changes-answer", f"{side}: emissions {a1} then {a2}", where)
    if case["kind"] in ("electric", "hybrid", "mech_elec"):
        try:
            from MachSysS.convert_feems_result_to_proto import FEEMSResultProtoConverter as Conv
        except Exception:
            Conv = None
        if Conv is not None:
            full = res["electric"] if case["kind"] == "electric" else None
            if full is None:
                from feems.system_model import FEEMSResultForMachinerySystem
                full = FEEMSResultForMachinerySystem(electric_system=res["electric"], mechanical_system=res["mechanical"])
            try:
                p1 = Conv(feems_result=full, system_feems=plant.system).get_feems_result_proto(include_time_series_for_components=False)
                p2 = Conv(feems_result=full, system_feems=plant.system).get_feems_result_proto(include_time_series_for_components=False)
                if p1.SerializeToString(deterministic=True) != p2.SerializeToString(deterministic=True):
                    ctx.fail("predicate", "export-twice-differs", "two exports of one result differ", where)
                ctx.count("query", "protobuf-export")
            except Exception as e:
                ctx.count("export_rejected", core.error_class(e))


def same_configurations_other_times(rng, breaker):
    """A breaker series that passes through the same sequence of configurations as `breaker` (rows = breakers) but
    switches at other points of the series, possibly of another length. None when the series never switches."""
    if not breaker or len(breaker[0]) < 2:
        return None
    cols = [tuple(row[t] for row in breaker) for t in range(len(breaker[0]))]
    seq = [c for t, c in enumerate(cols) if t == 0 or c != cols[t - 1]]
    if len(seq) < 2:
        return None
    old_runs = [sum(1 for _ in g) for g in _runs(cols)]
    for _ in range(20):
        n_new = len(seq) + int(rng.integers(0, 4))
        cuts = sorted(int(x) for x in rng.choice(range(1, n_new), size=len(seq) - 1, replace=False)) if n_new > 1 else []
        runs = [b - a for a, b in zip([0] + cuts, cuts + [n_new])]
        if runs != old_runs:
            break
    new_cols = [c for c, r in zip(seq, runs) for _ in range(r)]
    return [[bool(col[i]) for col in new_cols] for i in range(len(breaker))]


def _runs(cols):
    out, cur = [], []
    for c in cols:
        if cur and c != cur[-1]:
            out.append(cur)
            cur = []
        cur.append(c)
    if cur:
        out.append(cur)
    return out


def gen_history(rng, idx):
    kind = str(rng.choice(["electric", "electric", "mechanical", "hybrid", "mech_elec"]))
    base = R.gen_plant_case(rng, idx, kind=kind)
    calcs = [base["inputs"]]
    for _ in range(int(rng.integers(1, 4))):
        nxt = R.gen_plant_case(rng, idx, kind=kind)         # only to draw input shapes; re-draw inputs for the SAME spec
        # the same breaker configurations in the same order as the calculation before, switched at other times
        shifted = same_configurations_other_times(rng, calcs[-1].get("breaker")) if (kind != "mechanical" and rng.random() < 0.35) else None
        n_forced = (calcs[-1]["n"] if rng.random() < 0.5 else None) if shifted is None else len(shifted[0])
        if kind == "electric":
            inp = E.gen_inputs(rng, base["spec"], n=n_forced, capacity_ok=True)
        elif kind == "mechanical":
            inp = M.gen_inputs(rng, base["spec"], engines_ok=True)
        else:
            ein = E.gen_inputs(rng, base["spec"], n=n_forced, capacity_ok=True)
            mi = M.gen_inputs(rng, base["spec"], n=ein["n"], engines_ok=True)
            for c in base["spec"]["electric"]:
                if c["kind"] == "pti_pto":
                    ein["comp"][c["name"]]["mode"] = [1.0] * ein["n"]
                    ein["comp"][c["name"]]["status"] = [True] * ein["n"]
            inp = {"n": ein["n"], "dt": ein["dt"], "breaker": ein["breaker"], "comp": ein["comp"], "mech": mi["comp"],
                   "flags": {k: v for k, v in ein.items() if k not in ("n", "dt", "breaker", "comp")},
                   "mech_flags": {k: v for k, v in mi.items() if k not in ("n", "dt", "comp")}}
        if kind != "mechanical" and shifted is None and inp["n"] != calcs[-1]["n"] and inp["n"] > 1 and rng.random() < 0.5:
            # a later calculation of another length whose consumers are all constants held as one value, next to load-sharing storage /
            # PTI/PTO units: the length of the series is then that of the status series alone - nothing the calculation before left
            # in the objects may decide it (D89)
            fl = inp.get("flags", inp)
            fl["constants_single"] = True
            for c in base["spec"]["electric"]:
                d = inp["comp"][c["name"]]
                if "load" in d:
                    d["load"] = [d["load"][0]] * inp["n"]
                if c["kind"] not in E.SOURCE_KINDS and "mode" in d and c["kind"] != "pti_pto":
                    d["mode"] = [0.0] * inp["n"]
            core.axis("later_calculation", "other length, consumers all constant")
        if kind != "mechanical" and inp["n"] == calcs[-1]["n"] and rng.random() < 0.6:
            inp["breaker_table_in_place"] = True           # same series length: the breaker table of the calculation before is updated in place
            if "flags" in inp:
                inp["flags"]["breaker_table_in_place"] = True
            fl = inp.get("flags", inp)
            fl.setdefault("dtype", {})["breaker"] = (calcs[-1].get("flags", calcs[-1]).get("dtype", {}) or {}).get("breaker", "bool")
        if shifted is not None:
            inp["breaker"] = shifted
            inp["shifted_breakers"] = True
        elif rng.random() < 0.3:
            inp = copy.deepcopy(calcs[-1])                # the same calculation again
        calcs.append(inp)
    fuel_eu_ok = not any(c["kind"] == "coges" for c in base["spec"].get("electric", []))       # no FuelEU class for COGAS
    return {"idx": idx, "kind": kind, "spec": base["spec"], "calcs": calcs, "query_between": [bool(rng.random() < 0.6) for _ in calcs],
            "spec_by": [str(rng.choice(["IMO", "FUEL_EU_MARITIME"])) if fuel_eu_ok else "IMO" for _ in calcs]}


def run_history(ctx, hist, model=True):
    where = {"case": hist}
    ctx.count("plant", hist["kind"])
    ctx.count("calculations", len(hist["calcs"]))
    ctx.count("same_breaker_configurations_other_times", any(c.get("shifted_breakers") for c in hist["calcs"]))
    try:
        plant = plants.Plant(hist["spec"])
    except Exception as e:
        ctx.count("rejected", core.error_class(e))
        ctx.fail("predicate", "plant-refused-" + core.error_class(e), f"{type(e).__name__}: {e}", where)
        return False
    ok = False
    for k, inp in enumerate(hist["calcs"]):
        case = {"idx": hist["idx"], "kind": hist["kind"], "spec": hist["spec"], "inputs": inp}
        sb = FuelSpecifiedBy[(hist.get("spec_by") or ["IMO"] * len(hist["calcs"]))[k]]
        ctx.count("factors", sb.name)
        try:
            # apply the inputs, remember the caller's arrays, balance on the REUSED object
            if hist["kind"] == "electric":
                E.apply_inputs(plant, inp)
            elif hist["kind"] == "mechanical":
                M.apply_inputs(plant, inp)
            else:
                E.apply_inputs(plant, R.elec_inputs(case))
                M.apply_inputs(plant, R.mech_inputs(case))
            held = caller_arrays(plant)
            snap = {key: arr.copy() for key, arr in held.items()}
            lens = series_lengths(plant) if (hist["kind"] == "electric" and model and ctx.model_available) else None
            if hist["kind"] == "electric":
                plant.electric.do_power_balance_calculation()
                if lens is not None:
                    # the number of points of this balance follows from the lengths of the INPUTS held just before it (model
                    # `History.numberPoints`) - not from what the balance before left in the objects (D89)
                    want = ctx.model.call("validate.number_points", **lens)
                    got = max(int(np.size(src.power_output)) for src in plant.electric.power_sources)
                    ctx.count("number_of_points_compared", "first" if k == 0 else "later calculation")
                    if want != got:
                        ctx.fail("correspondence", "number-of-points", f"calculation {k}: model {want} points from the input lengths {lens}, the balance ran with {got}", where)
            elif hist["kind"] == "mechanical":
                plant.mechanical.do_power_balance()
            else:
                plant.system.do_power_balance_calculation()
            out_reused = outputs_of(plant, case)
            res_reused = R.system_results(plant, case, sb)
        except Exception as e:
            # the same inputs on a fresh object must be rejected as well
            try:
                R.run_plant(case)
                ctx.fail("predicate", "reused-object-rejects-what-fresh-accepts", f"calculation {k}: {type(e).__name__}: {e}", where)
            except Exception:
                ctx.count("rejected_both", core.error_class(e))
            continue
        finite = all(np.all(np.isfinite(v)) for o in out_reused.values() for v in o.values())
        if not finite:
            ctx.count("skipped", "bus-without-capacity")
            continue
        ok = True
        # (iii) the caller's arrays
        for key, arr in held.items():
            if key[1] in ("power_output",) and hist["kind"] != "mechanical" and not key[0].startswith("pti"):
                continue        # power_output of sources is an output, not a caller array
            if not np.array_equal(arr, snap[key], equal_nan=True):
                site = {"status": "engine-status", "power_input": "storage-or-pti-input", "power_output": "pti-shaft-power"}.get(key[1], key[1])
                if key[1] == "power_output" and not key[0].startswith("pti"):
                    continue
                ctx.fail("predicate", "caller-array-overwritten-" + site, f"calculation {k}: {key[0]}.{key[1]} was {snap[key]} is now {arr}", where)
        # (ii) fresh object, same inputs
        fresh = R.run_plant(case)
        out_fresh = outputs_of(fresh, case)
        res_fresh = R.system_results(fresh, case, sb)
        bad = outputs_differ(out_reused, out_fresh)
        if bad:
            ctx.fail("predicate", "trace-of-earlier-calculation-in-balance", f"calculation {k}: reused object differs from a fresh one in {bad[:5]}", where)
        bad = results_differ(res_reused, res_fresh)
        if bad:
            ctx.fail("predicate", "trace-of-earlier-calculation-in-result", f"calculation {k}: {bad[:5]}", where)
        # (iv) reading the result again / after queries, and repeating the balance
        if hist["query_between"][k]:
            queries(ctx, plant, case, res_reused, where)
            ctx.count("query", "totals+emissions+fractions")
        try:      # the same balanced state read under the other set of factors in between (not offered for every fuel)
            R.system_results(plant, case, FuelSpecifiedBy.FUEL_EU_MARITIME if sb == FuelSpecifiedBy.IMO else FuelSpecifiedBy.IMO)
            ctx.count("query", "other-factor-set")
        except Exception:
            pass
        try:
            res_again = R.system_results(plant, case, sb)
        except Exception as e:
            ctx.fail("predicate", "reading-results-again-raises-" + core.error_class(e), f"calculation {k}: the result could be read once, the second reading raises {type(e).__name__}: {e}", where)
            continue
        bad = results_differ(res_reused, res_again)
        if bad:
            ctx.fail("predicate", "reading-results-changes-them", f"calculation {k}: {bad[:5]}", where)
        if hist["kind"] != "hybrid":       # hybrid: the PTI/PTO's own input is rewritten from its shaft power (C05's round trip)
            if hist["kind"] == "electric":
                plant.electric.do_power_balance_calculation()
            elif hist["kind"] == "mechanical":
                plant.mechanical.do_power_balance()
            else:
                plant.system.do_power_balance_calculation()
            bad = outputs_differ(out_reused, outputs_of(plant, case))
            if bad:
                ctx.fail("predicate", "repeated-balance-differs", f"calculation {k}: {bad[:5]}", where)
        # (i) model
        if model and ctx.model_available:
            if plant.electric is not None and hist["kind"] in ("electric", "mech_elec"):
                E.compare_with_model(ctx, hist["spec"], R.elec_inputs(case), E.observe(fresh, R.elec_inputs(case)), where, tagprefix="reuse-")
            if plant.mechanical is not None and hist["kind"] in ("mechanical", "mech_elec"):
                M.compare_with_model(ctx, hist["spec"], R.mech_inputs(case), M.observe(fresh, R.mech_inputs(case)), where, tagprefix="reuse-")
    return ok


# ---------------------------------------------------------------- the front end

def run_frontend_history(ctx, rng, idx):
    from RunFeemsSim.machinery_calculation import MachineryCalculation
    spec = plants.gen_electric_plant(rng, n_swb=int(rng.choice([1, 2])), with_pti=False, with_storage=False,
                                     source_kinds=("genset", "generator"))
    kind = str(rng.choice(["electric", "mech_elec"], p=[0.5, 0.5]))
    if kind == "electric":
        if not any(c["kind"] == "drive" for c in spec["electric"]):
            spec["electric"].append(plants.gen_serial_spec(rng, "drive", "drive_x", spec["electric"][0]["swb"], 800.0))
        total = sum(c["rated"] for c in spec["electric"] if c["kind"] in E.SOURCE_KINDS)
    else:       # conventional vessel: main engines drive the propellers, the electric plant carries the hotel load
        mech, _, ids = plants.gen_mech_components(rng, n_lines=int(rng.choice([1, 2])), force_pti=False)
        spec = dict(spec, type="mech_elec", lines=ids)
        spec["electric"] = [c for c in spec["electric"] if c["kind"] != "drive"]
        if not any(c["kind"] == "other_load" for c in spec["electric"]):
            spec["electric"].append({"kind": "other_load", "name": "load_x", "swb": spec["electric"][0]["swb"], "rated": 500.0, "curve": [0.97]})
        if rng.random() < 0.6:       # constant-efficiency propellers map 0 kW to exactly 0 kW (an interpolated one to 1e-16)
            for c in mech:
                if c["kind"] == "mech_load":
                    c["curve"] = [float(np.round(rng.uniform(0.9, 1.0), 3))]
        spec["mechanical"] = mech
        total = sum(c["rated"] for c in mech if c["kind"] == "main_engine")
    n_other = sum(1 for c in spec["electric"] if c["kind"] == "other_load")
    etotal = sum(c["rated"] for c in spec["electric"] if c["kind"] in E.SOURCE_KINDS)
    profiles = []
    for _ in range(int(rng.integers(2, 5))):
        n = int(rng.integers(1, 6)) if (not profiles or rng.random() < 0.5) else len(profiles[-1]["p"])     # often the same length again
        profiles.append({"p": [0.0 if rng.random() < 0.15 else float(np.round(rng.uniform(0, 0.5) * total, 1)) for _ in range(n)],
                         "dt": [float(rng.choice([60.0, 600.0, 3600.0])) for _ in range(n)],
                         "aux": float(np.round(rng.uniform(0.01, 0.15) * etotal, 1)) if n_other else 0.0})
    if rng.random() < 0.5 and len(profiles) >= 2:      # a quay sample in one run, load at the same place of the next run of the same length
        n0 = len(profiles[0]["p"])
        j = int(rng.integers(n0))
        profiles[0]["p"][j] = 0.0
        profiles[1]["p"] = [float(np.round(rng.uniform(0.05, 0.5) * total, 1)) for _ in range(n0)]
        profiles[1]["dt"] = [float(rng.choice([60.0, 600.0, 3600.0])) for _ in range(n0)]
    where = {"case": {"kind": "frontend", "spec": spec, "profiles": profiles}}
    ctx.count("plant", "frontend-" + kind)
    try:
        plant = plants.Plant(spec)
        mc = MachineryCalculation(feems_system=plant.system)
    except Exception as e:
        ctx.count("rejected", core.error_class(e))
        return
    for k, pr in enumerate(profiles):
        def calc(m):
            return m.calculate_machinery_system_output_from_statistics(propulsion_power=np.array(pr["p"]), frequency=np.array(pr["dt"]),
                                                                       auxiliary_power_kw=pr["aux"], fuel_specified_by=FuelSpecifiedBy.IMO)
        try:
            r1 = calc(mc)
        except Exception as e:
            try:
                calc(MachineryCalculation(feems_system=plants.Plant(spec).system))
                ctx.fail("predicate", "reused-front-end-rejects-what-fresh-accepts", f"profile {k}: {type(e).__name__}: {e}", where)
            except Exception:
                ctx.count("rejected_both", core.error_class(e))
            continue
        r2 = calc(MachineryCalculation(feems_system=plants.Plant(spec).system))
        from .c16 import res_obs
        for side, o1 in res_obs(r1).items():
            o2 = res_obs(r2)[side]
            if not all(np.isfinite(o1["ext"])):
                continue
            bad = [f for f in c19.equiv(o1, o2) if f != "detail"]
            if bad:
                ctx.fail("predicate", "trace-of-earlier-calculation-in-front-end", f"profile {k} ({side}): {bad}: {[o1[b] for b in bad]} vs {[o2[b] for b in bad]}", where)
    ctx.case_done(signature=("frontend", json.dumps([c["kind"] for c in spec["electric"]]), len(profiles)))


CORPUS = core.VERIF / "corpus" / "C12"


def run(ctx):
    ctx.rule = ("histories of 2-4 calculations on one object: plants {electric x2, mechanical, hybrid, mechanical+electric} from the C10 generator, every "
                "calculation with freshly drawn loads / statuses / shares / breaker positions / series length (30% an exact repeat), result queries "
                "(totals, CO2, mass fractions, protobuf export) after 60% of them; plus 2-4 profiles through one MachineryCalculation object; "
                "non-trivial = at least one accepted calculation on the reused object; distinct by (plant layout, history shape)")
    ctx.assumptions += ["the front end is exercised on plants with <= 1 bus-tie breaker (its default PMS hard-codes one; C16 covers that)"]
    cases = []
    if CORPUS.exists():
        cases += [json.loads(p.read_text()) for p in sorted(CORPUS.glob("*.json"))]
    ncorp = len(cases)
    cases += [gen_history(ctx.rng, i) for i in range(ctx.n(50, 1200))]
    for ci, h in enumerate(cases):
        ok = run_history(ctx, h)
        sig = (h["kind"], json.dumps([(c["kind"]) for c in h["spec"].get("electric", []) + h["spec"].get("mechanical", [])]), tuple(c["n"] for c in h["calcs"]))
        ctx.case_done(signature=sig if ok else None, sample={"kind": h["kind"], "series_lengths": [c["n"] for c in h["calcs"]], "queries": h["query_between"]} if ci in (ncorp, ncorp + 1) else None)
    for i in range(ctx.n(50, 400)):
        run_frontend_history(ctx, ctx.rng, i)
    ctx.extra["corpus_cases"] = ncorp


def search(ctx):
    for i in range(400):
        run_history(ctx, gen_history(ctx.rng, 100_000 + i), model=False)
        if any(f["kind"] == "predicate" and not ctx.is_known(f) for f in ctx.failures):
            return


def replay(data):
    ctx = core.Ctx("C12", "quick", data.get("seed", 0))
    ctx.model_available = core.DRIVER.exists()
    case = data["case"]["case"]
    if case.get("kind") == "frontend":
        print("front-end history; rerun ./check C12")
        return 1
    run_history(ctx, case)
    for f in ctx.failures:
        print(f"{f['kind']}: {f['tag']}: {f['what'][:300]}")
    if ctx._model:
        ctx._model.close()
    return 1 if ctx.failures else 0
