"""C02 — bus grouping equals connectivity through closed bus-tie breakers.

Correspondence: real `ElectricPowerSystem` objects with 1-7 switchboards (arbitrary positive ids),
arbitrary breaker graphs (chains, stars, rings, parallel breakers, disconnected pairs) in random
declaration order and orientation, and open/closed status series; `switchboard2bus`, `no_bus`,
`bus_configuration_change_index` after `set_bus_tie_status_all` / `set_bus_tie_status` against
`Feems.Bus` (partitions compared as partitions, never by bus number).
Predicate on the implementation alone: an independent union-find over the breakers closed at each
step gives the partition the map used for that step must have, and the number of groups.
Thorough tier: every simple graph on <= 4 switchboards x every declaration order x orientation.
"""
from __future__ import annotations

import itertools
import json

import numpy as np

from .. import core
from feems.components_model.component_electric import ElectricMachine
from feems.system_model import ElectricPowerSystem
from feems.types_for_feems import TypeComponent, TypePower, Power_kW, Speed_rpm, SwbId

THEOREMS = ["step_inv", "grouping_from", "grouping", "order_free", "orientation_free", "count", "renumber_iff",
            "renumber_range", "busMap_iff", "noBus_le", "bus_sum_defined", "single_bus_is_one", "legacy_single_undefined", "change_at_step", "grouping_at_step",
            "legacy_out_of_order_chain", "legacy_ring_zero_buses", "legacy_join_groups_refused",
            "setStatus_refusal_is_total", "setStatus_accepted", "setStatus_legacy_half_updated"]


def make_system(swbs, ends):
    comps = [ElectricMachine(type_=TypeComponent.GENERATOR, name=f"gen{s}", rated_power=Power_kW(1000.0),
                             rated_speed=Speed_rpm(1000.0), power_type=TypePower.POWER_SOURCE, switchboard_id=SwbId(s))
             for s in swbs]
    return ElectricPowerSystem("c02", comps, [(SwbId(a), SwbId(b)) for a, b in ends])


def union_find(swbs, ends, closed):
    parent = {s: s for s in swbs}

    def find(x):
        while parent[x] != x:
            parent[x] = parent[parent[x]]
            x = parent[x]
        return x
    for (a, b), c in zip(ends, closed):
        if c:
            parent[find(a)] = find(b)
    groups = {}
    for s in swbs:
        groups.setdefault(find(s), set()).add(s)
    return frozenset(frozenset(g) for g in groups.values())


def partition_of(mapping):
    groups = {}
    for s, b in mapping.items():
        groups.setdefault(b, set()).add(int(s))
    return frozenset(frozenset(g) for g in groups.values())


def gen_case(rng, idx):
    # also plants with more than eight breakers (a status column then no longer fits one byte)
    n_swb = int(rng.choice([1, 2, 3, 4, 5, 6, 7, 9, 10, 12], p=[0.05, 0.13, 0.22, 0.18, 0.13, 0.09, 0.08, 0.04, 0.04, 0.04]))
    if rng.random() < 0.5:
        swbs = list(range(1, n_swb + 1))
    else:
        swbs = sorted(int(x) for x in rng.choice(range(1, 30), size=n_swb, replace=False))
    shape = str(rng.choice(["chain", "star", "ring", "random", "pairs", "parallel"]))
    ends = []
    if n_swb >= 2:
        perm = [swbs[i] for i in rng.permutation(n_swb)]
        if shape == "chain":
            ends = list(zip(perm, perm[1:]))
        elif shape == "star":
            ends = [(perm[0], p) for p in perm[1:]]
        elif shape == "ring":
            ends = list(zip(perm, perm[1:])) + ([(perm[-1], perm[0])] if n_swb > 2 else [])
        elif shape == "pairs":
            ends = [(perm[i], perm[i + 1]) for i in range(0, n_swb - 1, 2)]
        elif shape == "parallel":
            ends = list(zip(perm, perm[1:])) + [(perm[1], perm[0])]
        else:
            allp = list(itertools.combinations(swbs, 2))
            k = int(rng.integers(1, min(len(allp), 8 if n_swb < 7 else 16) + 1))
            ends = [allp[i] for i in rng.choice(len(allp), size=k, replace=False)]
        ends = [(b, a) if rng.random() < 0.5 else (a, b) for a, b in ends]
        ends = [ends[i] for i in rng.permutation(len(ends))]
        if shape == "pairs" and len(set(x for e in ends for x in e)) < n_swb:
            # every switchboard must be reachable by construction rules of the class? no: isolated ones are allowed
            pass
    n = int(rng.choice([1, 2, 3, 5, 8]))
    p_closed = float(rng.choice([0.3, 0.6, 0.9]))
    status = [[bool(rng.random() < p_closed) for _ in range(n)] for _ in ends]
    if rng.random() < 0.4 and n > 1:        # long constant stretches so that change indices are sparse
        for row in status:
            for t in range(1, n):
                if rng.random() < 0.7:
                    row[t] = row[t - 1]
    if ends and n > 1 and rng.random() < 0.3:          # one breaker operated per step, the others stay as they are
        for t in range(1, n):
            j = int(rng.integers(0, len(ends)))
            for i, row in enumerate(status):
                row[t] = (not row[t - 1]) if i == j else row[t - 1]
    second = [[bool(rng.random() < 0.5) for _ in range(n)] for _ in ends] if (ends and rng.random() < 0.5) else None
    api = str(rng.choice(["all", "each"]))
    if api == "each" and len(ends) >= 2 and n > 1 and rng.random() < 0.35:
        # only some breakers are operated; the others keep the single value they were built with (closed) - D51
        keep = set(int(i) for i in rng.choice(len(ends), size=int(rng.integers(1, len(ends))), replace=False))
        status = [row if i in keep else [True] for i, row in enumerate(status)]
        second = None
    return {"idx": idx, "swbs": swbs, "ends": [list(e) for e in ends], "status": status, "n": n, "shape": shape, "second": second,
            "api": api, "dtype": str(rng.choice(["bool", "int", "float"], p=[0.5, 0.25, 0.25]))}


def verify(ctx, sys_, swbs, ends, status, n, where, model, label):
    """predicates + correspondence for the configuration now held by the system; False when malformed"""
    idx = [int(i) for i in sys_.bus_configuration_change_index]
    maps = [{int(k): int(v) for k, v in m.items()} for m in sys_.switchboard2bus]
    no_bus = [int(x) for x in sys_.no_bus]
    # ---- predicate: per step, the period's map must be the connectivity partition of that step
    if not ends:
        n_eff = 1
    else:
        n_eff = n
    if len(maps) != len(idx) or len(no_bus) != len(idx) or (idx and idx[0] != 0) or idx != sorted(set(idx)):
        ctx.fail("predicate", "change-index-malformed", f"{label}change index {idx}, {len(maps)} maps, {len(no_bus)} counts", where)
        return False
    for t in range(n_eff):
        period = max(i for i, s in enumerate(idx) if s <= t)
        closed = [row[t] if len(row) > 1 else row[0] for row in status] if ends else []
        want = union_find(swbs, ends, closed)
        got = partition_of(maps[period])
        if got != want:
            ctx.fail("predicate", "grouping-not-connectivity",
                     f"{label}step {t}: closed {closed} of {ends}: buses {sorted(map(sorted, got))} expected {sorted(map(sorted, want))}", where)
            break
        if no_bus[period] != len(want):
            ctx.fail("predicate", "bus-count", f"{label}step {t}: no_bus {no_bus[period]} for {len(want)} groups", where)
            break
        ids = sorted(set(maps[period].values()))
        if ids != list(range(1, len(ids) + 1)):
            ctx.count("bus_ids_not_consecutive")
    # ---- correspondence
    if model and ctx.model_available:
        out = ctx.model.call("bus.config", swbs=swbs, ends=[list(e) for e in ends], status=status, n=n_eff)
        if out["change_idx"] != idx:
            ctx.fail("correspondence", "change-index", f"{label}model {out['change_idx']} impl {idx}", where)
        else:
            for i, per in enumerate(out["periods"]):
                if partition_of({a: b for a, b in per["map"]}) != partition_of(maps[i]):
                    ctx.fail("correspondence", "partition", f"period {i}: model {per['map']} impl {maps[i]}", where)
                    break
                if per["no_bus"] != no_bus[i]:
                    ctx.fail("correspondence", "bus-count", f"period {i}: model {per['no_bus']} impl {no_bus[i]}", where)
                    break
                # the numbers themselves: 1..k in order of first appearance (the balance keeps its sums under these numbers, D26)
                if {a: b for a, b in per["map"]} != maps[i]:
                    ctx.fail("correspondence", "bus-numbering", f"period {i}: model {per['map']} impl {maps[i]}", where)
                    break
    return True


def run_case(ctx, case, model=True):
    swbs, ends, status, n = case["swbs"], [tuple(e) for e in case["ends"]], case["status"], case["n"]
    where = {"case": case}
    ctx.count("shape", case["shape"])
    ctx.count("n_switchboards", len(swbs))
    try:
        sys_ = make_system(swbs, ends)
    except Exception as e:
        if len(swbs) > 1 and not ends:
            ctx.count("rejected", "several-switchboards-no-breaker")
            return False
        tag = "grouping-raises-" + core.error_class(e)
        ctx.fail("predicate", tag, f"constructor (all breakers closed) raised {type(e).__name__}: {e}", where)
        return False
    dt = {"bool": bool, "int": int, "float": float}[case.get("dtype", "bool")]
    partial = any(len(row) != n for row in status)
    ctx.count("breakers_operated", "some" if partial else "all")
    table = np.array(status, dtype=dt).T.reshape(n, len(ends)) if (ends and not partial) else None
    rows = [np.array(row, dtype=dt) for row in status]

    def assign():
        if case["api"] == "all":
            sys_.set_bus_tie_status_all(table)
        else:
            # a breaker that is not operated keeps one value: handed over in the same call as the operated ones on every second case
            # (D92: the setter compared every length with that of the first tuple), left at its default on the others
            together = partial and case.get("idx", 0) % 2 == 0
            core.axis("constant_breakers", "in the same call" if together else ("left alone" if partial else "none"))
            sys_.set_bus_tie_status([(i + 1, r) for i, r in enumerate(rows) if len(r) == n or not partial or together])
    if ends:
        ctx.count("status_dtype", case.get("dtype", "bool"))
        try:
            assign()
        except Exception as e:
            ctx.fail("predicate", "grouping-raises-" + core.error_class(e), f"set_bus_tie_status raised {type(e).__name__}: {e}", where)
            return False
    if not verify(ctx, sys_, swbs, ends, status, n, where, model, "") or not ends or not case.get("second"):
        return True
    # the caller updates its own status table in place and hands it over again: the new positions take effect
    status2 = case["second"]
    table[:, :] = np.array(status2, dtype=dt).T.reshape(n, len(ends))
    for r, row in zip(rows, status2):
        r[:] = np.array(row, dtype=dt)
    ctx.count("second_assignment", "same-arrays-updated-in-place")
    try:
        assign()
    except Exception as e:
        ctx.fail("predicate", "grouping-raises-" + core.error_class(e), f"second set_bus_tie_status raised {type(e).__name__}: {e}", where)
        return False
    verify(ctx, sys_, swbs, ends, status2, n, where, model, "after the table was updated in place and handed over again: ")
    return True


CORPUS = core.VERIF / "corpus" / "C02"


def exhaustive_cases():
    """every simple graph on <= 4 switchboards, every declaration order, every orientation, all closed/one open."""
    for k in (2, 3, 4):
        swbs = list(range(1, k + 1))
        pairs = list(itertools.combinations(swbs, 2))
        for r in range(1, len(pairs) + 1):
            for edges in itertools.combinations(pairs, r):
                if r > 4:
                    orders = [edges, edges[::-1]]
                else:
                    orders = itertools.permutations(edges)
                for order in orders:
                    for flips in itertools.product([False, True], repeat=len(order)) if len(order) <= 3 else [tuple([False] * len(order)), tuple([True] * len(order)), tuple(i % 2 == 0 for i in range(len(order)))]:
                        ends = [[b, a] if f else [a, b] for (a, b), f in zip(order, flips)]
                        # two steps: all closed, then the first breaker open
                        status = [[True, i != 0] for i in range(len(ends))]
                        yield {"idx": -1, "swbs": swbs, "ends": ends, "status": status, "n": 2, "shape": "exhaustive", "api": "all"}


def run_setter_case(ctx, rng, idx, case=None):
    """`set_bus_tie_status([(number, row), …])` as a state machine: rows of one common length and rows of one value are accepted and all
    assigned; anything else is refused and leaves every breaker as it was (model `Bus.setStatus`, D92)."""
    if case is None:
        k = int(rng.integers(2, 5))
        n = int(rng.integers(2, 6))
        numbers = [int(x) + 1 for x in rng.permutation(k)][:int(rng.integers(1, k + 1))]
        kind = str(rng.choice(["series", "series+constants", "two lengths"], p=[0.3, 0.45, 0.25]))
        updates = []
        for j, b in enumerate(numbers):
            ln = n
            if kind == "series+constants" and rng.random() < 0.5:
                ln = 1
            if kind == "two lengths" and j == len(numbers) - 1:
                ln = n + 1
            updates.append({"number": b, "row": [bool(rng.random() < 0.6) for _ in range(ln)]})
        case = {"kind": "setter", "k": k, "updates": updates, "variant": kind}
    where = {"case": case}
    k, updates = case["k"], case["updates"]
    ctx.count("setter_call", case["variant"])
    sys_ = make_system(list(range(1, k + 2)), [(i, i + 1) for i in range(1, k + 1)])
    before = [[bool(x) for x in b.status] for b in sys_.bus_tie_breakers]
    try:
        sys_.set_bus_tie_status([(u["number"], np.array(u["row"], dtype=bool)) for u in updates])
        after = [[bool(x) for x in b.status] for b in sys_.bus_tie_breakers]
    except IndexError:
        after = None
        left = [[bool(x) for x in b.status] for b in sys_.bus_tie_breakers]
        if left != before:
            ctx.fail("predicate", "refused-setter-call-changes-breakers", f"the call was refused, yet the breakers changed: {before} -> {left}", where)
    except Exception as e:
        ctx.fail("predicate", "grouping-raises-" + core.error_class(e), f"set_bus_tie_status raised {type(e).__name__}: {e}", where)
        return
    lens = {len(u["row"]) for u in updates} - {1}
    if len(lens) <= 1 and after is None:
        ctx.fail("predicate", "setter-refuses-constant-next-to-series", f"rows of lengths {[len(u['row']) for u in updates]} refused", where)
    if ctx.model_available:
        m = ctx.model.call("bus.set_status", cur=before, updates=updates)
        if m != after:
            ctx.fail("correspondence", "set-status", f"model {m} impl {after}", where)
    ctx.case_done(signature=("setter", json.dumps(updates)))


def run(ctx):
    for i in range(ctx.n(60, 600)):
        run_setter_case(ctx, ctx.rng, i)
    ctx.rule = ("1-7 switchboards (ids 1..n or arbitrary), breaker graphs: chain/star/ring/random/pairs/parallel in random "
                "declaration order and orientation, status series of 1-8 steps (closed with p in {.3,.6,.9}, 40% with long constant "
                "stretches); both status-setting APIs; thorough: all simple graphs on <=4 switchboards x orders x orientations; "
                "non-trivial = at least one breaker; distinct by (switchboards, breaker list, status matrix)")
    ctx.assumptions += ["bus numbers are compared as partitions only (the property does not fix the numbering)"]
    cases = []
    if CORPUS.exists():
        cases += [json.loads(p.read_text()) for p in sorted(CORPUS.glob("*.json"))]
    ncorp = len(cases)
    cases += [gen_case(ctx.rng, i) for i in range(ctx.n(400, 5000))]
    if not ctx.quick():
        cases += list(exhaustive_cases())
        ctx.extra["exhaustive_scope"] = "all simple graphs on 2..4 switchboards, all declaration orders (<=4 edges) and orientations (<=3 edges)"
    for ci, case in enumerate(cases):
        run_case(ctx, case)
        sig = (tuple(case["swbs"]), tuple(map(tuple, case["ends"])), tuple(map(tuple, case["status"])))
        ctx.case_done(signature=sig if case["ends"] else None, sample=case if ci in (ncorp, ncorp + 1) else None)
    ctx.extra["corpus_cases"] = ncorp


def search(ctx):
    for i in range(5000):
        run_case(ctx, gen_case(ctx.rng, 100_000 + i), model=False)
        if any(f["kind"] == "predicate" and not ctx.is_known(f) for f in ctx.failures):
            return


def replay(data):
    ctx = core.Ctx("C02", "quick", data.get("seed", 0))
    ctx.model_available = core.DRIVER.exists()
    if data["case"]["case"].get("kind") == "setter":
        run_setter_case(ctx, None, 0, data["case"]["case"])
    else:
        run_case(ctx, data["case"]["case"])
    for f in ctx.failures:
        print(f"{f['kind']}: {f['tag']}: {f['what'][:300]}")
    if ctx._model:
        ctx._model.close()
    return 1 if ctx.failures else 0
