"""C14 — protobuf result export carries exactly the figures of the result.

The field lists are *data*: `Generated/ResultFields.lean` is rewritten on every run from
`dataclasses.fields(FEEMSResult)`, the compiled descriptors of `feems_result.proto`, `_COLUMN_NAMES`
and the `column_names` lists in `node.py`; `fields_covered` is re-checked against it.
Correspondence: results of electric, mechanical-with-electric and hybrid plants (multi-fuel, storage,
PTI/PTO; IMO or FuelEU factors) are exported with the real converter, serialised and parsed; the
message is compared with `Feems.Export.exportResult` of the same result, and the series time base
with `Feems.Export.timeBase`.  Predicates on the implementation alone: every figure of the result
appears in the message; one detail record per detail row with the same figures and node number; with
series requested, the records of sources, storage, PTI/PTO and main engines carry the power series
and one fuel-rate series per fuel of the input's length on the input's time base.
"""
from __future__ import annotations

import json

import numpy as np

from .. import core, plants, result_common as R, elec_common as E
from ..core import enc, dec, close
from . import c19
from feems.fuel import FuelSpecifiedBy
from feems.system_model import FEEMSResultForMachinerySystem
from feems.types_for_feems import EmissionType, TypeComponent, TypePower
import MachSysS.feems_result_pb2 as pb
import MachSysS.gymir_result_pb2 as proto_gymir
from MachSysS.convert_feems_result_to_proto import FEEMSResultConverter

THEOREMS = ["fields_covered", "readback_scalars", "readback_rest", "readback_nox", "dropped_without_counterpart", "time_base_series",
            "time_base_scalar", "time_base_input", "starts_get", "time_base_constant_step", "time_base_legacy_shifted", "series_own", "series_legacy_wrong"]
DEPENDS_ON_MODULES = ["FeemsProofs.C17"]
FUEL_CONSUMERS = (TypeComponent.GENSET, TypeComponent.FUEL_CELL_SYSTEM, TypeComponent.FUEL_CELL, TypeComponent.COGES,
                  TypeComponent.MAIN_ENGINE, TypeComponent.MAIN_ENGINE_WITH_GEARBOX)


def gen_case(rng, idx):
    kind = str(rng.choice(["electric", "electric", "mech_elec", "hybrid"]))
    n = int(rng.choice([1, 2, 4, 6]))
    case = R.gen_plant_case(rng, idx, kind=kind, n=n)
    case["spec_by"] = str(rng.choice(["IMO", "IMO", "FUEL_EU_MARITIME"]))
    case["series"] = bool(rng.random() < 0.6)
    case["time_input"] = bool(case["series"] and rng.random() < 0.4)
    case["scalar_dt"] = bool(n == 1 and rng.random() < 0.5)
    return case


def check_subsystem(ctx, side, res, msg, plant, case, where, model):
    names = c19.ext_fields()
    obs = R.observe_result(res)
    tagp = side + "-"
    # ---- predicates: the message carries the figures
    for nme, v in zip(names, obs["ext"]):
        if not hasattr(msg, nme):
            ctx.fail("predicate", "figure-not-in-message", f"{side}: no field {nme} in the message", where)
        elif not close(getattr(msg, nme), v):
            ctx.fail("predicate", "figure-differs", f"{side}: {nme}: message {getattr(msg, nme)} result {v}", where)
    if not close(msg.duration_s, obs["duration"] or 0.0):
        ctx.fail("predicate", "figure-differs", f"{side}: duration {msg.duration_s} vs {obs['duration']}", where)
    # a record may list one kind twice (main and pilot fuel of the same kind): masses per kind
    mf = c19.as_map([[f.fuel_type, f.fuel_origin, f.fuel_specified_by, f.mass_or_mass_fraction] for f in msg.multi_fuel_consumption_total_kg.fuels])
    if len(msg.multi_fuel_consumption_total_kg.fuels) != len(obs["fuel"]):
        ctx.fail("predicate", "fuel-entries-differ", f"{side}: {len(msg.multi_fuel_consumption_total_kg.fuels)} fuel entries in the message, {len(obs['fuel'])} in the result", where)
    rf = c19.as_map(obs["fuel"])
    if set(mf) != set(rf) or not all(close(mf[k], rf[k], scale=1.0) for k in rf):
        ctx.fail("predicate", "fuel-per-kind-differs", f"{side}: message {mf} result {rf}", where)
    g = msg.co2_emission_total_kg
    ttw, wtt, nos = obs["co2"]
    for nm, got, want in (("tank_to_wake", g.tank_to_wake, ttw), ("well_to_tank", g.well_to_tank, wtt), ("well_to_wake", g.well_to_wake, ttw + wtt),
                          ("tank_to_wake_without_slip", g.tank_to_wake_without_slip, nos), ("well_to_wake_without_slip", g.well_to_wake_without_slip, nos + wtt)):
        if not close(got, want, scale=max(1.0, abs(ttw))):
            ctx.fail("predicate", "co2-component-differs", f"{side}: {nm}: message {got} result {want}", where)
    nox = 0.0 if res.total_emission_kg is None else float(np.asarray(res.total_emission_kg.get(EmissionType.NOX, 0.0)).reshape(-1)[0])
    if not close(msg.nox_emission_total_kg, nox, scale=1.0):
        ctx.fail("predicate", "nox-differs", f"{side}: message {msg.nox_emission_total_kg} result {nox}", where)
    # ---- detail records
    detail = res.detail_result
    rows = [] if detail is None else list(detail.iterrows())
    if len(msg.detailed_result) != len(rows):
        ctx.fail("predicate", "detail-record-count", f"{side}: {len(msg.detailed_result)} records for {len(rows)} rows", where)
    else:
        for rec, (name, row) in zip(msg.detailed_result, rows):
            node = row["switchboard id"] if side == "electric" else row["shaftline id"]
            got_node = rec.switchboard_id if side == "electric" else rec.shaftline_id
            ok = rec.component_name == name and got_node == node and rec.component_type == row["component type"] \
                and close(rec.running_hours_h, row["running hours [h]"]) \
                and close(rec.electric_energy_consumption_mj, row["electric energy consumption [MJ]"], scale=1.0) \
                and close(rec.mechanical_energy_consumption_mj, row["mechanical energy consumption [MJ]"], scale=1.0) \
                and close(sum(f.mass_or_mass_fraction for f in rec.multi_fuel_consumption_kg.fuels),
                          float(np.sum(row["multi fuel consumption [kg]"].total_fuel_consumption)), scale=1.0) \
                and close(rec.co2_emissions_kg.tank_to_wake, float(row["CO2 emission [kg]"].tank_to_wake_kg_or_gco2eq_per_gfuel), scale=1.0)
            if side == "electric":
                ok = ok and close(rec.energy_stored_mj, row["energy_stored [MJ]"], scale=1.0)
            # NOx of the record: the row's figure; a component that emits none has an empty cell there, which is exported as 0 - never
            # as something that is not a number (a flaw of D123 turned empty cells into NaN; the seeded demonstrations saw it first)
            nox_row = row["NOx emission [kg]"] if "NOx emission [kg]" in row.index else None
            nox_want = 0.0 if nox_row is None else nox_row
            if not np.isfinite(rec.nox_emissions_kg) or not close(rec.nox_emissions_kg, float(nox_want), scale=1.0):
                ctx.fail("predicate", "detail-record-nox", f"{side}: record {rec.component_name}: NOx {rec.nox_emissions_kg} in the message, {nox_row!r} in the row", where)
            if not ok:
                ctx.fail("predicate", "detail-record-differs", f"{side}: record {rec.component_name} vs row {name}", where)
    # ---- series
    if case["series"]:
        n = case["inputs"]["n"]
        dt = np.array(case["inputs"]["dt"], dtype=float)
        # the instant from which sample k is held: 0, dt0, dt0 + dt1, ... (as the constant-step base and the epochs of an input series)
        want_time = np.concatenate([[0.0], np.cumsum(dt)[:-1]]) if not case["scalar_dt"] else np.array([0.0])
        if case["time_input"]:
            want_time = np.array(case["epochs"][:n], dtype=float)
        sysobj = plant.electric if side == "electric" else plant.mechanical
        for rec in msg.detailed_result:
            comp = plant.find(side, rec.component_name, rec.switchboard_id if side == "electric" else rec.shaftline_id, rec.component_type)
            if comp is None:
                ctx.fail("predicate", "detail-record-of-unknown-component", f"{side}: record {rec.component_name} on node {rec.switchboard_id or rec.shaftline_id}", where)
                continue
            carries = (side == "electric" and comp.power_type in (TypePower.POWER_SOURCE, TypePower.ENERGY_STORAGE, TypePower.PTI_PTO)) or \
                      (side == "mechanical" and comp.type in (TypeComponent.MAIN_ENGINE, TypeComponent.MAIN_ENGINE_WITH_GEARBOX))
            if not carries:
                continue
            ts = rec.result_time_series
            ctx.count("series_component", comp.type.name)
            po = np.broadcast_to(np.asarray(comp.power_output, dtype=float), (n,))
            if len(ts.power_output_kw) != n or not np.allclose(ts.power_output_kw, po, rtol=1e-12, atol=1e-9):
                ctx.fail("predicate", "series-power-missing-or-wrong", f"{side} {rec.component_name}: {list(ts.power_output_kw)} vs {po}", where)
            if len(ts.time) != n or not np.allclose(ts.time, want_time, rtol=1e-12, atol=1e-9):
                ctx.fail("predicate", "series-time-base", f"{side} {rec.component_name}: time {list(ts.time)} expected {want_time}", where)
            if comp.type in FUEL_CONSUMERS:
                nf = len(rec.multi_fuel_consumption_kg.fuels)
                if len(ts.fuel_consumption_kg_per_s.fuels) != nf or any(len(f.mass_or_mass_fraction) != n for f in ts.fuel_consumption_kg_per_s.fuels):
                    ctx.fail("predicate", "series-fuel-rate-missing", f"{side} {rec.component_name}: {len(ts.fuel_consumption_kg_per_s.fuels)} fuel series for {nf} fuels", where)
                else:
                    for f, tot in zip(ts.fuel_consumption_kg_per_s.fuels, rec.multi_fuel_consumption_kg.fuels):
                        if not case["scalar_dt"] and not close(float(np.dot(f.mass_or_mass_fraction, dt)), tot.mass_or_mass_fraction, scale=1.0):
                            ctx.fail("predicate", "series-fuel-rate-inconsistent", f"{side} {rec.component_name}: integral of the rate series {np.dot(f.mass_or_mass_fraction, dt)} vs total {tot.mass_or_mass_fraction}", where)
        if model and ctx.model_available:
            a = ctx.model.call("export.timebase", n=n, dt=enc(float(dt[0])) if case["scalar_dt"] else [enc(x) for x in dt],
                               epochs=[enc(x) for x in case["epochs"]] if case["time_input"] else None)
            mt = [float(dec(x)) for x in a]
            if len(mt) != len(want_time) or not np.allclose(mt, want_time):
                ctx.fail("correspondence", "time-base", f"model {mt} expected {want_time}", where)
    # ---- correspondence with the model's export
    if model and ctx.model_available:
        o2 = dict(obs)
        o2["detail"] = list(range(len(rows))) if detail is not None else None
        a = ctx.model.call("export.result", result=c19.to_model(o2), float_names=names)
        if sorted(a["generated_float_fields"]) != sorted(names):
            ctx.fail("correspondence", "float-field-list", f"generated {a['generated_float_fields']} vs dataclass {names}", where)
        for nme, v in a["scalars"].items():
            if not close(dec(v), getattr(msg, nme)):
                ctx.fail("correspondence", "scalar-" + nme, f"{side}: model {float(dec(v))} message {getattr(msg, nme)}", where)
        if set(a["scalars"]) != {nme for nme in names if hasattr(msg, nme)}:
            ctx.fail("correspondence", "scalar-field-set", f"{side}: model {sorted(a['scalars'])}", where)
        for k2, v in a["co2"].items():
            if not close(dec(v), getattr(msg.co2_emission_total_kg, k2), scale=max(1.0, abs(ttw))):
                ctx.fail("correspondence", "co2-" + k2, f"{side}: model {float(dec(v))} message {getattr(msg.co2_emission_total_kg, k2)}", where)
        if not close(dec(a["nox"]), msg.nox_emission_total_kg, scale=1.0) or not close(dec(a["duration"]), msg.duration_s):
            ctx.fail("correspondence", "nox-or-duration", f"{side}: model nox {float(dec(a['nox']))} duration {float(dec(a['duration']))}", where)
        if len(a["detail"]) != len(msg.detailed_result):
            ctx.fail("correspondence", "detail-count", f"{side}: model {len(a['detail'])} message {len(msg.detailed_result)}", where)


def run_case(ctx, case, model=True):
    where = {"case": case}
    spec_by = FuelSpecifiedBy[case["spec_by"]]
    ctx.count("plant", case["kind"])
    ctx.count("series", case["series"])
    ctx.count("time_base", "input-epochs" if case["time_input"] else ("scalar" if case["scalar_dt"] else "per-interval"))
    try:
        plant = plants.Plant(case["spec"])
        if case["scalar_dt"]:
            c2 = dict(case)
        plant = R.run_plant(case, plant=plant)
        if case["scalar_dt"]:
            from feems.components_model.utility import IntegrationMethod
            for s in (plant.electric, plant.mechanical):
                if s is not None:
                    s.set_time_interval(float(case["inputs"]["dt"][0]), integration_method=IntegrationMethod.sum_with_time)
        sysres = R.system_results(plant, case, spec_by) if not case["scalar_dt"] else None
        if case["scalar_dt"]:
            if case["kind"] == "electric":
                sysres = {"electric": plant.electric.get_fuel_energy_consumption_running_time(fuel_specified_by=spec_by)}
            else:
                from feems.components_model.utility import IntegrationMethod
                r = plant.system.get_fuel_energy_consumption_running_time(time_interval_s=float(case["inputs"]["dt"][0]),
                                                                          integration_method=IntegrationMethod.sum_with_time, fuel_specified_by=spec_by)
                sysres = {"electric": r.electric_system, "mechanical": r.mechanical_system}
    except Exception as e:
        ctx.count("rejected", core.error_class(e))
        if not (isinstance(e, NotImplementedError) or "COGAS" in str(e) or "not available" in str(e)):    # FuelEU factors not offered: the code says so
            ctx.fail("predicate", "calculation-raises-" + core.error_class(e), f"{type(e).__name__}: {e}", where)
        return False
    if not all(np.all(np.isfinite(np.asarray(o.power_output, dtype=float))) for o in plant.by_name.values()):
        ctx.count("skipped", "bus-without-capacity")
        return False
    full = sysres["electric"] if case["kind"] == "electric" else FEEMSResultForMachinerySystem(electric_system=sysres["electric"], mechanical_system=sysres["mechanical"])
    ts_in = None
    n = case["inputs"]["n"]
    if case["time_input"]:
        t0 = 1.7e9
        case["epochs"] = [t0 + 37.0 * i for i in range(n + 1)]
        ts_in = proto_gymir.TimeSeriesResult(propulsion_power_timeseries=[proto_gymir.PropulsionPowerInstance(epoch_s=e, propulsion_power_kw=1.0) for e in case["epochs"]])
    try:
        conv = FEEMSResultConverter(feems_result=full, system_feems=plant.system, time_series_input=ts_in, fuel_specified_by=spec_by)
        msg = conv.get_feems_result_proto(include_time_series_for_components=case["series"])
        msg = pb.FeemsResultForMachinerySystem.FromString(msg.SerializeToString())
    except Exception as e:
        kinds = sorted({c["kind"] for c in case["spec"]["electric"] if c["kind"] in E.SOURCE_KINDS + E.STORAGE_KINDS})
        tag = "series-export-refuses-component" if isinstance(e, NotImplementedError) else "export-raises-" + core.error_class(e)
        ctx.fail("predicate", tag, f"{type(e).__name__}: {e} (sources/storage: {kinds})", where)
        return False
    check_subsystem(ctx, "electric", sysres["electric"], msg.electric_system, plant, case, where, model)
    if case["kind"] != "electric":
        check_subsystem(ctx, "mechanical", sysres["mechanical"], msg.mechanical_system, plant, case, where, model)
    return True


CORPUS = core.VERIF / "corpus" / "C14"


def run(ctx):
    ctx.rule = ("plants {electric x2, mechanical+electric, hybrid} from the C10 generator (all source kinds, dual fuel, storage, PTI/PTO), 1-6 steps, IMO or "
                "FuelEU factors; 60% with per-component series; time base: per-interval (cumulative stamps), scalar (single step), or the epochs of a "
                "TimeSeriesResult input; real SerializeToString / FromString in the loop; distinct by (plant layout, options)")
    cases = []
    if CORPUS.exists():
        cases += [json.loads(p.read_text()) for p in sorted(CORPUS.glob("*.json"))]
    ncorp = len(cases)
    cases += [gen_case(ctx.rng, i) for i in range(ctx.n(60, 1500))]
    for ci, case in enumerate(cases):
        ok = run_case(ctx, case)
        sig = (case["kind"], json.dumps([(c["kind"]) for c in case["spec"].get("electric", []) + case["spec"].get("mechanical", [])]), case["series"], case["time_input"], case["scalar_dt"], case["spec_by"])
        ctx.case_done(signature=sig if ok else None, sample={"kind": case["kind"], "n": case["inputs"]["n"], "series": case["series"], "spec_by": case["spec_by"]} if ci in (ncorp, ncorp + 1) else None)
    ctx.extra["corpus_cases"] = ncorp


def search(ctx):
    for i in range(400):
        run_case(ctx, gen_case(ctx.rng, 100_000 + i), model=False)
        if any(f["kind"] == "predicate" and not ctx.is_known(f) for f in ctx.failures):
            return


def replay(data):
    ctx = core.Ctx("C14", "quick", data.get("seed", 0))
    ctx.model_available = core.DRIVER.exists()
    run_case(ctx, data["case"]["case"])
    for f in ctx.failures:
        print(f"{f['kind']}: {f['tag']}: {f['what'][:300]}")
    if ctx._model:
        ctx._model.close()
    return 1 if ctx.failures else 0
