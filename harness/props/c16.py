"""C16 — same operating profile, same results, whatever the input route.

Correspondence: the four real entry points of `MachineryCalculation` (Gymir result, propulsion-power
time series, protobuf TimeSeriesResult, operating points with durations) on electric,
mechanical-with-electric and hybrid plants with 1-4 switchboards; after each route has prepared the
inputs, the propulsors' delivered power, the auxiliary loads' input power and the intervals held by
the real system are compared with `Feems.Profile` (fromGymir / fromSeries / fromProto /
fromStatistics + split).  Predicates on the implementation alone: the four routes give identical
results (all extensive figures and the duration); sample k is held until sample k+1 and the last
sample contributes nothing; duration = last - first time stamp; equal division.
"""
from __future__ import annotations

import json

import numpy as np
import pandas as pd

from .. import core, plants, result_common as R, elec_common as E
from ..core import enc, dec, close
from . import c19
from feems.fuel import FuelSpecifiedBy
import MachSysS.gymir_result_pb2 as proto_gymir
from RunFeemsSim.machinery_calculation import MachineryCalculation

THEOREMS = ["diffs_length", "hold_dt", "hold_power", "last_sample_unused", "total_duration", "routes_agree_scalar", "routes_agree_series",
            "aux_scalar_is_constant", "aux_series_truncated", "proto_closing_aux_irrelevant", "proto_closing_aux_legacy", "split_sum", "propulsors_receive_all", "propulsors_legacy_double", "same_inputs_same_results"]


def gen_case(rng, idx):
    kind = str(rng.choice(["electric", "electric", "mech_elec", "hybrid"]))
    n_swb = int(rng.choice([1, 2, 3, 4], p=[0.3, 0.35, 0.2, 0.15]))
    espec = plants.gen_electric_plant(rng, n_swb=n_swb, with_pti=False, with_storage=False, source_kinds=("genset", "generator", "fuel_cell_system"))
    if kind == "electric" and not any(c["kind"] == "drive" for c in espec["electric"]):
        espec["electric"].append(plants.gen_serial_spec(rng, "drive", "drive_x", espec["electric"][0]["swb"], 900.0))
    spec = espec
    if kind != "electric":
        swbs = sorted({c["swb"] for c in espec["electric"]})
        mech, ptis, ids = plants.gen_mech_components(rng, n_lines=int(rng.choice([1, 2])), pti_swb=int(rng.choice(swbs)), force_pti=(kind == "hybrid"))
        spec = dict(espec, type="hybrid" if kind == "hybrid" else "mech_elec", lines=ids)
        # a vessel with propellers on shaft lines may have electric thrusters as well: they are propulsors too
        keep_drives = rng.random() < 0.4
        spec["electric"] = [c for c in espec["electric"] if c["kind"] != "drive" or keep_drives] + ptis
        if not any(c["kind"] == "other_load" for c in spec["electric"]):       # an electric system has at least one consumer
            spec["electric"].append({"kind": "other_load", "name": "load_x", "swb": swbs[0], "rated": 500.0, "curve": [0.97]})
        if rng.random() < 0.5:       # constant-efficiency propellers: 0 kW delivered is exactly 0 kW on the shaft
            for c in mech:
                if c["kind"] == "mech_load":
                    c["curve"] = [float(np.round(rng.uniform(0.9, 1.0), 3))]
        spec["mechanical"] = mech + [{"kind": "pti_pto_ref", "name": p["name"]} for p in ptis]
    n = int(rng.choice([2, 3, 5, 8]))
    t0 = float(rng.choice([0.0, 1000.0, 1.7e9]))
    t = [t0]
    for _ in range(n - 1):
        t.append(t[-1] + float(rng.choice([1.0, 10.0, 60.0, float(np.round(rng.uniform(0.5, 900), 1))])))
    total = sum(c["rated"] for c in spec["electric"] if c["kind"] in E.SOURCE_KINDS)
    if kind != "electric":
        total = sum(c["rated"] for c in spec["mechanical"] if c["kind"] == "main_engine")
    P = [float(np.round(rng.uniform(0.0, 0.45) * total, 1)) for _ in range(n)]
    n_other = sum(1 for c in spec["electric"] if c["kind"] == "other_load")
    etotal = sum(c["rated"] for c in spec["electric"] if c["kind"] in E.SOURCE_KINDS)
    aux_mode = str(rng.choice(["scalar", "per-sample", "zero"])) if n_other else "zero"
    aux = float(np.round(rng.uniform(0.02, 0.2) * etotal, 1)) if aux_mode != "zero" else 0.0
    aux_series = [float(np.round(rng.uniform(0.02, 0.2) * etotal, 1)) for _ in range(n)] if aux_mode == "per-sample" else None
    if aux_series is not None and rng.random() < 0.5:     # hotel load off for some samples / the closing sample left at 0
        for i in range(n):
            if rng.random() < (0.6 if i == n - 1 else 0.2):
                aux_series[i] = 0.0
        if not any(aux_series[:-1]):
            # (a message whose held samples all carry 0 is read as "no per-sample value": the message-level value holds - in proto3 an
            # unset number is 0; the closing sample does not count, D134)
            aux_series[0] = float(np.round(0.05 * etotal, 1))
    P = [0.0 if rng.random() < 0.1 else p for p in P]       # quay / drifting samples
    return {"idx": idx, "kind": kind, "spec": spec, "t": t, "P": P, "aux_mode": aux_mode, "aux": aux, "aux_series": aux_series,
            "reused_calculator": bool(rng.random() < 0.5),
            "proto_closing_aux": (float(np.round(rng.uniform(1.0, 50.0), 1)) if (aux_series is None and n >= 3 and rng.random() < 0.35) else None),
            "op_profile": str(rng.choice(["none", "same", "other"]))}


def prepare_hybrid(plant, case, n):
    """the profile routes carry no PTI/PTO schedule: the caller sets it with the profile's length"""
    for c in case["spec"]["electric"]:
        if c["kind"] == "pti_pto":
            obj = plant.by_name[c["name"]]
            obj.status = np.ones(n, dtype=bool)
            obj.load_sharing_mode = np.ones(n)
            obj.full_pti_mode = np.zeros(n, dtype=bool)
            obj.set_power_input_from_output(np.zeros(n))


def routes(case):
    t, P = np.array(case["t"]), np.array(case["P"])
    # every third case asks every route with the FuelEU factor set (seeded change C16-r6: one route forgot the argument)
    from feems.fuel import FuelSpecifiedBy
    kw = {"fuel_specified_by": FuelSpecifiedBy.FUEL_EU_MARITIME} if case.get("idx", 1) % 3 == 0 and case.get("fuel_eu_ok", True) else {}
    core.axis("factor_set", "FuelEU" if kw else "default")
    n = len(t)
    aux_scalar, aux_series = case["aux"], case["aux_series"]

    def gymir(mc):
        msg = proto_gymir.GymirResult(name="g", auxiliary_load_kw=aux_scalar,
                                      result=[proto_gymir.SimulationInstance(epoch_s=float(a), power_kw=float(b)) for a, b in zip(t, P)])
        msg = proto_gymir.GymirResult.FromString(msg.SerializeToString())
        return mc.calculate_machinery_system_output_from_gymir_result(gymir_result=msg, **kw)

    def series(mc):
        a = aux_scalar if aux_series is None else np.array(aux_series)
        return mc.calculate_machinery_system_output_from_propulsion_power_time_series(propulsion_power=pd.Series(index=t, data=P), auxiliary_power_kw=a, **kw)

    def proto(mc):
        per = [0.0] * n if aux_series is None else aux_series
        if aux_series is None and case.get("proto_closing_aux"):
            # the closing record carries a value of its own: it closes the last interval and decides nothing (D134)
            per = per[:-1] + [float(case["proto_closing_aux"])]
        msg = proto_gymir.TimeSeriesResult(
            propulsion_power_timeseries=[proto_gymir.PropulsionPowerInstance(epoch_s=float(a), propulsion_power_kw=float(b), auxiliary_power_kw=float(c)) for a, b, c in zip(t, P, per)],
            auxiliary_power_kw=aux_scalar)
        if case["op_profile"] == "same":
            msg.operation_profile.extend([proto_gymir.OperationProfilePoint(epoch_s=float(a), speed_kn=10.0, draft_m=5.0) for a in t])
        elif case["op_profile"] == "other":
            msg.operation_profile.extend([proto_gymir.OperationProfilePoint(epoch_s=float(a), speed_kn=10.0, draft_m=5.0) for a in (t[0], t[-1])])
        msg = proto_gymir.TimeSeriesResult.FromString(msg.SerializeToString())
        return mc.calculate_machinery_system_output_from_time_series_result(time_series=msg, **kw)

    def stats(mc):
        a = aux_scalar if aux_series is None else np.array(aux_series[:-1])
        return mc.calculate_machinery_system_output_from_statistics(propulsion_power=P[:-1], frequency=np.diff(t), auxiliary_power_kw=a, **kw)

    out = {"series": series, "proto": proto, "statistics": stats}
    if aux_series is None:
        out["gymir"] = gymir          # a Gymir result carries one auxiliary value only
    return out


def res_obs(r):
    if hasattr(r, "electric_system"):
        return {"electric": R.observe_result(r.electric_system), "mechanical": R.observe_result(r.mechanical_system)}
    return {"electric": R.observe_result(r)}


def run_case(ctx, case, model=True):
    where = {"case": case}
    ctx.count("plant", case["kind"])
    ctx.count("aux", case["aux_mode"])
    ctx.count("proto_closing_record_carries_aux", bool(case.get("proto_closing_aux")))
    ctx.count("switchboards", len({c["swb"] for c in case["spec"]["electric"]}))
    n = len(case["t"])
    results, prepared = {}, {}
    for name, fn in routes(case).items():
        try:
            plant = plants.Plant(case["spec"])
            mc = MachineryCalculation(feems_system=plant.system)
            if case["kind"] == "hybrid":
                prepare_hybrid(plant, case, n - 1)
            if case.get("reused_calculator") and name == sorted(routes(case))[case["idx"] % len(routes(case))]:
                # one route runs on a calculator that has already been used for another profile of the same length (a harbour stay)
                warm = [0.0 if i % 2 == 0 else 0.3 * max(case["P"]) for i in range(n - 1)]
                mc.calculate_machinery_system_output_from_statistics(propulsion_power=warm, frequency=np.diff(case["t"]), auxiliary_power_kw=case["aux"])
                ctx.count("route_on_reused_calculator", name)
            r = fn(mc)
        except Exception as e:
            ctx.fail("predicate", "route-raises-" + core.error_class(e), f"route {name}: {type(e).__name__}: {e}", where)
            continue
        results[name] = res_obs(r)
        es = plant.electric
        props = list(es.propulsion_drives) + ([] if case["kind"] == "electric" else list(plant.mechanical.mechanical_loads))
        ctx.count("propulsors", "electric and mechanical" if (es.propulsion_drives and case["kind"] != "electric") else "one kind")
        prepared[name] = {"drives": len(es.propulsion_drives), "mech_loads": 0 if case["kind"] == "electric" else len(plant.mechanical.mechanical_loads),
                          "per_propulsor": [np.asarray(p.power_output, dtype=float) for p in props],
                          "per_aux_load": [np.asarray(o.power_input, dtype=float) for o in es.other_load],
                          "dt": np.asarray(es.time_interval_s, dtype=float)}
    if len(results) < 2:
        return False
    names = sorted(results)
    base = names[0]
    finite = all(np.isfinite(results[base][s]["ext"]).all() for s in results[base])
    if not finite:
        ctx.count("skipped", "bus-without-capacity")
        return False
    # ---- predicates on the implementation
    for other in names[1:]:
        for side in results[base]:
            bad = [f for f in c19.equiv(results[base][side], results[other][side]) if f != "detail"]
            for f in bad:
                ctx.fail("predicate", "routes-differ-" + f, f"{side}: route {base} vs {other}: {results[base][side][f]} vs {results[other][side][f]}", where)
    t, P = np.array(case["t"]), np.array(case["P"])
    for name in names:
        pr = prepared[name]
        k, m = len(pr["per_propulsor"]), len(pr["per_aux_load"])
        if not np.allclose(pr["dt"], np.diff(t), rtol=1e-12, atol=1e-9):
            ctx.fail("predicate", "interval-not-next-minus-this-stamp", f"route {name}: {pr['dt']} vs {np.diff(t)}", where)
        for q in pr["per_propulsor"]:
            if len(q) != n - 1 or not np.allclose(q, P[:-1] / k, rtol=1e-12, atol=1e-9):
                ctx.fail("predicate", "sample-not-held-or-not-divided-equally", f"route {name}: propulsor gets {q}, profile {P} over {k} propulsors", where)
                break
        if m:
            want = (np.array(case["aux_series"][:n - 1]) if case["aux_series"] is not None else np.full(n - 1, case["aux"])) / m
            for q in pr["per_aux_load"]:
                if len(q) != n - 1 or not np.allclose(q, want, rtol=1e-12, atol=1e-9):
                    ctx.fail("predicate", "auxiliary-not-divided-equally", f"route {name}: auxiliary load gets {q}, expected {want}", where)
                    break
        for side in results[name]:
            if not close(results[name][side]["duration"], t[-1] - t[0]):
                ctx.fail("predicate", "duration-not-span-of-stamps", f"route {name} {side}: {results[name][side]['duration']} vs {t[-1] - t[0]}", where)
    # ---- correspondence: prepared inputs vs the model
    if model and ctx.model_available:
        for name in names:
            pr = prepared[name]
            k, m = max(1, len(pr["per_propulsor"])), max(1, len(pr["per_aux_load"]))
            common = dict(drives=pr["drives"], mech_loads=pr["mech_loads"], shaft_lines=case["kind"] != "electric", aux_loads=m)
            if name == "gymir":
                a = ctx.model.call("profile.gymir", t=[enc(x) for x in t], P=[enc(x) for x in P], aux=enc(case["aux"]), **common)
            elif name == "series":
                aux = enc(case["aux"]) if case["aux_series"] is None else [enc(x) for x in case["aux_series"]]
                a = ctx.model.call("profile.series", t=[enc(x) for x in t], P=[enc(x) for x in P], aux=aux, **common)
            elif name == "proto":
                per = [0.0] * n if case["aux_series"] is None else case["aux_series"]
                if case["aux_series"] is None and case.get("proto_closing_aux"):
                    per = per[:-1] + [float(case["proto_closing_aux"])]
                a = ctx.model.call("profile.proto", t=[enc(x) for x in t], P=[enc(x) for x in P], aux_per_sample=[enc(x) for x in per], aux=enc(case["aux"]), **common)
            else:
                aux = enc(case["aux"]) if case["aux_series"] is None else [enc(x) for x in case["aux_series"][:-1]]
                a = ctx.model.call("profile.statistics", P=[enc(x) for x in P[:-1]], dt=[enc(x) for x in np.diff(t)], aux=aux, **common)
            md = [dec(x) for x in a["dt"]]
            if len(md) != len(pr["dt"]) or not all(close(x, y, scale=1.0) for x, y in zip(md, pr["dt"])):
                ctx.fail("correspondence", "intervals", f"route {name}: model {[float(x) for x in md]} impl {pr['dt']}", where)
            mp = [dec(x) for x in a["per_propulsor"]]
            for q in pr["per_propulsor"]:
                if len(mp) != len(q) or not all(close(x, y, scale=1.0) for x, y in zip(mp, q)):
                    ctx.fail("correspondence", "propulsor-power", f"route {name}: model {[float(x) for x in mp]} impl {q}", where)
                    break
            ma = [dec(x) for x in a["per_aux_load"]]
            for q in pr["per_aux_load"]:
                if len(ma) != len(q) or not all(close(x, y, scale=1.0) for x, y in zip(ma, q)):
                    ctx.fail("correspondence", "auxiliary-power", f"route {name}: model {[float(x) for x in ma]} impl {q}", where)
                    break
    return True


CORPUS = core.VERIF / "corpus" / "C16"


def run(ctx):
    ctx.rule = ("plants {electric x2, mechanical+electric, hybrid} with 1-4 switchboards (gensets, generators, fuel-cell systems, loads, drives / shaft lines); "
                "profiles of 2-8 samples with irregular stamps from 0, 1000 or 1.7e9 s, propulsion power up to 45% of plant rating; auxiliary power: one value, "
                "per-sample series, or zero; protobuf route with per-sample or message-level auxiliary power and operation-profile records on the same / another "
                "/ no time base; every applicable route on a fresh plant; distinct by (plant layout, stamps, aux mode)")
    ctx.assumptions += ["hybrid plants: the caller sets PTI/PTO status, sharing mode, full-PTI flags and power with the profile's length (the routes carry no PTI/PTO schedule)"]
    cases = []
    if CORPUS.exists():
        cases += [json.loads(p.read_text()) for p in sorted(CORPUS.glob("*.json"))]
    ncorp = len(cases)
    cases += [gen_case(ctx.rng, i) for i in range(ctx.n(60, 1000))]
    for ci, case in enumerate(cases):
        ok = run_case(ctx, case)
        sig = (case["kind"], json.dumps([(c["kind"], c.get("swb")) for c in case["spec"]["electric"]]), tuple(case["t"]), case["aux_mode"])
        ctx.case_done(signature=sig if ok else None, sample={"kind": case["kind"], "t": case["t"], "P": case["P"], "aux": case["aux_mode"]} if ci in (ncorp, ncorp + 1) else None)
    ctx.extra["corpus_cases"] = ncorp


def search(ctx):
    for i in range(300):
        run_case(ctx, gen_case(ctx.rng, 100_000 + i), model=False)
        if any(f["kind"] == "predicate" and not ctx.is_known(f) for f in ctx.failures):
            return


def replay(data):
    ctx = core.Ctx("C16", "quick", data.get("seed", 0))
    ctx.model_available = core.DRIVER.exists()
    run_case(ctx, data["case"]["case"])
    for f in ctx.failures:
        print(f"{f['kind']}: {f['tag']}: {f['what'][:300]}")
    if ctx._model:
        ctx._model.close()
    return 1 if ctx.failures else 0
