"""C05 — hybrid system: one PTI/PTO, consistent on the electric and the shaft side.

Correspondence: hybrid plants (PTI/PTO on any switchboard and shaft line; PTI, PTO and full-PTI steps
mixed in one series) through the real `HybridPropulsionSystem.do_power_balance_calculation`; the
PTI/PTO's final electrical and shaft power against `Feems.Hybrid.step`, whose two conversions are
oracles read from the real machine at the powers the model asks for (pull protocol), so the model
reproduces the code, not the ideal.  Predicates on the implementation alone: electric balance of the
PTI/PTO's bus with its final electrical power, shaft balance with its final shaft power, both within
0.5 % of the PTI/PTO rating; the pair is a conversion pair of the machine; full-PTI: shaft power =
whole load and electrical power = load / efficiency.  Construction: accepted iff both sides list the
same PTI/PTO objects.
"""
from __future__ import annotations

import copy
import json

import numpy as np

from .. import core, plants, result_common as R, elec_common as E, mech_common as M
from ..core import enc, dec, close, call_with_oracle
from feems.system_model import HybridPropulsionSystem, ElectricPowerSystem, MechanicalPropulsionSystem

THEOREMS = ["final_with_second_pass", "final_with_rebalance", "balancing_consistent", "balancing_legacy_gap", "final_without_second_pass", "electric_consistency", "shaft_consistency", "balances_within",
            "loss_pair", "full_pti", "same_machine", "repeated_shaft_balance", "repeated_avail", "repeated_shaft_balance_legacy_gap"]
DEPENDS_ON_MODULES = ["FeemsProofs.C06", "FeemsProofs.C04"]
BAL = E.STORAGE_KINDS + ("pti_pto",)
D16 = "hybrid-balance-pti-outside-covered-range"       # known finding D16 as it shows in the hybrid balance


def run_case(ctx, case, model=True):
    where = {"case": case}
    spec, inp = case["spec"], case["inputs"]
    n = inp["n"]
    ptis = [c for c in spec["electric"] if c["kind"] == "pti_pto"]
    try:
        plant = R.run_plant(case)
    except Exception as e:
        ctx.fail("predicate", "balance-raises-" + core.error_class(e), f"{type(e).__name__}: {e}", where)
        return False
    eobs = E.observe(plant, R.elec_inputs(case))
    mobs = M.observe(plant, R.mech_inputs(case))
    if not all(np.all(np.isfinite(v)) for o in list(eobs.values()) + list(mobs.values()) for v in o.values()):
        ctx.count("skipped", "bus-without-capacity")
        return False
    mi = R.mech_inputs(case)
    any_full = any(any(mi["comp"][p["name"]]["full"]) for p in ptis)
    ctx.count("second_electric_pass", any_full)
    # the shaft lines are balanced once more when a second electric pass ran and some PTI/PTO shares the bus load
    def emode(name, t):
        """sharing mode in force at step t: in full-PTI mode the shaft decides, whatever the mode says (D55)"""
        if name in mi["comp"] and "full" in mi["comp"][name] and mi["comp"][name]["full"][t]:
            return 1.0
        return R.elec_inputs(case)["comp"][name]["mode"][t]
    rebalance = any_full and any(any(emode(p["name"], t) == 0 for t in range(n)) for p in ptis)
    ctx.count("second_shaft_pass", rebalance)
    # ---- correspondence of the last shaft balance (Shaft.Line.again): with the status series that were given and the PTI/PTO's
    # final shaft power, the engines' outputs are those of `Shaft.balance` (when a second electric pass ran without a second
    # shaft balance, the final shaft power is not the one the shaft lines were balanced with: skipped)
    if model and ctx.model_available and (rebalance or not any_full):
        mi2 = copy.deepcopy(mi)
        for p in ptis:
            mi2["comp"][p["name"]]["shaft"] = [float(x) for x in mobs[p["name"]]["out"]]
        M.compare_with_model(ctx, spec, mi2, mobs, where, tagprefix="last-shaft-balance-")
        ctx.count("last_shaft_balance_compared", "repeated" if rebalance else "single")
    for p in ptis:
        obj = plant.by_name[p["name"]]
        rated = p["rated"]
        ln = p.get("shaft_line", 1)
        eps = 0.005 * rated
        # load range in which every stage's efficiency characteristic is given (outside it the stages are
        # extrapolated and the interpolated inverse loses the 0.5 % figure: known finding D16)
        stages = p.get("stages") or [p]
        lo = max(plants.comps.covered_range(sc["curve"])[0] * sc["rated"] / rated for sc in stages)
        hi = min(min(plants.comps.covered_range(sc["curve"])[1], 0.99) * sc["rated"] / rated for sc in stages)
        inside = lambda *xs: all(x == 0 or lo <= abs(x) / rated <= hi for x in xs)
        for t in range(n):
            full = bool(mi["comp"][p["name"]]["full"][t])
            shaft_given = mi["comp"][p["name"]]["shaft"][t]
            balancing = p["name"] in case.get("balancing_pti", []) and not full
            ein, sout = float(eobs[p["name"]]["in"][t]), float(mobs[p["name"]]["out"][t])
            L = sum(mobs[c["name"]]["in"][t] for c in M.by_line(spec, ln, "mech_load"))
            cov = inside(shaft_given, ein, sout, *([L] if full else []))
            ctx.count("pti_load_range", "covered" if cov else "extrapolated-or-near-rated")
            tag = (lambda name: name) if cov else (lambda name: D16)
            ctx.count("step_kind", "balancing" if balancing else ("full-pti" if full else ("pti" if shaft_given > 0 else ("pto" if shaft_given < 0 else "idle"))))
            if full and abs(L) > 0.98 * rated:
                ctx.count("skipped_step", "load-above-pti-rating")
                continue
            # electric balance of the PTI/PTO's bus with its *final* electrical power
            g = next(gr for gr in E.groups_at(spec, R.elec_inputs(case), t) if p["swb"] in gr)
            members = [c for c in spec["electric"] if c["swb"] in g]
            delivered = sum(eobs[c["name"]]["out"][t] for c in members if c["kind"] in E.SOURCE_KINDS)
            drawn = sum(eobs[c["name"]]["in"][t] for c in members if c["kind"] not in E.SOURCE_KINDS)
            ei = R.elec_inputs(case)
            cap = sum(c["rated"] for c in members if c["kind"] in E.SOURCE_KINDS and ei["comp"][c["name"]]["status"][t] and ei["comp"][c["name"]]["share"][t] == 0)
            cap += sum(c["rated"] for c in members if c["kind"] in BAL and ei["comp"][c["name"]]["status"][t] and emode(c["name"], t) == 0)
            # load fraction the bus asks of its balancing units (sources with share 0, storage and PTI/PTO in mode 0)
            is_bal = lambda c: (c["kind"] in E.SOURCE_KINDS + BAL and ei["comp"][c["name"]]["status"][t] and ((c["kind"] in E.SOURCE_KINDS and ei["comp"][c["name"]]["share"][t] == 0)
                                                                        or (c["kind"] in BAL and emode(c["name"], t) == 0)))
            need = sum(eobs[c["name"]]["in"][t] for c in members if c["kind"] not in E.SOURCE_KINDS and not is_bal(c)) \
                - sum(eobs[c["name"]]["out"][t] for c in members if c["kind"] in E.SOURCE_KINDS and not is_bal(c))
            over = [c["name"] for c in members if c["name"] in case.get("balancing_pti", []) and cap > 0 and abs(need / cap) > 0.98]
            if cap == 0:
                ctx.count("skipped_step", "bus-without-balancing-capacity")
            elif over:
                ctx.count("skipped_step", "bus-asks-a-balancing-pti-above-its-rating")
            elif abs(delivered - drawn) > eps:
                ctx.fail("predicate", tag("electric-balance-with-pti-over-0.5pct"), f"step {t}: bus {sorted(g)} delivered {delivered} drawn {drawn} (PTI/PTO rated {rated})", where)
            if balancing and (p["name"] in over or max(abs(ein), abs(sout)) > 0.98 * rated):
                ctx.count("skipped_step", "balancing-share-above-pti-rating")       # the bus asks more of it than its rating
                continue
            # shaft balance with its *final* shaft power
            eng = sum(mobs[c["name"]]["out"][t] for c in M.by_line(spec, ln, "main_engine"))
            avail = sum(c["rated"] for c in M.by_line(spec, ln, "main_engine") if mi["comp"][c["name"]]["status"][t])
            if (avail > 0 or full) and abs(eng + sout - L) > eps:
                ctx.fail("predicate", tag("shaft-balance-with-pti-over-0.5pct"), f"step {t}: line {ln} engines {eng} + PTI/PTO {sout} vs load {L} (rated {rated})", where)
            # the two powers are a conversion pair of the machine
            pair_f = float(obj.get_power_input_from_bidirectional_output(sout)[0])
            pair_g = float(obj.get_power_output_from_bidirectional_input(ein)[0])
            if min(abs(pair_f - ein), abs(pair_g - sout)) > eps:
                ctx.fail("predicate", tag("pti-powers-not-a-conversion-pair"), f"step {t}: electrical {ein} / shaft {sout}: f(shaft)={pair_f}, g(electrical)={pair_g}", where)
            # a machine whose power is given keeps it (outside full-PTI steps and load sharing): both balances close around a power
            # that was silently replaced just as well (D88)
            if not full and not balancing and emode(p["name"], t) != 0 and abs(sout - shaft_given) > eps:
                ctx.fail("predicate", tag("given-pti-power-not-kept"), f"step {t}: shaft power given {shaft_given}, after the combined balance {sout} (rated {rated})", where)
            if full:
                eff = float(obj.get_efficiency_from_load_percentage(abs(L) / rated))
                if abs(sout - L) > eps or abs(ein - L / eff) > eps:
                    ctx.fail("predicate", tag("full-pti-not-load-plus-loss"), f"step {t}: load {L}, shaft {sout}, electrical {ein}, load/eff {L / eff}", where)
            # ---- correspondence
            if model and ctx.model_available and not balancing:
                x0 = float(obj.get_power_input_from_bidirectional_output(float(shaft_given))[0])      # what the harness set

                def oracle(name, key, obj=obj):
                    if name == "f":
                        return float(obj.get_power_input_from_bidirectional_output(float(key))[0])
                    return float(obj.get_power_output_from_bidirectional_input(float(key))[0])
                args = dict(f=[], g=[], x0=enc(x0), load=enc(L), full=full, any_full=any_full, rebalance=rebalance)
                # tables travel as f / g, not under "curves"
                tables = {"f": [], "g": []}
                for _ in range(6):
                    ans = ctx.model.call("hybrid.step", **dict(args, **tables))
                    if "need" in ans:
                        nm, key = ans["need"]
                        tables[nm].append([key, enc(oracle(nm, dec(key)))])
                        continue
                    break
                if "need" in ans:
                    ctx.fail("correspondence", "oracle-rounds", f"step {t}: {ans}", where)
                    continue
                if not close(dec(ans["elec_in"]), ein, scale=rated) or not close(dec(ans["shaft_out"]), sout, scale=rated):
                    ctx.fail("correspondence", "pti-final-state", f"step {t} full={full} anyFull={any_full}: model ({float(dec(ans['elec_in']))}, {float(dec(ans['shaft_out']))}) impl ({ein}, {sout})", where)
            elif model and ctx.model_available and cap > 0 and not over and [c["name"] for c in members if c["kind"] == "pti_pto"] == [p["name"]] \
                    and ei["comp"][p["name"]]["status"][t]:
                # (only PTI/PTO of its bus: the final electrical power of another one differs from what the last electric
                # pass used by that machine's round-trip error, and the share could not be recovered exactly)
                # the share the last electric pass gave it = what the other members of the bus leave over
                xb = delivered - (drawn - ein)

                def oracle(name, key, obj=obj):
                    if name == "f":
                        return float(obj.get_power_input_from_bidirectional_output(float(key))[0])
                    return float(obj.get_power_output_from_bidirectional_input(float(key))[0])
                tables = {"f": [], "g": []}
                for _ in range(4):
                    ans = ctx.model.call("hybrid.step_balancing", xb=enc(xb), **tables)
                    if "need" in ans:
                        nm, key = ans["need"]
                        tables[nm].append([key, enc(oracle(nm, dec(key)))])
                        continue
                    break
                ctx.count("balancing_correspondence", "compared" if "need" not in ans else "oracle-rounds")
                if "need" not in ans and (not close(dec(ans["elec_in"]), ein, tol=1e-7, scale=rated) or not close(dec(ans["shaft_out"]), sout, tol=1e-7, scale=rated)):
                    ctx.fail("correspondence", "balancing-pti-final-state", f"step {t}: share {xb}: model ({float(dec(ans['elec_in']))}, {float(dec(ans['shaft_out']))}) impl ({ein}, {sout})", where)
    return True


def make_balancing(rng, case):
    """Puts some of the PTI/PTOs into load-sharing mode 0 for the whole series: their electrical power is then an output
    of the electrical balance (they share the bus load like a source), not an input."""
    names = []
    ptis = [c for c in case["spec"]["electric"] if c["kind"] == "pti_pto"]
    n = case["inputs"]["n"]
    if len(ptis) >= 2 and rng.random() < 0.6:
        # one machine shares the bus load while another one carries its shaft alone in some step
        k = int(rng.integers(len(ptis)))
        chosen = [ptis[k]]
        other = ptis[(k + 1) % len(ptis)]
        if not any(case["inputs"]["mech"][other["name"]]["full"]):
            case["inputs"]["mech"][other["name"]]["full"][int(rng.integers(n))] = True
        if rng.random() < 0.5:
            # a step at which nothing asks for power before the full-PTI machine does: no electrical load, the sharing machine's
            # own shaft line at rest (its engines idle in the first shaft balance and are needed in the repeated one - D28)
            t = case["inputs"]["mech"][other["name"]]["full"].index(True)
            inp, spec = case["inputs"], case["spec"]
            for c in spec["electric"]:
                d = inp["comp"][c["name"]]
                for key in ("load", "given"):
                    if key in d:
                        d[key][t] = 0.0
                if "share" in d:
                    d["share"][t] = 0.0
            inp["mech"][other["name"]]["shaft"][t] = 0.0
            for c in M.by_line(spec, chosen[0].get("shaft_line", 1), "mech_load"):
                inp["mech"][c["name"]]["load"][t] = 0.0
            for c in M.by_line(spec, chosen[0].get("shaft_line", 1), "main_engine"):
                inp["mech"][c["name"]]["status"][t] = True
            for c in M.by_line(spec, other.get("shaft_line", 1), "mech_load")[:1]:
                if inp["mech"][c["name"]]["load"][t] == 0:
                    inp["mech"][c["name"]]["load"][t] = float(np.round(0.3 * other["rated"], 0))
            case["idle_step"] = t
    else:
        chosen = [c for c in ptis if rng.random() < 0.6]
    for c in chosen:
        case["inputs"]["comp"][c["name"]]["mode"] = [0.0] * n
        # mode 0 is the constructor's default: a machine left in it may still be asked for full PTI at some step (D55)
        keep = rng.random() < 0.35 and "idle_step" not in case
        case["inputs"]["mech"][c["name"]]["full"] = [bool(keep and rng.random() < 0.3) for _ in range(n)]
        names.append(c["name"])
    case["balancing_pti"] = names


def run_config_case(ctx, rng, model=True):
    """same-machine rule: electric and mechanical side given the same / different PTI/PTO objects"""
    espec = plants.gen_electric_plant(rng, n_swb=1, with_pti=False, with_storage=False)
    k = int(rng.integers(0, 3))
    swb = espec["electric"][0]["swb"]          # the only switchboard need not be number 1
    ptis = [plants.gen_serial_spec(rng, "pti_pto", f"p{i}", swb, 500.0, shaft_line=i + 1) for i in range(k)]
    mode = str(rng.choice(["same", "copy", "deepcopy", "fewer", "none"]))
    ctx.count("config", f"{mode}:{k}")
    e_objs = [plants.build_electric_component(p) for p in ptis]
    if mode == "same":
        m_objs = list(e_objs)
    elif mode == "copy":
        m_objs = [plants.build_electric_component(p) for p in ptis]        # equal but different objects
    elif mode == "deepcopy":
        m_objs = [copy.deepcopy(o) for o in e_objs]                           # equal, same uid, different objects
    elif mode == "fewer":
        m_objs = e_objs[:-1]
    else:
        m_objs = []
    where = {"case": {"kind": "config", "mode": mode, "k": k}}
    ecomps = [plants.build_electric_component(c) for c in espec["electric"]] + e_objs
    mech = [plants.build_mechanical_component({"kind": "main_engine", "name": f"me{i}", "shaft_line": i + 1,
                                               "engine": {"rated": 1000.0, "bsfc": [200.0]}}) for i in range(max(1, k))]
    mech += [plants.build_mechanical_component({"kind": "mech_load", "name": f"pr{i}", "shaft_line": i + 1, "rated": 900.0, "curve": [1.0]}) for i in range(max(1, k))]
    try:
        es = ElectricPowerSystem("e", ecomps, [])
        ms = MechanicalPropulsionSystem("m", mech + m_objs)
        HybridPropulsionSystem("h", es, ms)
        accepted = True
    except Exception as e:
        accepted = False
    want = k > 0 and mode == "same"
    if accepted != want:
        ctx.fail("predicate", "same-machine-rule", f"{k} PTI/PTO, mechanical side '{mode}': accepted={accepted}", where)
    if model and ctx.model_available:
        ids_e = list(range(k))
        ids_m = {"same": ids_e, "copy": [100 + i for i in ids_e], "deepcopy": [200 + i for i in ids_e], "fewer": ids_e[:-1], "none": []}[mode]
        m = ctx.model.call("hybrid.same_machines", elec=ids_e, mech=ids_m)
        if bool(m) != accepted:
            ctx.fail("correspondence", "same-machines", f"model {m} impl {accepted}", where)
    ctx.case_done(signature=("config", mode, k))


CORPUS = core.VERIF / "corpus" / "C05"


def run(ctx):
    ctx.rule = ("hybrid plants: electric part from the C01 generator (1-5 switchboards, all source kinds, storage) + 1-3 shaft lines with engines, "
                "loads and a shared PTI/PTO per line on a random switchboard (serial machine, 1-3 stages); series of 1-8 steps mixing PTI, PTO, idle "
                "and full-PTI (25%) steps, breaker and engine status changes; plus construction cases (same objects / equal copies / fewer / none); "
                "non-trivial = plant case with a PTI/PTO step; distinct by (layout, flags, signs)")
    ctx.assumptions += ["PTI/PTO in given-power mode on the electric side (the theorem's domain)",
                        "full-PTI steps with a shaft load above 98 % of the PTI/PTO rating are outside the property's domain (loads within the rating)"]
    for i in range(ctx.n(25, 300)):
        run_config_case(ctx, ctx.rng)
    cases = []
    if CORPUS.exists():
        cases += [json.loads(p.read_text()) for p in sorted(CORPUS.glob("*.json"))]
    ncorp = len(cases)
    for i in range(ctx.n(90, 1500)):
        case = R.gen_plant_case(ctx.rng, i, kind="hybrid")
        if ctx.rng.random() < 0.5:        # user-style names: the PTI/PTOs of different switchboards and shaft lines share a name
            plants.relabel(case["spec"])
        if ctx.rng.random() < 0.4:        # PTI/PTOs whose power the electrical balance decides (load-sharing mode 0)
            make_balancing(ctx.rng, case)
        cases.append(case)
    for ci, case in enumerate(cases):
        ok = run_case(ctx, case)
        ctx.count("sharing_machine_idle_before_repeated_pass", "idle_step" in case)
        mi = R.mech_inputs(case)
        labels = [c.get("label") for c in case["spec"]["electric"] if c["kind"] == "pti_pto"]
        ctx.count("pti_pto_names", "shared" if len(set(labels)) < len(labels) else ("single" if len(labels) == 1 else "distinct"))
        sig = (json.dumps([(c["kind"], c.get("swb"), c.get("shaft_line")) for c in case["spec"]["electric"] + case["spec"]["mechanical"]]),
               json.dumps({k: (v.get("full"), [np.sign(x) for x in v.get("shaft", [])]) for k, v in mi["comp"].items() if "full" in v}, default=float))
        ctx.case_done(signature=sig if ok else None, sample={"n": case["inputs"]["n"], "pti": [c["name"] for c in case["spec"]["electric"] if c["kind"] == "pti_pto"]} if ci in (ncorp, ncorp + 1) else None)
    ctx.extra["corpus_cases"] = ncorp


def search(ctx):
    for i in range(600):
        case = R.gen_plant_case(ctx.rng, 100_000 + i, kind="hybrid")
        if i % 2:
            plants.relabel(case["spec"])
        run_case(ctx, case, model=False)
        if any(f["kind"] == "predicate" and not ctx.is_known(f) for f in ctx.failures):
            return


def replay(data):
    ctx = core.Ctx("C05", "quick", data.get("seed", 0))
    ctx.model_available = core.DRIVER.exists()
    case = data["case"]["case"]
    if case.get("kind") == "config":
        print("construction case", case)
        return 1
    run_case(ctx, case)
    for f in ctx.failures:
        print(f"{f['kind']}: {f['tag']}: {f['what'][:300]}")
    if ctx._model:
        ctx._model.close()
    return 1 if ctx.failures else 0
