"""C17 — stored energy and state of charge follow terminal power and efficiencies.

Correspondence: batteries / supercapacitors, alone or behind a converter, with mixed-sign
terminal power series; `get_energy_stored_kj`, `get_soc` (total and accumulated) against
`Feems.Storage.energy/soc/energyAcc/socAcc`.  The converter is an oracle: its value at each
sample is read from the real converter and handed to the model (the model contributes the
cell efficiencies, the integration and the state-of-charge formula).  Predicates on the
implementation alone: last accumulated value = total, leading zero and length, SoC formula,
stored <= terminal energy (charge + discharge of equal terminal energy never raises the SoC).
"""
from __future__ import annotations

import json

import numpy as np

from .. import core
from ..core import enc, dec, close
from .. import comps
from feems.components_model.utility import IntegrationMethod

THEOREMS = ["energy_formula", "energy_single", "soc_formula", "acc_length", "acc_last", "socAcc_last",
            "cell_le", "stored_le_terminal", "roundtrip_soc_le", "roundtrip_simple", "terminal_cell",
            "spread_length", "constant_as_single_value", "accC_last"]


def gen_case(rng, idx):
    spec = comps.gen_storage_spec(rng)
    n = int(rng.choice([1, 1, 2, 3, 5, 8]))
    lim = spec["rated"]
    lo_l, hi_l = 0.0, 0.98
    if "converter" in spec:
        lim = spec["converter"]["rated"]
        lo_l, hi_l = comps.covered_range(spec["converter"]["curve"])
        hi_l = min(hi_l, 0.98)
    mode = str(rng.choice(["mixed", "mixed", "roundtrip", "zeros"]))
    if mode == "roundtrip":
        n = 2 * int(rng.integers(1, 4))
        x = [float(np.round(rng.uniform(max(lo_l, 0.02), hi_l) * lim, 3)) for _ in range(n // 2)]
        p = x + [-v for v in x]
        d = [float(rng.choice([1.0, 60.0, 900.0])) for _ in range(n // 2)]
        dt = d + d
    else:
        p = []
        for _ in range(n):
            r = rng.random()
            if r < 0.15 or mode == "zeros" and r < 0.6:
                p.append(0.0)
            else:
                p.append(float(np.round(rng.choice([-1, 1]) * rng.uniform(max(lo_l, 0.02), hi_l) * lim, 3)))
        dt = [float(np.round(rng.choice([1.0, 10.0, 60.0, rng.uniform(0.5, 3600)]), 2)) for _ in range(n)]
    scalar_dt = n == 1 and rng.random() < 0.5
    if "converter" in spec and rng.random() < 0.25:
        # the store behind the converter is revised after the system was assembled (an aged battery): the system is asked
        # with the efficiencies its store has NOW (seeded change C17-r6: the system kept the copies it took at construction)
        spec["revised"] = {"eta_c": float(np.round(rng.uniform(0.6, 1.0), 3)), "eta_d": float(np.round(rng.uniform(0.6, 1.0), 3))}
    if mode != "roundtrip" and n > 1 and rng.random() < 0.2:
        # a constant terminal power held as a single value (an array of one element or a python number) over the interval series
        mode = "constant-single"
        p = p[:1]
        how = str(rng.choice(["one-element array", "python number"]))
        core.axis("constant_terminal_power", how)
        return {"idx": idx, "spec": spec, "p": p, "dt": dt, "mode": mode, "p_as_number": how == "python number"}
    return {"idx": idx, "spec": spec, "p": p, "dt": dt[0] if scalar_dt else dt, "mode": mode}


def run_case(ctx, case, model=True):
    spec = case["spec"]
    comp = comps.make_storage(spec)
    if spec.get("revised"):
        store = comp.battery if spec["kind"] == "battery_system" else comp.supercapacitor
        store.eff_charging, store.eff_discharging = spec["revised"]["eta_c"], spec["revised"]["eta_d"]
        spec = dict(spec, eta_c=spec["revised"]["eta_c"], eta_d=spec["revised"]["eta_d"])
        ctx.count("store_revised_after_assembly", spec["kind"])
    p = np.array(case["p"], dtype=float)
    dt = case["dt"] if not isinstance(case["dt"], list) else np.array(case["dt"], dtype=float)
    where = {"case": case}
    ctx.count("kind", spec["kind"])
    ctx.count("mode", case["mode"])
    comp.power_input = float(p[0]) if case.get("p_as_number") else p.copy()
    M = IntegrationMethod.sum_with_time
    try:
        e = comp.get_energy_stored_kj(dt, M)
        soc = comp.get_soc(dt, M)
        if isinstance(dt, np.ndarray):
            e_acc = comp.get_energy_stored_kj(dt, M, accumulated_time_series=True)
            soc_acc = comp.get_soc(dt, M, accumulated_time_series=True)
        else:
            e_acc = soc_acc = None
    except Exception as ex:
        ctx.fail("predicate", "storage-raises-" + core.error_class(ex), f"{type(ex).__name__}: {ex}", where)
        return False
    if not np.array_equal(np.atleast_1d(comp.power_input), p):
        ctx.fail("predicate", "storage-input-mutated", f"power_input changed: {p} -> {comp.power_input}", where)
    # oracle: converter output at every sample
    if "converter" in spec:
        conv = comp.converter.get_power_output_from_bidirectional_input(p.copy())[0]
        conv = np.asarray(conv, dtype=float)
        viol = [(float(a), float(b)) for a, b in zip(p, conv) if b > a + 1e-9 * max(1, abs(a))]
        ctx.count("converter_contract", "violated" if viol else "ok")
        # the converter with NO oracle: its characteristic and its interpolated inverse computed by the model from the spec's
        # points (Comp.invTable through Pchip); from here on the model's own values are what the storage model is given
        if model and ctx.model_available:
            cv = spec["converter"]["curve"]
            cpts = [[enc(a), enc(b)] for a, b in (cv if isinstance(cv[0], list) else [[1.0, cv[0]]])]
            try:
                mconv = [dec(v) for v in ctx.model.call("comp.convert_modelled", rated=enc(spec["converter"]["rated"]), points=cpts,
                                                        dir="out_from_in", p=[enc(x) for x in p])]
                ctx.count("converter_modelled_without_oracle", spec["kind"])
                if not all(close(a, float(b), scale=spec["converter"]["rated"]) for a, b in zip(mconv, conv)):
                    ctx.fail("correspondence", "converter-modelled", f"model {[float(x) for x in mconv]} impl {conv.tolist()}", where)
            except core.ModelReject as e:
                ctx.fail("correspondence", "converter-model-rejects", f"{e}", where)
    else:
        conv = p.copy()
        viol = []
    # predicates on the implementation alone
    if case["mode"] == "constant-single":      # the constant written out: what the figures are judged against
        single = p
        p = np.full(len(dt), p[0])
        conv = np.full(len(dt), conv[0])
    dts = np.broadcast_to(np.asarray(dt, dtype=float), p.shape)
    cap = spec["capacity"]
    div = 3.6 if spec["kind"].startswith("supercap") else 3600.0
    if not close(soc, spec["soc0"] + e / div / cap):
        ctx.fail("predicate", "soc-formula", f"soc {soc} != soc0 + E/{div}/cap = {spec['soc0'] + e / div / cap}", where)
    if e_acc is not None:
        if len(e_acc) != len(p) + 1 or e_acc[0] != 0:
            ctx.fail("predicate", "acc-shape", f"accumulated series {e_acc} for {len(p)} samples", where)
        elif not close(e_acc[-1], e, scale=float(np.dot(np.abs(p), dts))) or not close(soc_acc[-1], soc):
            ctx.fail("predicate", "acc-last", f"last accumulated {e_acc[-1]} vs total {e}", where)
    terminal = float(np.dot(p, dts))
    if e > terminal + 1e-9 * max(1.0, abs(terminal), float(np.dot(np.abs(p), dts))):
        tag = "stored-exceeds-terminal" + ("-converter-contract" if viol else "")
        ctx.fail("predicate", tag, f"stored {e} kJ > terminal {terminal} kJ", where)
    # correspondence
    if model and ctx.model_available:
        out = ctx.model.call("storage.eval", eta_c=enc(spec["eta_c"]), eta_d=enc(spec["eta_d"]), soc0=enc(spec["soc0"]),
                             capacity=enc(cap), supercap=spec["kind"].startswith("supercap"),
                             p=[enc(x) for x in (single if case["mode"] == "constant-single" else p)],
                             conv=[enc(x) for x in (conv[:1] if case["mode"] == "constant-single" else conv)],
                             dt=[enc(x) for x in dt] if isinstance(dt, np.ndarray) else enc(dt))
        scale = float(np.dot(np.abs(p), dts))
        if out["energy"] is None:
            ctx.fail("correspondence", "model-rejects", "model rejects what the code accepts", where)
            return True
        if not close(dec(out["energy"]), e, scale=scale):
            ctx.fail("correspondence", "energy", f"model {float(dec(out['energy']))} impl {e}", where)
        if not close(dec(out["soc"]), soc):
            ctx.fail("correspondence", "soc", f"model {float(dec(out['soc']))} impl {soc}", where)
        if e_acc is not None:
            ma, ms = [dec(x) for x in out["energy_acc"]], [dec(x) for x in out["soc_acc"]]
            if len(ma) != len(e_acc) or not all(close(a, b, scale=scale) for a, b in zip(ma, e_acc)):
                ctx.fail("correspondence", "energy-acc", f"model {[float(x) for x in ma]} impl {list(e_acc)}", where)
            if len(ms) != len(soc_acc) or not all(close(a, b) for a, b in zip(ms, soc_acc)):
                ctx.fail("correspondence", "soc-acc", f"model {[float(x) for x in ms]} impl {list(soc_acc)}", where)
    # the caller changes its own series in place (p *= -1: the same energy back) and asks again: the answer follows the series now held,
    # i.e. equals what a fresh unit reports for it
    if case["idx"] % 3 == 0 and any(case["p"]) and not case.get("p_as_number"):
        try:
            comp.power_input *= -1
            e2, soc2 = comp.get_energy_stored_kj(dt, M), comp.get_soc(dt, M)
            fresh = comps.make_storage({k: v for k, v in spec.items() if k != "revised"})
            fresh.power_input = -p
            e3, soc3 = fresh.get_energy_stored_kj(dt, M), fresh.get_soc(dt, M)
            ctx.count("series_changed_in_place_between_queries", True)
            if not close(e2, e3, scale=scale if model and ctx.model_available else abs(e3)) or not close(soc2, soc3):
                ctx.fail("predicate", "answer-ignores-series-changed-in-place", f"after p *= -1: energy {e2} soc {soc2}; a fresh unit with -p: {e3}, {soc3}", where)
        except Exception as ex:
            ctx.fail("predicate", "storage-raises-" + core.error_class(ex), f"second query: {type(ex).__name__}: {ex}", where)
    return True


CORPUS = core.VERIF / "corpus" / "C17"


def run(ctx):
    ctx.rule = ("battery / battery system / supercapacitor / supercapacitor system with random capacity, efficiencies in "
                "[0.6,1], initial SoC, converter curves accepted by the constructor; terminal power series of 1-8 samples, "
                "mixed sign / zeros / charge-then-discharge of equal terminal energy, inside the converter curve's covered "
                "load range; scalar interval for single samples; non-trivial = some non-zero sample; distinct by "
                "(kind, sign pattern, n, scalar/series interval)")
    ctx.assumptions += ["converter value per sample is an oracle read from the real converter object",
                        "sum_with_time integration (the only method the accumulated variant supports)"]
    cases = []
    if CORPUS.exists():
        cases += [json.loads(p.read_text()) for p in sorted(CORPUS.glob("*.json"))]
    ncorp = len(cases)
    cases += [gen_case(ctx.rng, i) for i in range(ctx.n(300, 8000))]
    for ci, case in enumerate(cases):
        run_case(ctx, case)
        sig = (case["spec"]["kind"], tuple(int(np.sign(x)) for x in case["p"]), isinstance(case["dt"], list))
        ctx.case_done(signature=sig if any(x != 0 for x in case["p"]) else None,
                      sample=case if ci in (ncorp, ncorp + 1) else None)
    ctx.extra["corpus_cases"] = ncorp


def search(ctx):
    for i in range(5000):
        run_case(ctx, gen_case(ctx.rng, 100_000 + i), model=False)
        if any(f["kind"] == "predicate" and not ctx.is_known(f) for f in ctx.failures):
            return


def replay(data):
    ctx = core.Ctx("C17", "quick", data.get("seed", 0))
    ctx.model_available = core.DRIVER.exists()
    run_case(ctx, data["case"]["case"])
    for f in ctx.failures:
        print(f"{f['kind']}: {f['tag']}: {f['what'][:300]}")
    if ctx._model:
        ctx._model.close()
    return 1 if ctx.failures else 0
