"""The interpolation rule of every FEEMS curve, inside the model (`Feems.Pchip`).

Until this module the shape-preserving cubic interpolant (scipy's `PchipInterpolator`) was an oracle of the
correspondence.  It is a rational function of the points, so the model now has it exactly over `Rat`
(`FeemsModel/Model/Pchip.lean`), with theorems that hold for every list of points
(`FeemsProofs/Lemmas/PchipLemmas.lean`, `FeemsProofs/CurveProps.lean`): the curve goes through the given points,
stays between neighbouring given values (no overshoot, any data), keeps monotone data monotone, is the straight
line through two points.

Correspondence, three families (one per property that speaks of curves):
  efficiency  `get_efficiency_curve_from_points` and a real `ElectricComponent.get_efficiency_from_load_percentage`
              (clamped to [0.01, 1]) — C06
  bsfc        a real `Engine`: `get_engine_run_point_from_power_out_kw(load x rated).bsfc_g_per_kWh` — C07
  emission    a real `Engine` with an emission curve: `emissions_g_per_kwh(species, load)` — C09
each against `pchip.curve` of the model at the given points, between them and outside them (extrapolation with
the end cubics), points listed in any order; plus scipy's own slopes against `pchip.derivs`.
Predicates on the implementation alone: the curve takes the given value at every given point; inside the range of the
points it lies between the two neighbouring given values.
"""
from __future__ import annotations

import numpy as np

from .. import core, plants
from ..core import enc, dec, close
from feems.components_model.utility import get_efficiency_curve_from_points
from feems.components_model.component_electric import ElectricComponent
from feems.types_for_feems import TypeComponent, TypePower, Power_kW, SwbId, EmissionType

CURVE_THEOREMS = {
    "C06": ["efficiency_curve_within", "efficiency_curve_through_points", "inverse_exact_at_samples", "inverse_monotone",
            "interp_inverse_modelled", "table_strict", "knotOut_rising"],
    "C07": ["curve_through_points", "curve_single", "curve_order_free", "fuel_within_points", "curve_rejects_repeated_abscissa", "curve_between_points", "curve_monotone", "curve_two_points_linear"],
    "C09": ["emission_curve_through_points", "emission_curve_single", "emission_curve_order_free", "emission_curve_nonneg"],
}
PROOF_MODULES = ["FeemsProofs.CurveProps"]
DEPENDS = ["FeemsProofs.Lemmas.PchipLemmas", "FeemsProofs.CurveProps"]


def gen_points(rng, family):
    n = int(rng.choice([1, 2, 3, 4, 5, 6, 8], p=[0.1, 0.15, 0.2, 0.2, 0.15, 0.1, 0.1]))
    top = float(rng.choice([1.0, 1.0, 1.1, 0.9]))
    grid = np.arange(0.0 if rng.random() < 0.3 else 0.05, top + 1e-9, 0.05)
    if rng.random() < 0.25:       # abscissae that are not on a grid, some very close to each other
        xs = np.unique(np.round(rng.uniform(0.02, top, n), 4))
        if rng.random() < 0.5 and len(xs) >= 2:
            xs[1] = np.round(xs[0] + 0.0011, 4)
            xs = np.unique(xs)
    else:
        xs = np.sort(rng.choice(grid, size=min(n, len(grid)), replace=False))
    n = len(xs)
    shape = str(rng.choice(["rising", "falling", "valley", "hill", "free", "flat-run"]))
    if family == "efficiency":
        lo, hi = 0.5, 0.99
    elif family == "bsfc":
        lo, hi = 170.0, 260.0
    else:
        lo, hi = 0.0, 12.0
    ys = rng.uniform(lo, hi, n)
    if shape == "rising":
        ys = np.sort(ys)
    elif shape == "falling":
        ys = np.sort(ys)[::-1]
    elif shape in ("valley", "hill") and n >= 3:
        k = int(rng.integers(1, n - 1))
        ys = np.concatenate([np.sort(ys[:k + 1])[::-1], np.sort(ys[k + 1:])])
        if shape == "hill":
            ys = lo + hi - ys
    elif shape == "flat-run" and n >= 3:
        k = int(rng.integers(0, n - 1))
        ys[k + 1] = ys[k]
    digits = 4 if family == "efficiency" else 2
    pts = [[float(np.round(x, 4)), float(np.round(y, digits))] for x, y in zip(xs, ys)]
    if n >= 2 and rng.random() < 0.06:
        # the malformed stream: one abscissa given twice (with another value) - the interpolant is refused by the code (scipy: "x must
        # be strictly increasing") and by the model (`acceptedB`), never evaluated
        k = int(rng.integers(0, n - 1))
        pts[k + 1][0] = pts[k][0]
        shape = "abscissa-twice"
    order = [int(i) for i in rng.permutation(n)]
    return {"family": family, "shape": shape, "points": [pts[i] for i in order]}


def real_curve(case, ts):
    """(values of the curve at ts as the repository gives them, a second reading through a component or None)"""
    pts = sorted(case["points"])
    fam = case["family"]
    if fam == "efficiency":
        arr = np.array(case["points"], dtype=float) if len(pts) > 1 else np.array([pts[0][1]])
        f, _ = get_efficiency_curve_from_points(arr)
        raw = [float(f(t)) for t in ts]
        comp_vals = None
        try:
            comp = ElectricComponent(type_=TypeComponent.POWER_CONVERTER, name="c", rated_power=Power_kW(1000.0), eff_curve=arr,
                                     power_type=TypePower.NONE, switchboard_id=SwbId(1))
            comp_vals = [float(comp.get_efficiency_from_load_percentage(t)) for t in ts]
        except Exception:
            pass       # the constructor's monotonicity test refuses some characteristics (C06's own subject)
        return raw, comp_vals
    if fam == "bsfc":
        eng = plants.build_engine({"rated": 1000.0, "speed": 900.0, "bsfc": case["points"] if len(pts) > 1 else [pts[0][1]]})
        rp = eng.get_engine_run_point_from_power_out_kw(np.array(ts, dtype=float) * 1000.0)
        series = [float(v) for v in np.broadcast_to(np.atleast_1d(rp.bsfc_g_per_kWh), (len(ts),))]
        single = [float(np.atleast_1d(eng.get_engine_run_point_from_power_out_kw(float(t) * 1000.0).bsfc_g_per_kWh)[0]) for t in ts]
        return series, single
    eng = plants.build_engine({"rated": 1000.0, "speed": 900.0, "bsfc": [200.0], "nox": "TIER_2",
                               "emissions": [{"species": "CO", "points": [list(p) for p in case["points"]]}]})
    series = [float(v) for v in np.broadcast_to(np.atleast_1d(eng.emissions_g_per_kwh(EmissionType.CO, np.array(ts, dtype=float))), (len(ts),))]
    single = [float(np.atleast_1d(eng.emissions_g_per_kwh(EmissionType.CO, float(t)))[0]) for t in ts]
    return series, single


def real_curve_series(case, ts):
    """the curve read for a whole series at once (bsfc / emission families)"""
    if case["family"] == "bsfc":
        eng = plants.build_engine({"rated": 1000.0, "speed": 900.0, "bsfc": case["points"]})
        rp = eng.get_engine_run_point_from_power_out_kw(np.array(ts, dtype=float) * 1000.0)
        return [float(v) for v in np.atleast_1d(rp.bsfc_g_per_kWh)], None
    eng = plants.build_engine({"rated": 1000.0, "speed": 900.0, "bsfc": [200.0], "nox": "TIER_2",
                               "emissions": [{"species": "CO", "points": [list(p) for p in case["points"]]}]})
    return [float(v) for v in np.atleast_1d(eng.emissions_g_per_kwh(EmissionType.CO, np.array(ts, dtype=float)))], None


def run_curve_case(ctx, case, rng, model=True):
    where = {"case": dict(case, kind="curve")}
    if case["shape"] == "abscissa-twice":
        ctx.count("curve_family", case["family"])
        ctx.count("curve_shape", "abscissa-twice")
        try:
            real_curve(case, [0.5])
            refused = False
        except Exception:
            refused = True
        if not refused:
            ctx.fail("predicate", "curve-with-an-abscissa-twice-accepted", f"{case['family']}: points {case['points']} were interpolated", where)
        if model and ctx.model_available:
            try:
                ctx.model.call("pchip.curve", points=[[enc(p[0]), enc(p[1])] for p in case["points"]], at=[enc(0.5)])
                ctx.fail("correspondence", "curve-acceptance", "the model accepts a point list with an abscissa given twice", where)
            except core.ModelReject:
                pass
        ctx.case_done(signature=("curve", case["family"], len(case["points"]), "abscissa-twice"))
        return
    pts = sorted(case["points"])
    xs, ys = [p[0] for p in pts], [p[1] for p in pts]
    fam = case["family"]
    ctx.count("curve_family", fam)
    ctx.count("curve_points", len(pts))
    ctx.count("curve_shape", case["shape"] if len(pts) > 2 else f"{len(pts)}-point")
    lo_t = 0.0 if fam != "efficiency" else 0.0
    inside = [float(np.round(rng.uniform(xs[0], xs[-1]), 4)) for _ in range(4)] if len(pts) > 1 else [0.3, 0.7]
    mids = [float(np.round((a + b) / 2, 5)) for a, b in zip(xs, xs[1:])]
    outside = [float(np.round(max(lo_t, xs[0] - 0.07), 4)), float(np.round(xs[-1] + 0.04, 4))]
    ts = list(xs) + inside + mids + outside
    n_in = len(xs) + len(inside) + len(mids)
    try:
        vals, second = real_curve(case, ts)
    except Exception as e:
        ctx.fail("predicate", "curve-raises-" + core.error_class(e), f"{type(e).__name__}: {e}", where)
        return
    scale = max(1.0, max(abs(y) for y in ys))
    # predicates on the implementation alone
    for x, y, v in zip(xs, ys, vals):
        if not close(v, y, scale=scale):
            ctx.fail("predicate", "curve-misses-given-point", f"{fam}: at {x} the curve gives {v}, the given point is {y}", where)
    if len(pts) > 1:
        for t, v in zip(ts[:n_in], vals[:n_in]):
            k = max(i for i in range(len(xs) - 1) if xs[i] <= t)
            a, b = min(ys[k], ys[k + 1]), max(ys[k], ys[k + 1])
            if not (a - 1e-9 * scale <= v <= b + 1e-9 * scale):
                ctx.fail("predicate", "curve-overshoots-neighbouring-points", f"{fam}: at {t} the curve gives {v}, neighbours {ys[k]}, {ys[k + 1]}", where)
    if second is not None:
        want = [min(1.0, max(0.01, v)) for v in vals] if fam == "efficiency" else vals
        if not all(close(a, b, scale=scale) for a, b in zip(second, want)):
            ctx.fail("predicate", "curve-reading-differs", f"{fam}: one by one / through the component {second} vs {want}", where)
    # a long series (a day at one-minute steps and more) is read like a short one, also above 100 % load (seeded change C09-r4:
    # a 1001-entry lookup table on [0, 1] for series longer than the table)
    if fam != "efficiency" and len(pts) > 1 and rng.random() < 0.3:
        m = int(rng.choice([1002, 1500, 2500]))
        long_ts = np.round(rng.uniform(xs[0], xs[-1], m), 4)
        long_ts[:len(ts)] = ts
        try:
            long_vals, _ = real_curve_series(case, long_ts)
            ctx.count("curve_long_series", m)
            if not all(close(a, b, scale=scale) for a, b in zip(long_vals[:len(ts)], vals)):
                ctx.fail("predicate", "curve-long-series-differs", f"{fam}: the first {len(ts)} of {m} samples {long_vals[:len(ts)]} vs read on their own {vals}", where)
        except Exception as e:
            ctx.fail("predicate", "curve-raises-" + core.error_class(e), f"long series: {type(e).__name__}: {e}", where)
    # correspondence with the model
    if model and ctx.model_available:
        out = [dec(v) for v in ctx.model.call("pchip.curve", points=[[enc(p[0]), enc(p[1])] for p in case["points"]], at=[enc(t) for t in ts])]
        for t, m, v in zip(ts, out, vals):
            if not close(m, v, scale=scale * (1.0 if xs[0] <= t <= xs[-1] else 10.0)):
                ctx.fail("correspondence", "curve-value", f"{fam}: at {t}: model {float(m)} impl {v}", where)
        if len(pts) > 1:
            from scipy.interpolate import PchipInterpolator
            d_impl = PchipInterpolator(xs, ys).derivative()(np.array(xs))
            d_model = [dec(v) for v in ctx.model.call("pchip.derivs", points=[[enc(a), enc(b)] for a, b in pts])]
            if not all(close(a, float(b), scale=max(1.0, float(np.max(np.abs(d_impl))))) for a, b in zip(d_model, d_impl)):
                ctx.fail("correspondence", "curve-slopes", f"model {[float(x) for x in d_model]} scipy {d_impl.tolist()}", where)
    ctx.case_done(signature=("curve", fam, len(pts), case["shape"]))


def run_curves(ctx, family, quick, thorough, model=True):
    rng = np.random.default_rng(ctx.seed * 7919 + {"efficiency": 1, "bsfc": 2, "emission": 3}[family])
    for _ in range(ctx.n(quick, thorough)):
        run_curve_case(ctx, gen_points(rng, family), rng, model=model)
    ctx.assumptions.append("the interpolant of every curve is modelled exactly over Rat (Feems.Pchip) and compared with scipy's and the repository's "
                           "curve functions to 1e-9 (1e-8 beyond the last point, where the end cubic is extrapolated)")


def replay_curve(ctx, case):
    rng = np.random.default_rng(0)
    run_curve_case(ctx, case, rng)
