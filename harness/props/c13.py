"""C13 — protobuf system description round-trips to an identically behaving system.

Correspondence / predicates on the implementation: generated machinery systems over every branch of
the two converters (gensets incl. dual fuel and rectifier, generators, fuel-cell systems, COGES with
and without turbine curves, batteries / supercapacitors with and without converter, serial drives,
PTI/PTO, loads; main engines with and without gearbox, propellers; electric, mechanical-with-electric
and hybrid plants; every member of the fuel, origin, cycle, tier and species enums) are converted to the
protobuf description, serialised, parsed and converted back with the real code:
 (a) a structural dump of the public attributes the simulation reads (ratings, curves as point lists,
     fuels and origin, cycle, NOx method, emission curves, storage parameters, gearbox, module count,
     switchboard / shaft-line membership) must agree between the original and the round-tripped
     system, up to the normalisations that preserve behaviour (a single value is a constant curve, a
     rectifier is folded into the generator curve, stage types collapse to converter / machine);
 (b) the description of the round-tripped system is stable: converting it back and forth again gives
     the same message, up to the order of subsystems;
 (c) both systems give the same power balance, fuel and emission results on the same random inputs.
The Lean side (`Feems.Proto`, `Feems.Props.C13`) models the converters on a description datatype;
the enum tables are regenerated from the Python enums and the compiled descriptors on every run.
"""
from __future__ import annotations

import copy
import json

import numpy as np

from .. import core, comps, plants, result_common as R, elec_common as E, mech_common as M
from ..core import close
from . import c19
from feems.fuel import FuelSpecifiedBy
from feems.system_model import ElectricPowerSystem, HybridPropulsionSystem, MechanicalPropulsionSystemWithElectricPowerSystem
import MachSysS.system_structure_pb2 as proto
from MachSysS import convert_to_protobuf as to_pb, convert_to_feems as to_fe



# ---------------------------------------------------------------- structural dump

def pts(a):
    """curve points as a canonical list; a constant 2-point curve and a single value are the same"""
    if a is None:
        return None
    a = np.asarray(a, dtype=float)
    if a.ndim == 1:
        return ("const", round(float(a[-1]), 12))
    if a.shape[0] == 2 and a[0, 1] == a[1, 1] and a[0, 0] == 0 and a[1, 0] == 1:
        return ("const", round(float(a[0, 1]), 12))
    return tuple((round(float(x), 12), round(float(y), 12)) for x, y in a)


def dump_engine(e):
    d = {"rated": e.rated_power, "speed": e.rated_speed, "bsfc": pts(e.specific_fuel_consumption_points), "fuel": (e.fuel_type.name, e.fuel_origin.name),
         "nox": e.nox_calculation_method.name, "cycle": e.engine_cycle_type.name,
         "emissions": sorted((c.emission.name, tuple((p.load_ratio, p.emission_g_per_kwh) for p in c.points_per_kwh)) for c in (e.emission_curves or []))}
    if hasattr(e, "specific_pilot_fuel_consumption_points"):
        d["pilot"] = (pts(e.specific_pilot_fuel_consumption_points), e.pilot_fuel_type.name, e.pilot_fuel_origin.name)
    return d


def dump_basic(c):
    return {"rated": c.rated_power, "eff": pts(c._efficiency_points)}


def dump_component(c):
    t = c.type.name
    d = {"type": t, "power_type": c.power_type.name, "rated": float(c.rated_power)}
    cls = type(c).__name__
    if cls == "Genset":
        d["engine"] = dump_engine(c.aux_engine)
        d["generator"] = dump_basic(c.generator)
        d["generator"]["speed"] = c.generator.rated_speed
    elif cls == "FuelCellSystem":
        d["cell"] = dict(dump_basic(c.fuel_cell), fuel=(c.fuel_cell.fuel_type.name, c.fuel_cell.fuel_origin.name))
        d["converter"] = dump_basic(c.converter)
        d["modules"] = c.number_modules
    elif cls == "COGES":
        g = c.cogas
        d["cogas"] = dict(dump_basic(g), speed=g.rated_speed, fuel=(g.fuel_type.name, g.fuel_origin.name), nox=g.nox_calculation_method.name,
                          gt=pts(g.gas_turbine_power_curve), st=pts(g.steam_turbine_power_curve),
                          emissions=sorted((e.emission.name, tuple((p.load_ratio, p.emission_g_per_kwh) for p in e.points_per_kwh)) for e in (g.emission_curves or [])))
        d["generator"] = dict(dump_basic(c.generator), speed=c.generator.rated_speed)
    elif cls in ("Battery", "BatterySystem"):
        b = c
        d["battery"] = {"cap": b.rated_capacity_kWh, "c": b.charging_rate_C, "d": b.discharging_rate_C, "ec": b.eff_charging, "ed": b.eff_discharging, "soc0": b.soc0}
        if cls == "BatterySystem":
            d["converter"] = dump_basic(c.converter)
    elif cls in ("SuperCapacitor", "SuperCapacitorSystem"):
        d["supercap"] = {"cap": c.rated_capacity_Wh, "ec": c.eff_charging, "ed": c.eff_discharging, "soc0": c.soc0}
        if cls == "SuperCapacitorSystem":
            d["converter"] = dump_basic(c.converter)
    elif cls in ("SerialSystemElectric", "PTIPTO"):
        d["stages"] = [dict(dump_basic(s), kind="machine" if s.type.name in ("SYNCHRONOUS_MACHINE", "INDUCTION_MACHINE", "ELECTRIC_MOTOR") else ("transformer" if s.type.name == "TRANSFORMER" else "converter")) for s in c.components]
        d["speed"] = c.rated_speed
        if cls == "PTIPTO":
            d["shaft_line"] = c.shaft_line_id
    elif cls in ("MainEngineForMechanicalPropulsion", "MainEngineWithGearBoxForMechanicalPropulsion"):
        d["engine"] = dump_engine(c.engine)
        d["gearbox"] = dump_basic(c.gearbox) if hasattr(c, "gearbox") else None
    else:
        d.update(dump_basic(c))
        if hasattr(c, "rated_speed"):
            d["speed"] = c.rated_speed
    return d


def dump_system(system):
    out = {"electric": {}, "mechanical": {}, "bus_ties": None}
    es = system if isinstance(system, ElectricPowerSystem) else getattr(system, "electric_system", None)
    ms = getattr(system, "mechanical_system", None)
    if es is not None:
        for sid, swb in es.switchboards.items():
            out["electric"][int(sid)] = {c.name: dump_component(c) for c in swb.components}
        out["bus_ties"] = sorted(tuple(sorted(int(x) for x in b.switchboard_ids)) for b in es.bus_tie_breakers)
    if ms is not None:
        for sl in ms.shaft_line:
            out["mechanical"][int(sl.id)] = {c.name: dump_component(c) for c in sl.components}
    return out


def diff_dump(a, b, path=""):
    """list of paths where two dumps differ (numbers with tolerance)"""
    out = []
    if isinstance(a, dict) and isinstance(b, dict):
        for k in sorted(set(a) | set(b), key=str):
            if k not in a or k not in b:
                out.append(f"{path}/{k}: only in {'original' if k in a else 'round-tripped'}")
            else:
                out += diff_dump(a[k], b[k], f"{path}/{k}")
    elif isinstance(a, (list, tuple)) and isinstance(b, (list, tuple)):
        if len(a) != len(b):
            out.append(f"{path}: length {len(a)} vs {len(b)}")
        else:
            for i, (x, y) in enumerate(zip(a, b)):
                out += diff_dump(x, y, f"{path}[{i}]")
    elif isinstance(a, (int, float)) and isinstance(b, (int, float)) and not isinstance(a, bool):
        if not close(a, b):
            out.append(f"{path}: {a} vs {b}")
    elif a != b:
        out.append(f"{path}: {a!r} vs {b!r}")
    return out


def normalize_expected(d):
    """the behaviour-preserving representational changes of a round trip, applied to the original's dump"""
    d = copy.deepcopy(d)
    for side in ("electric", "mechanical"):
        for node in d[side].values():
            for c in node.values():
                if c["type"] == "GENSET":
                    pass           # the rectifier is already folded into Genset.generator at construction
    return d


# ---------------------------------------------------------------- generation

def gen_spec(rng, idx):
    kind = str(rng.choice(["electric", "electric", "mech_elec", "hybrid"]))
    n_swb = int(rng.choice([1, 2, 3], p=[0.35, 0.45, 0.2]))
    swbs = list(range(1, n_swb + 1))
    if rng.random() < 0.3:          # switchboard numbers need not be 1..n: the chain runs over the sorted numbers
        swbs = sorted(int(x) for x in rng.choice(np.arange(1, 10), size=n_swb, replace=False))
        core.axis("switchboard_numbers", "not 1..n")
    else:
        core.axis("switchboard_numbers", "1..n")
    el = []
    for s in swbs:
        for i in range(int(rng.integers(1, 4))):
            el.append(plants.gen_source_spec(rng, f"src{s}_{i}", s))
        for i in range(int(rng.integers(0, 3))):
            r = float(np.round(rng.uniform(100, 1500), 0))
            if rng.random() < 0.5:
                el.append({"kind": "other_load", "name": f"load{s}_{i}", "swb": s, "rated": r, "curve": comps.gen_accepted_curve(rng, r)})
            else:
                el.append(plants.gen_serial_spec(rng, "drive", f"drive{s}_{i}", s, r, n_stages=int(rng.choice([1, 2, 3]))))
        if rng.random() < 0.5:
            st = comps.gen_storage_spec(rng)
            st.update(name=f"ess{s}", swb=s)
            el.append(st)
    if not any(c["kind"] in ("other_load", "drive") for c in el):
        el.append({"kind": "other_load", "name": "load_x", "swb": swbs[0], "rated": 400.0, "curve": [0.97]})
    spec = {"type": "electric", "name": "sys", "electric": el, "bus_ties": [[i, i + 1] for i in swbs[:-1]]}
    if kind != "electric":
        mech, ptis, ids = plants.gen_mech_components(rng, n_lines=int(rng.choice([1, 2, 2])), pti_swb=int(rng.choice(swbs)), force_pti=(kind == "hybrid"))
        ids_map = {old: i + 1 for i, old in enumerate(sorted(ids))}
        for c in mech:
            c["shaft_line"] = ids_map[c["shaft_line"]]
        fixed = []
        for p in ptis:
            p2 = plants.gen_serial_spec(rng, "pti_pto", p["name"], int(rng.choice(swbs)), p["rated"], n_stages=int(rng.choice([1, 2, 3])), shaft_line=ids_map[p["shaft_line"]])
            fixed.append(p2)
        if kind == "mech_elec":
            fixed = []
        spec.update(type="hybrid" if kind == "hybrid" else "mech_elec", lines=sorted(ids_map.values()))
        spec["electric"] = [c for c in el if c["kind"] != "drive"] + fixed
        if not any(c["kind"] == "other_load" for c in spec["electric"]):
            spec["electric"].append({"kind": "other_load", "name": "load_y", "swb": swbs[0], "rated": 400.0, "curve": [0.97]})
        spec["mechanical"] = mech + [{"kind": "pti_pto_ref", "name": p["name"]} for p in fixed]
    if rng.random() < (0.7 if kind == "hybrid" else 0.35):       # user-style names: "Genset 1" on every switchboard, "PTI/PTO 1" on every shaft line
        plants.relabel(spec)
    return {"idx": idx, "kind": kind, "spec": spec}


def to_message(plant, kind):
    if kind == "electric":
        return to_pb.convert_electric_system_to_protobuf_machinery_system(plant.system)
    if kind == "hybrid":
        return to_pb.convert_hybrid_propulsion_system_to_protobuf(plant.system)
    return to_pb.convert_mechanical_propulsion_system_with_electric_system_to_protobuf(plant.system)


def canonical(msg):
    """message as a dict with subsystems sorted by name and uids removed (they are regenerated when short)"""
    from google.protobuf.json_format import MessageToDict
    d = MessageToDict(msg, preserving_proto_field_name=True)

    def scrub(x):
        if isinstance(x, dict):
            return {k: scrub(v) for k, v in x.items() if k != "uid"}
        if isinstance(x, list):
            return [scrub(v) for v in x]
        return x
    d = scrub(d)
    for swb in d.get("electric_system", {}).get("switchboards", []):
        swb["subsystems"] = sorted(swb.get("subsystems", []), key=lambda s: s.get("name", ""))
    for sl in d.get("mechanical_system", {}).get("shaft_lines", []):
        sl["subsystems"] = sorted(sl.get("subsystems", []), key=lambda s: s.get("name", ""))
    return d


class Wrapped:
    """a converted-back system wrapped like harness.plants.Plant so the same input code applies"""

    def __init__(self, system, spec):
        self.spec, self.system = spec, system
        self.electric = system if isinstance(system, ElectricPowerSystem) else system.electric_system
        self.mechanical = getattr(system, "mechanical_system", None)
        self.by_name = {}
        # the component FEEMS calls `label` on switchboard / shaft line `node` (names repeat across nodes)
        for c in spec.get("electric", []):
            swb = self.electric.switchboards[c["swb"]]
            self.by_name[c["name"]] = next(x for x in swb.components if x.name == plants.fname(c))
        if self.mechanical is not None:
            lines = {int(sl.id): sl for sl in self.mechanical.shaft_line}
            for c in spec.get("mechanical", []):
                if c["kind"] == "pti_pto_ref":
                    continue
                self.by_name[c["name"]] = next(x for x in lines[c["shaft_line"]].components if x.name == plants.fname(c))


def run_case(ctx, case, model=True):
    where = {"case": case}
    kind, spec = case["kind"], case["spec"]
    ctx.count("plant", kind)
    for c in spec["electric"] + spec.get("mechanical", []):
        ctx.count("component", c["kind"] + ("+gearbox" if c.get("gearbox") else "") + ("+rectifier" if c.get("rectifier") else "")
                  + ("+dual" if c.get("engine", {}).get("dual") else ""))
    try:
        plant = plants.Plant(spec)
    except Exception as e:
        ctx.count("spec_rejected", core.error_class(e))
        return False
    # ---- first pass
    try:
        m1 = to_message(plant, kind)
        m1 = proto.MachinerySystem.FromString(m1.SerializeToString())
    except Exception as e:
        ctx.fail("predicate", "to-protobuf-raises-" + core.error_class(e), f"{type(e).__name__}: {e}", where)
        return False
    try:
        s2 = to_fe.convert_proto_propulsion_system_to_feems(m1)
    except Exception as e:
        # (switchboard numbers other than 1..n are read back since repo d4aeffd: a refusal is a failure whatever the numbers)
        tag = "to-feems-raises-" + core.error_class(e)
        ctx.fail("predicate", tag, f"{type(e).__name__}: {e}", where)
        return False
    # (a) structure
    d1, d2 = normalize_expected(dump_system(plant.system)), dump_system(s2)
    diffs = diff_dump(d1, d2)
    for df in diffs[:6]:
        leaf = df.split(":")[0].split("/")[-1].split("[")[0]
        tag = "round-trip-changes-" + leaf
        if df.startswith("/bus_ties"):
            tag = "breakers-and-switchboard-numbers-not-in-message"
        if "/stages" in df and case.get("outside_slots"):
            tag = "serial-train-exceeds-message-slots"
        ctx.fail("predicate", tag, df, where)
    if model and ctx.model_available and not diffs:
        lean_correspondence(ctx, case, plant, m1, s2, where)
    # (b) stability after the first pass
    try:
        w2 = Wrapped(s2, spec)
        m2 = proto.MachinerySystem.FromString(to_message(w2, kind).SerializeToString())
        s3 = to_fe.convert_proto_propulsion_system_to_feems(m2)
        m3 = proto.MachinerySystem.FromString(to_message(Wrapped(s3, spec), kind).SerializeToString())
        if canonical(m2) != canonical(m3):
            ctx.fail("predicate", "not-stable-after-first-pass", "the description changes again on a second round trip", where)
    except Exception as e:
        ctx.fail("predicate", "second-pass-raises-" + core.error_class(e), f"{type(e).__name__}: {e}", where)
    # (c) behaviour on the same inputs
    if not diffs:
        rng = np.random.default_rng(case["idx"] + 5)
        cc = {"idx": case["idx"], "kind": kind, "spec": spec}
        ein = E.gen_inputs(rng, spec, capacity_ok=True)
        if kind == "electric":
            cc["inputs"] = ein
        else:
            mi = M.gen_inputs(rng, spec, n=ein["n"], engines_ok=True)
            for c in spec["electric"]:
                if c["kind"] == "pti_pto":
                    ein["comp"][c["name"]]["mode"] = [1.0] * ein["n"]
                    ein["comp"][c["name"]]["status"] = [True] * ein["n"]
            cc["inputs"] = {"n": ein["n"], "dt": ein["dt"], "breaker": ein["breaker"], "comp": ein["comp"], "mech": mi["comp"]}
        for spec_by in (FuelSpecifiedBy.IMO, FuelSpecifiedBy.FUEL_EU_MARITIME):
            try:
                p1 = R.run_plant(cc)
                r1 = R.system_results(p1, cc, spec_by)
            except Exception as e:
                ctx.count("behaviour_rejected", core.error_class(e))
                continue
            try:
                s2b = to_fe.convert_proto_propulsion_system_to_feems(m1)
                p2 = R.run_plant(cc, plant=Wrapped(s2b, spec))
                r2 = R.system_results(p2, cc, spec_by)
            except Exception as e:
                ctx.fail("predicate", "round-tripped-system-rejects-inputs", f"{spec_by.name}: {type(e).__name__}: {e}", where)
                continue
            for side in r1:
                o1, o2 = R.observe_result(r1[side]), R.observe_result(r2[side])
                if not np.isfinite(o1["ext"]).all():
                    continue
                bad = [f for f in c19.equiv(o1, o2) if f != "detail"]
                for f in bad:
                    ctx.fail("predicate", "behaviour-differs-" + f, f"{spec_by.name} {side}: {o1[f]} vs {o2[f]}", where)
            ctx.count("behaviour_compared", spec_by.name)
    return True


CORPUS = core.VERIF / "corpus" / "C13"


def run(ctx):
    ctx.rule = ("systems {electric x2, mechanical+electric, hybrid}: 1-3 switchboards numbered 1..n with the chain of breakers, 1-3 sources each from "
                "{generator, genset(+rectifier, dual fuel, emission curves), fuel-cell system (1-4 modules), COGES (+-turbine curves)}, loads, 2-3 stage "
                "drives, battery / supercapacitor +-converter; 1-2 shaft lines with main engines (+-gearbox), propellers, 2-3 stage PTI/PTO; engine fuels "
                "over 12 type x origin pairs, all cycles, tiers and curve species; real serialise / parse; distinct by component layout")
    ctx.assumptions += ["representable class: switchboard numbers 1..n with the chain of breakers (the message has no breaker list: known finding D10e); serial "
                        "trains within the message's slots: <=1 transformer, <=2 converters, 1 machine, >=2 stages (known finding D10f)"]
    cases = []
    if CORPUS.exists():
        cases += [json.loads(p.read_text()) for p in sorted(CORPUS.glob("*.json"))]
    ncorp = len(cases)
    cases += [gen_spec(ctx.rng, i) for i in range(ctx.n(60, 1500))]
    for ci, case in enumerate(cases):
        ok = run_case(ctx, case)
        sig = json.dumps([(c["kind"], c.get("swb"), c.get("shaft_line"), bool(c.get("gearbox")), bool(c.get("rectifier"))) for c in case["spec"]["electric"] + case["spec"].get("mechanical", [])])
        ctx.case_done(signature=sig if ok else None, sample={"kind": case["kind"], "components": [c["kind"] for c in case["spec"]["electric"] + case["spec"].get("mechanical", [])]} if ci in (ncorp, ncorp + 1) else None)
    ctx.extra["corpus_cases"] = ncorp


def search(ctx):
    for i in range(400):
        run_case(ctx, gen_spec(ctx.rng, 100_000 + i), model=False)
        if any(f["kind"] == "predicate" and not ctx.is_known(f) for f in ctx.failures):
            return


def replay(data):
    ctx = core.Ctx("C13", "quick", data.get("seed", 0))
    ctx.model_available = core.DRIVER.exists()
    run_case(ctx, data["case"]["case"])
    for f in ctx.failures:
        print(f"{f['kind']}: {f['tag']}: {f['what'][:300]}")
    if ctx._model:
        ctx._model.close()
    return 1 if ctx.failures else 0


# ================================================================= Lean correspondence
# Real objects / messages -> the JSON of the Lean datatypes (derived codec: structures are objects,
# constructors are {"ctor": {args}}, pairs are arrays, Option is null or the value).

THEOREMS = ["stages_roundtrip", "putStages_keeps", "roundtrip_ecomp", "roundtrip_mcomp", "roundtrip", "ecomp_norm_rep", "ecomp_norm_idem",
            "second_pass_identity", "curve_norm_behaviour", "norm_keeps_attributes", "enums", "three_converters_lose_one",
            "chain_members", "chain_length", "chain_legacy_missing"]

from ..core import enc  # noqa: E402


def j_pts(a):
    return [[enc(float(x)), enc(float(y))] for x, y in np.asarray(a, dtype=float)]


def j_curve_obj(points, single=False):
    a = np.asarray(points, dtype=float)
    if single:
        return {"value": {"v": enc(float(a[-1][-1] if a.ndim == 2 else a[-1]))}}
    if a.ndim == 1:
        return {"value": {"v": enc(float(a[-1]))}}
    return {"points": {"p": j_pts(a)}}


def is_single(curve_spec):
    return curve_spec is not None and len(curve_spec) == 1 and not isinstance(curve_spec[0], list)


def j_engine(e, spec=None):
    pilot = None
    if hasattr(e, "specific_pilot_fuel_consumption_points"):
        pilot = [j_curve_obj(e.specific_pilot_fuel_consumption_points, is_single((spec or {}).get("dual", {}).get("bspfc"))),
                 {"type": e.pilot_fuel_type.value, "origin": e.pilot_fuel_origin.value}]
    return {"name": e.name, "rated": enc(e.rated_power), "speed": enc(e.rated_speed),
            "bsfc": j_curve_obj(e.specific_fuel_consumption_points, is_single((spec or {}).get("bsfc"))),
            "fuel": {"type": e.fuel_type.value, "origin": e.fuel_origin.value}, "nox": e.nox_calculation_method.name,
            "emis": [[c.emission.value, [[enc(p.load_ratio), enc(p.emission_g_per_kwh)] for p in c.points_per_kwh]] for c in (e.emission_curves or [])],
            "cycle": e.engine_cycle_type.value, "pilot": pilot}


def j_machine(m, curve_spec=None):
    return {"name": m.name, "rated": enc(m.rated_power), "speed": enc(m.rated_speed), "eff": j_curve_obj(m._efficiency_points, is_single(curve_spec))}


def j_conv(c, curve_spec=None):
    return {"name": c.name, "rated": enc(c.rated_power), "eff": j_curve_obj(c._efficiency_points, is_single(curve_spec))}


def j_battery(b):
    return {"name": b.name, "capacity": enc(b.rated_capacity_kWh), "chargeRate": enc(b.charging_rate_C), "dischargeRate": enc(b.discharging_rate_C),
            "effCharge": enc(b.eff_charging), "effDischarge": enc(b.eff_discharging), "soc0": enc(b.soc0)}


def j_supercap(s):
    return {"name": s.name, "capacity": enc(s.rated_capacity_Wh), "rated": enc(s.rated_power), "effCharge": enc(s.eff_charging),
            "effDischarge": enc(s.eff_discharging), "soc0": enc(s.soc0)}


def j_stage(s, curve_spec=None):
    t = s.type.name
    if t == "TRANSFORMER":
        return {"transformer": {"c": j_conv(s, curve_spec)}}
    if t in ("SYNCHRONOUS_MACHINE", "INDUCTION_MACHINE", "ELECTRIC_MOTOR"):
        m = {"name": s.name, "rated": enc(s.rated_power), "speed": enc(s.rated_speed), "eff": j_curve_obj(s._efficiency_points, is_single(curve_spec))}
        return {"machine": {"m": m}}
    return {"converter": {"c": j_conv(s, curve_spec)}}


def j_ecomp(c, sp=None):
    """sp: the component's spec (to know which curves were given as single values), or None"""
    sp = sp or {}
    cls = type(c).__name__
    if cls == "Genset":
        return {"genset": {"name": c.name, "e": j_engine(c.aux_engine, sp.get("engine")),
                           "g": j_machine(c.generator, None if sp.get("rectifier") else sp.get("generator", {}).get("curve"))}}
    if cls == "FuelCellSystem":
        fc = c.fuel_cell
        return {"fuelCell": {"name": c.name, "fc": {"name": fc.name, "rated": enc(fc.rated_power), "eff": j_curve_obj(fc._efficiency_points, is_single(sp.get("fuel_cell", {}).get("curve"))),
                                                     "fuel": {"type": fc.fuel_type.value, "origin": fc.fuel_origin.value}, "modules": int(c.number_modules)},
                             "c": j_conv(c.converter, sp.get("converter", {}).get("curve"))}}
    if cls == "COGES":
        g = c.cogas
        cs = sp.get("cogas", {})
        split = None if g.gas_turbine_power_curve is None else [j_pts(g.gas_turbine_power_curve), j_pts(g.steam_turbine_power_curve)]
        return {"coges": {"name": c.name, "cg": {"name": g.name, "rated": enc(g.rated_power), "speed": enc(g.rated_speed),
                                                  "eff": j_curve_obj(g._efficiency_points, is_single(cs.get("curve"))),
                                                  "fuel": {"type": g.fuel_type.value, "origin": g.fuel_origin.value}, "nox": g.nox_calculation_method.name,
                                                  "emis": [[e.emission.value, [[enc(p.load_ratio), enc(p.emission_g_per_kwh)] for p in e.points_per_kwh]] for e in (g.emission_curves or [])],
                                                  "split": split},
                          "g": j_machine(c.generator, sp.get("generator", {}).get("curve"))}}
    if cls in ("SerialSystemElectric", "PTIPTO"):
        stages = [j_stage(s, (sp.get("stages") or [{}] * len(c.components))[i].get("curve")) for i, s in enumerate(c.components)]
        return {"serial": {"pti": cls == "PTIPTO", "name": c.name, "rated": enc(c.rated_power), "speed": enc(c.rated_speed), "stages": stages}}
    if cls == "Battery":
        return {"battery": {"b": j_battery(c)}}
    if cls == "BatterySystem":
        return {"batterySys": {"name": c.name, "b": j_battery(c.battery), "c": j_conv(c.converter, sp.get("converter", {}).get("curve"))}}
    if cls == "SuperCapacitor":
        return {"supercap": {"s": j_supercap(c)}}
    if cls == "SuperCapacitorSystem":
        return {"supercapSys": {"name": c.name, "s": j_supercap(c.supercapacitor), "c": j_conv(c.converter, sp.get("converter", {}).get("curve"))}}
    if c.type.name == "GENERATOR":
        return {"generator": {"m": j_machine(c, sp.get("curve"))}}
    if c.type.name == "OTHER_LOAD":
        return {"load": {"c": j_conv(c, sp.get("curve"))}}
    raise ValueError(f"no Lean form for {cls} / {c.type.name}")


def j_mcomp(c, sp=None):
    sp = sp or {}
    cls = type(c).__name__
    if cls == "MainEngineWithGearBoxForMechanicalPropulsion":
        g = c.gearbox
        return {"geared": {"name": c.name, "e": j_engine(c.engine, sp.get("engine")),
                           "g": {"name": g.name, "rated": enc(g.rated_power), "speed": enc(g.rated_speed),
                                 "eff": j_curve_obj(g._efficiency_points, is_single(sp.get("gearbox", {}).get("curve")))}}}
    if cls == "MainEngineForMechanicalPropulsion":
        return {"engine": {"name": c.name, "e": j_engine(c.engine, sp.get("engine"))}}
    if cls == "PTIPTO":
        return {"pti": {"name": c.name}}
    return {"propeller": {"name": c.name, "rated": enc(c.rated_power), "speed": enc(c.rated_speed),
                          "eff": j_curve_obj(c._efficiency_points, is_single(sp.get("curve")))}}


def sys_json(system, kind, spec=None):
    e_key, m_key = {}, {}          # (FEEMS name, node) -> the case's component (names repeat across nodes)
    if spec is not None:
        e_key = {(plants.fname(c), c["swb"]): c for c in spec.get("electric", [])}
        m_key = {(plants.fname(c), c["shaft_line"]): c for c in spec.get("mechanical", []) if c["kind"] != "pti_pto_ref"}
    es = system if isinstance(system, ElectricPowerSystem) else system.electric_system
    swbs = [[int(i), [j_ecomp(c, e_key.get((c.name, int(i)))) for c in sorted(s.components, key=lambda x: x.name)]] for i, s in sorted(es.switchboards.items())]
    lines = []
    ms = getattr(system, "mechanical_system", None)
    if ms is not None:
        lines = [[int(sl.id), [j_mcomp(c, m_key.get((c.name, int(sl.id)))) for c in sorted(sl.components, key=lambda x: x.name)]] for sl in ms.shaft_line]
    return {"name": "sys", "kind": {"electric": 1, "mech_elec": 0, "hybrid": 2}[kind], "swbs": swbs, "lines": lines}


# ---- real message -> Lean Msg JSON

def j_eff_msg(eff):
    if eff.HasField("value") and eff.value > 0:
        return {"value": {"v": enc(eff.value)}}
    return {"points": {"p": [[enc(p.x), enc(p.y)] for p in eff.curve.curve.points]}}


def j_engine_msg(e):
    pilot = None
    if e.HasField("pilot_bsfc"):
        pilot = [j_eff_msg(e.pilot_bsfc), {"type": e.pilot_fuel.fuel_type, "origin": e.pilot_fuel.fuel_origin}]
    return {"name": e.name, "rated": enc(e.rated_power_kw), "speed": enc(e.rated_speed_rpm), "bsfc": j_eff_msg(e.bsfc),
            "fuel": {"type": e.main_fuel.fuel_type, "origin": e.main_fuel.fuel_origin},
            "nox": proto.Engine.NOxCalculationMethod.Name(e.nox_calculation_method),
            "emis": [[c.emission_type, [[enc(p.x), enc(p.y)] for p in c.curve.points]] for c in e.emission_curves],
            "cycle": e.engine_cycle_type, "pilot": pilot}


def sub_json(s):
    def opt(field, f):
        return [f(getattr(s, field)), getattr(s, field).order_from_switchboard_or_shaftline] if s.HasField(field) else None
    mach = lambda m: {"name": m.name, "rated": enc(m.rated_power_kw), "speed": enc(m.rated_speed_rpm), "eff": j_eff_msg(m.efficiency)}
    conv = lambda c: {"name": c.name, "rated": enc(c.rated_power_kw), "eff": j_eff_msg(c.efficiency)}
    bat = lambda b: {"name": b.name, "capacity": enc(b.energy_capacity_kwh), "chargeRate": enc(b.rated_charging_rate_c), "dischargeRate": enc(b.rated_discharging_rate_c),
                     "effCharge": enc(b.efficiency_charging), "effDischarge": enc(b.efficiency_discharging), "soc0": enc(b.initial_state_of_charge)}
    sc = lambda b: {"name": b.name, "capacity": enc(b.energy_capacity_wh), "rated": enc(b.rated_power_kw), "effCharge": enc(b.efficiency_charging),
                    "effDischarge": enc(b.efficiency_discharging), "soc0": enc(b.initial_state_of_charge)}
    fc = lambda f: {"name": f.name, "rated": enc(f.rated_power_kw), "eff": j_eff_msg(f.efficiency), "fuel": {"type": f.fuel.fuel_type, "origin": f.fuel.fuel_origin},
                    "modules": int(f.number_modules)}
    cg = lambda g: {"name": g.name, "rated": enc(g.rated_power_kw), "speed": enc(g.rated_speed_rpm), "eff": j_eff_msg(g.efficiency),
                    "fuel": {"type": g.fuel.fuel_type, "origin": g.fuel.fuel_origin}, "nox": proto.Engine.NOxCalculationMethod.Name(g.nox_calculation_method),
                    "emis": [[c.emission_type, [[enc(p.x), enc(p.y)] for p in c.curve.points]] for c in g.emission_curves],
                    "split": [[[enc(p.x), enc(p.y)] for p in g.gas_turbine_power_curve.curve.points], [[enc(p.x), enc(p.y)] for p in g.steam_turbine_power_curve.curve.points]]
                    if g.HasField("gas_turbine_power_curve") else None}
    gear = lambda g: {"name": g.name, "rated": enc(g.rated_power_kw), "speed": enc(g.rated_speed_rpm), "eff": j_eff_msg(g.efficiency)}
    return {"powerType": s.power_type, "componentType": s.component_type, "name": s.name, "rated": enc(s.rated_power_kw), "speed": enc(s.rated_speed_rpm),
            "engine": opt("engine", j_engine_msg), "machine": opt("electric_machine", mach), "transformer": opt("transformer", conv),
            "conv1": opt("converter1", conv), "conv2": opt("converter2", conv), "battery": opt("battery", bat), "supercap": opt("supercapacitor", sc),
            "fuelCell": opt("fuel_cell", fc), "cogas": opt("cogas", cg), "otherLoad": opt("other_load", conv), "gear": opt("gear", gear),
            "propeller": [j_eff_msg(s.propeller.efficiency), s.propeller.order_from_switchboard_or_shaftline] if s.HasField("propeller") else None}


def msg_json(m):
    return {"name": "sys", "kind": int(m.propulsion_type),
            "swbs": [[int(sw.switchboard_id), [sub_json(s) for s in sorted(sw.subsystems, key=lambda x: x.name)]] for sw in m.electric_system.switchboards],
            "lines": [[int(sl.shaft_line_id), [sub_json(s) for s in sorted(sl.subsystems, key=lambda x: x.name)]] for sl in m.mechanical_system.shaft_lines]}


def jdiff(a, b, path=""):
    """differences between two JSON trees; strings that are rationals compared with tolerance"""
    from ..core import dec
    out = []
    if isinstance(a, dict) and isinstance(b, dict):
        for k in sorted(set(a) | set(b)):
            if k not in a or k not in b:
                out.append(f"{path}/{k}: only on one side")
            else:
                out += jdiff(a[k], b[k], f"{path}/{k}")
    elif isinstance(a, list) and isinstance(b, list):
        if len(a) != len(b):
            out.append(f"{path}: length {len(a)} vs {len(b)}")
        else:
            for i, (x, y) in enumerate(zip(a, b)):
                out += jdiff(x, y, f"{path}[{i}]")
    elif isinstance(a, str) and isinstance(b, str) and path.split("/")[-1].split("[")[0] not in ("name", "nox"):
        try:
            if not close(dec(a), dec(b)):
                out.append(f"{path}: {a} vs {b}")
        except Exception:
            if a != b:
                out.append(f"{path}: {a!r} vs {b!r}")
    elif a != b:
        out.append(f"{path}: {a!r} vs {b!r}")
    return out


def lean_correspondence(ctx, case, plant, m1, s2, where):
    kind, spec = case["kind"], case["spec"]
    pti_labels = [plants.fname(c) for c in spec["electric"] if c["kind"] == "pti_pto"]
    if len(set(pti_labels)) < len(pti_labels):
        # the model refers to a shaft line's PTI/PTO by name (the code by object / uid): plants whose PTI/PTOs share a name are outside
        # the model's class; the round trip itself is still judged on the implementation (structure, second pass, behaviour)
        ctx.count("lean_correspondence_skipped", "pti-pto-names-shared")
        return
    # the breakers of the plant read back: the model's chain over the switchboard numbers of the message, in declaration order
    es2 = s2 if isinstance(s2, ElectricPowerSystem) else getattr(s2, "electric_system", None)
    if es2 is not None:
        try:
            ids = [int(swb.switchboard_id) for swb in m1.electric_system.switchboards]
            chain = ctx.model.call("proto.chain", ids=ids)
            real_chain = [[int(x) for x in b.switchboard_ids] for b in es2.bus_tie_breakers]
            ctx.count("lean_chain_cases")
            if chain != real_chain:
                ctx.fail("correspondence", "breaker-chain", f"model chain {chain} vs breakers of the plant read back {real_chain} (switchboards {ids})", where)
        except core.ModelReject as e:
            ctx.fail("correspondence", "breaker-chain-rejected", str(e), where)
    sys0 = sys_json(plant.system, kind, spec)             # the original, with single values as values
    ctx.count("lean_correspondence_cases")
    ctx.count("single_value_curves_in_original", inc=json.dumps(sys0).count('"value"'))
    # the model's description of the original vs the real message
    def sort_msg(m):
        for part in ("swbs", "lines"):
            for node in m[part]:
                node[1].sort(key=lambda s: s["name"])
        return m
    try:
        lm = sort_msg(ctx.model.call("proto.to_proto", sys=sys0))
        real_m = msg_json(m1)
        for d in jdiff(lm, real_m)[:4]:
            ctx.fail("correspondence", "to-proto", f"model message vs real message: {d}", where)
    except core.ModelReject as e:
        ctx.fail("correspondence", "to-proto-rejected", str(e), where)
        return
    # the model's reading of the real message vs the real round-tripped system
    def sort_sys(s):
        for part in ("swbs", "lines"):
            for node in s[part]:
                node[1].sort(key=lambda c: json.dumps(next(iter(c.values())).get("name", next(iter(next(iter(c.values())).values())) if False else 0), default=str) if False else comp_name(c))
        return s
    try:
        ls = sort_sys(ctx.model.call("proto.to_feems", msg=msg_json(m1)))
        real_s = sort_sys(sys_json(s2, kind))
        for d in jdiff(ls, real_s)[:4]:
            ctx.fail("correspondence", "to-feems", f"model system vs real round-tripped system: {d}", where)
        # and the theorem's statement on this instance: = normal form of the original
        ns = sort_sys(ctx.model.call("proto.norm", sys=sys0))
        for d in jdiff(ns, real_s)[:4]:
            ctx.fail("correspondence", "normal-form", f"normal form of the original vs real round-tripped system: {d}", where)
    except core.ModelReject as e:
        ctx.fail("correspondence", "to-feems-rejected", str(e), where)


def comp_name(c):
    body = next(iter(c.values()))
    if "name" in body:
        return body["name"]
    inner = next(iter(body.values()))
    return inner.get("name", "") if isinstance(inner, dict) else ""
