"""C09 — NOx and curve-based emissions follow the IMO limits and given curves.

The Regulation-13 constants are *data*: `Generated/NoxConstants.lean` is rewritten from
`feems/constant.py` on every run; `Feems.Props.C09.values` pins them and the laws (positive, never
increasing with speed also across 130 rpm, Tier I >= II >= III up to 2000 rpm, jump at 130 rpm below
0.04 g/kWh) are proved over the reals from the pinned values.
Correspondence: every tier x rated speeds 1..2000 (dense near 130) on real `Engine` and `COGAS`
objects: the specific NOx emission against the model's `Float` twin of the same generated constants,
and NOx / curve-species mass through `get_fuel_emission_energy_balance_for_component`.
Predicates on the implementation alone: the Regulation-13 values of the property text, positivity,
monotonicity in speed, tier order, mass = specific emission x brake energy.
"""
from __future__ import annotations

import json
import struct

import numpy as np
from scipy.interpolate import PchipInterpolator

from . import curve_common
from .. import core, comps, plants
from ..core import enc, dec, close
from feems.components_model.node import get_fuel_emission_energy_balance_for_component
from feems.components_model.utility import IntegrationMethod
from feems.types_for_feems import EmissionType, NOxCalculationMethod
from feems.fuel import FuelSpecifiedBy

THEOREMS = ["values", "limit1", "limit2", "limit3", "upper", "lower", "medium_antitone", "pos", "at_130", "antitone", "tier_order",
            "jump_at_130", "continuous_above", "mass_formula"]
THEOREMS += curve_common.CURVE_THEOREMS["C09"]       # the interpolation rule of the curves (FeemsProofs/CurveProps.lean)
EXTRA_PROOF_MODULES = curve_common.PROOF_MODULES
DEPENDS_ON_MODULES = curve_common.DEPENDS

REG13 = {1: (17.0, 45.0, -0.2), 2: (14.4, 44.0, -0.23), 3: (3.4, 9.0, -0.2)}


def reg13(tier, n):
    c, a, b = REG13[tier]
    return a * n ** b if n > 130 else c


def limit_impl(tier, speed, kind="engine"):
    if kind == "engine":
        e = plants.build_engine({"rated": 1000.0, "speed": float(speed), "bsfc": [200.0], "nox": f"TIER_{tier}"})
    else:
        e = plants.build_cogas({"rated": 1000.0, "speed": float(speed), "curve": [0.4], "nox": f"TIER_{tier}"})
    return float(e.emissions_g_per_kwh(EmissionType.NOX, 0.5)), e


BOUNDARY = [1.0, 2.0, 50.0, 100.0, 129.0, 129.999, 130.0, 130.001, 131.0, 200.0, 514.0, 720.0, 1000.0, 1800.0, 1999.0, 1999.999, 2000.0]


def speeds(rng, k):
    base = list(BOUNDARY)
    return base + [float(np.round(rng.uniform(1, 2000), 3)) for _ in range(k)] + [float(np.round(rng.uniform(125, 135), 4)) for _ in range(k // 3)]


def run_limits(ctx, speed_list, model=True):
    prev = {1: None, 2: None, 3: None}
    for n in sorted(speed_list):
        vals = {}
        # the ends of the ranges on both classes (each carries its own copy of the regulation), the rest on one of them
        for tier, kind in [(t, k) for t in (1, 2, 3) for k in (("engine", "cogas") if n in BOUNDARY else
                                                                ("engine" if (int(n * 1000) + t) % 4 else "cogas",))]:
            where = {"case": {"kind": "limit", "tier": tier, "speed": n, "component": kind}}
            try:
                v, _ = limit_impl(tier, n, kind)
            except Exception as e:
                ctx.fail("predicate", "limit-raises-" + core.error_class(e), f"tier {tier} speed {n}: {type(e).__name__}: {e}", where)
                continue
            vals[tier] = v
            ctx.count("speed_range", "<=130" if n <= 130 else "130..2000")
            want = reg13(tier, n)
            if not close(v, want, tol=1e-9):
                ctx.fail("predicate", "limit-not-regulation-13", f"tier {tier} at {n} rpm: {v} g/kWh, Regulation 13 gives {want}", where)
            if not v > 0:
                ctx.fail("predicate", "limit-not-positive", f"tier {tier} at {n} rpm: {v}", where)
            if prev[tier] is not None and v > prev[tier][1] * (1 + 1e-12):
                ctx.fail("predicate", "limit-increases-with-speed", f"tier {tier}: {prev[tier][1]} at {prev[tier][0]} rpm but {v} at {n} rpm", where)
            prev[tier] = (n, v)
            if model and ctx.model_available:
                a = ctx.model.call("nox.limit", tier=tier, speed=enc(n))
                mv = struct.unpack("<d", struct.pack("<Q", a["bits"]))[0]
                if not close(mv, v, tol=1e-12):
                    ctx.fail("correspondence", "limit-value", f"tier {tier} at {n} rpm: model {mv} impl {v}", where)
            ctx.case_done(signature=("limit", tier, n, kind))
        if len(vals) == 3 and not (vals[1] >= vals[2] * (1 - 1e-12) and vals[2] >= vals[3] * (1 - 1e-12)):
            ctx.fail("predicate", "tier-order", f"at {n} rpm: I {vals[1]} II {vals[2]} III {vals[3]}", {"case": {"kind": "limit", "tier": 0, "speed": n}})


def gen_mass_case(rng, idx):
    rated = float(np.round(rng.uniform(300, 5000), 0))
    eng = plants.gen_engine_spec(rng, rated, dual=False)
    n = int(rng.choice([1, 3, 6, 1500], p=[0.3, 0.33, 0.3, 0.07]))        # also a long series (a day at one-minute steps)
    lo, hi = 0.2, 1.1          # engines run up to their 110 % overload point when the curves go that far
    for e in eng.get("emissions", []):
        xs = [p[0] for p in e["points"]]
        lo, hi = max(lo, min(xs)), min(hi, max(xs))
    if lo > hi:
        lo, hi = 0.4, 0.8
    if hi <= 1.0:
        hi = min(hi, 0.95)
    if lo > hi:
        lo = hi
    case = _mass_case(rng, idx, eng, rated, n, lo, hi)
    top = max([max(q[0] for q in e["points"]) for e in eng.get("emissions", [])] + [0.0])
    if top > 1.0:       # overload operation, inside what a curve covers (the others are extrapolated the same way by code and oracle)
        hi = top
        case["powers"][0] = float(np.round(rng.uniform(1.01, hi) * rated, 2))
        case["geared"] = False
    return case


def _mass_case(rng, idx, eng, rated, n, lo, hi):
    # the species totals do not depend on which greenhouse-gas factor set the result is asked with (seeded change C09-r6)
    return {"idx": idx, "kind": "mass", "engine": eng, "rated": rated, "geared": bool(rng.random() < 0.3),
            "factors": str(rng.choice(["IMO", "FUEL_EU_MARITIME", "default"], p=[0.3, 0.4, 0.3])),
            "powers": [float(np.round(rng.uniform(lo, hi) * rated * (0.9 if hi <= 1.0 else 0.97), 2)) if rng.random() < 0.85 else 0.0 for _ in range(n)],
            "dt": [float(rng.choice([1.0, 60.0, 900.0, 3600.0])) for _ in range(n)]}


def run_mass_case(ctx, case, model=True):
    where = {"case": case}
    spec = {"kind": "main_engine", "name": "me", "shaft_line": 1, "engine": case["engine"]}
    if case["geared"]:
        spec["gearbox"] = {"rated": case["rated"], "curve": [0.97]}
    obj = plants.build_mechanical_component(spec)
    P, dt = np.array(case["powers"], dtype=float), np.array(case["dt"], dtype=float)
    obj.power_output = P.copy()
    try:
        ctx.count("factor_set", case.get("factors", "default"))
        if case.get("factors", "default") == "default":
            res = get_fuel_emission_energy_balance_for_component(obj, dt, IntegrationMethod.sum_with_time)
        else:
            res = get_fuel_emission_energy_balance_for_component(obj, dt, IntegrationMethod.sum_with_time,
                                                                 fuel_specified_by=FuelSpecifiedBy[case["factors"]])
        rp = obj.get_engine_run_point_from_power_out_kw(P.copy())
    except Exception as e:
        ctx.fail("predicate", "result-raises-" + core.error_class(e), f"{type(e).__name__}: {e}", where)
        return
    pe = np.atleast_1d(rp.load_ratio) * case["engine"]["rated"]          # brake power of the engine
    reported = {sp.name for sp in (res.total_emission_kg or {})}
    wanted = {e["species"] for e in case["engine"].get("emissions", [])} | {"NOX"}
    if reported != wanted:
        ctx.fail("predicate", "species-set", f"reported {sorted(reported)} for curves {sorted(wanted)}", where)
    for sp, total in (res.total_emission_kg or {}).items():
        ctx.count("species", sp.name + (":tier" if sp == EmissionType.NOX and case["engine"]["nox"] != "CURVE" else ":curve"))
        g = np.atleast_1d(np.asarray(obj.engine.emissions_g_per_kwh(sp, np.atleast_1d(rp.load_ratio)), dtype=float))
        g = np.broadcast_to(g, pe.shape)
        # the curve value is taken from the case's own points, not from the engine object: a constant for a single
        # point, the shape-preserving cubic (scipy's PchipInterpolator, a primitive outside the model) through several
        given = {e["species"]: e["points"] for e in case["engine"].get("emissions", [])}
        if sp.name in given and not (sp == EmissionType.NOX and case["engine"]["nox"] != "CURVE"):
            pts = given[sp.name]
            if len(pts) == 1:
                g_spec = np.full(pe.shape, float(pts[0][1]))
            else:
                pts = sorted(pts)        # the order in which a table lists its points carries no meaning
                g_spec = np.asarray(PchipInterpolator([q[0] for q in pts], [q[1] for q in pts], extrapolate=True)(np.atleast_1d(rp.load_ratio)), dtype=float)
                g_spec = np.broadcast_to(g_spec, pe.shape)
            if not all(close(a, b) for a, b in zip(g, g_spec)):
                ctx.fail("predicate", "specific-emission-not-curve-value", f"{sp.name}: engine gives {g.tolist()} g/kWh, the curve {g_spec.tolist()} at loads {np.atleast_1d(rp.load_ratio).tolist()}", where)
            g = g_spec
        want = float(np.sum(g * pe * dt) / 3.6e6)
        scale = float(np.sum(np.abs(g) * np.abs(pe) * dt) / 3.6e6)
        if not close(total, want, scale=scale):
            ctx.fail("predicate", "mass-not-specific-emission-times-energy", f"{sp.name}: {total} kg != {want} kg", where)
        if model and ctx.model_available and len(set(g.tolist())) == 1:
            m = dec(ctx.model.call("nox.mass", g=enc(float(g[0])), p=[enc(float(x)) for x in pe], dt=[enc(float(x)) for x in dt]))
            if not close(m, total, scale=scale):
                ctx.fail("correspondence", "species-mass", f"{sp.name}: model {float(m)} impl {total}", where)
    ctx.case_done(signature=("mass", json.dumps(case["engine"], sort_keys=True), tuple(case["powers"])))


CORPUS = core.VERIF / "corpus" / "C09"


def run(ctx):
    ctx.rule = ("every tier x rated speeds {1, 2, 50, 100, 129, 129.999, 130, 130.001, 131, 200, 514, 720, 1000, 1800, 1999, 1999.999, 2000} (these on Engine and COGAS both) + random "
                "speeds in [1,2000] + a dense sample of [125,135], on Engine (3/4) and COGAS (1/4) objects; plus engines (30% geared) with tier or "
                "curve NOx and 0-3 curve species over 1-6 step power series for the mass formula; distinct by (tier, speed) / (engine, powers)")
    ctx.assumptions += ["np.power and Lean's Float.pow are both the C library pow (compared to 1e-12)",
                        "constants enter Lean as the shortest decimal of the parsed double"]
    sp = speeds(ctx.rng, ctx.n(60, 3000))
    if CORPUS.exists():
        for p in sorted(CORPUS.glob("*.json")):
            c = json.loads(p.read_text())
            if c.get("kind") == "limit":
                sp.append(float(c["speed"]))
    run_limits(ctx, sp)
    if CORPUS.exists():
        for p in sorted(CORPUS.glob("*.json")):
            c = json.loads(p.read_text())
            if c.get("kind") == "mass":
                run_mass_case(ctx, c)
    for i in range(ctx.n(80, 2000)):
        run_mass_case(ctx, gen_mass_case(ctx.rng, i))
    ctx.samples.append({"kind": "limit", "speeds": sorted(sp)[:8]})

    curve_common.run_curves(ctx, "emission", 60, 1500)

def search(ctx):
    run_limits(ctx, [float(x) for x in range(1, 2001)], model=False)


def replay(data):
    ctx = core.Ctx("C09", "quick", data.get("seed", 0))
    ctx.model_available = core.DRIVER.exists()
    case = data["case"]["case"]
    if case.get("kind") == "curve":
        curve_common.replay_curve(ctx, case)
    elif case.get("kind") == "limit":
        run_limits(ctx, [case["speed"]] + ([case["speed"] - 1] if case["speed"] > 2 else []))
    else:
        run_mass_case(ctx, case)
    for f in ctx.failures:
        print(f"{f['kind']}: {f['tag']}: {f['what'][:300]}")
    if ctx._model:
        ctx._model.close()
    return 1 if ctx.failures else 0
