"""C06 — components never create energy; conversion is bounded and self-consistent.

Correspondence: every component kind with an efficiency characteristic (converters, transformers,
gearboxes, electric machines in source / consumer / PTI-PTO role, serial drive trains and PTI/PTO with
equal or different stage ratings, batteries and supercapacitors with and without converter) against
`Feems.Comp` / `Feems.Storage`: direction dispatch (scalar and array), forward formula with the
clamped efficiency, serial product at the eleven sample points, machine roles, storage conversions.
The efficiency curve and the interpolated inverse are oracles read from the real component at the
load / power the *model* computes.  Predicates on the implementation alone: supply >= delivery in
both directions, ratio = clamped efficiency, zero -> zero, round trip within 0.5 % of rated power
(default inverse) / 1e-6 (strict), array = element-wise scalar.  Outside the load range covered by
the curve's own points or above 99 % load the interpolated-inverse figures are known finding D16.
"""
from __future__ import annotations

import json

import numpy as np

from . import curve_common
from .. import core, comps, plants
from ..core import enc, dec, close, frac
from feems.components_model.component_base import BasicComponent, SerialSystem
from feems.components_model.component_electric import ElectricComponent, ElectricMachine, SerialSystemElectric, PTIPTO
from feems.components_model.component_mechanical import MechanicalPropulsionComponent
from feems.types_for_feems import TypeComponent, TypePower, Power_kW, Speed_rpm, SwbId

THEOREMS = ["clamp_bounds", "fwd_ratio", "fwd_supply_ge_delivery", "fwd_reverse_supply_ge_delivery", "fwd_zero", "zero_flow",
            "invC_bounds", "invC_abs_le", "invC_eq_of_abs_le", "invC_zero", "no_energy_created", "legacy_creates_energy", "invC_of_exact",
            "exact_inverse_no_energy", "roundtrip_exact", "roundtrip_exact'", "interp_inverse_partial", "knot_spacing",
            "strict_zero_residual", "array_eq_scalar", "serial_eff_bounds", "serial_equal_ratings", "serial_two_stage",
            "legacy_abscissa_wrong", "machine_roles"]
THEOREMS += ["serialPoints_abscissae", "serialPoints_sorted", "serialPoints_accepted", "serial_curve_bounds", "serialEta_bounds"]
THEOREMS += curve_common.CURVE_THEOREMS["C06"]       # the interpolation rule of the curves (FeemsProofs/CurveProps.lean)
EXTRA_PROOF_MODULES = curve_common.PROOF_MODULES + ["FeemsProofs.C06Serial"]
DEPENDS_ON_MODULES = curve_common.DEPENDS + ["FeemsProofs.C06Serial"]


# ---------------------------------------------------------------- oracles

def raw_eta(comp, key):
    """Unclamped efficiency characteristic at load `key` (Fraction); public clamped value if the
    private interpolant is gone (then the clamp itself is not cross-checked)."""
    x = float(key)
    f = getattr(comp, "_efficiency_interp", None)
    if f is not None:
        return float(f(x)), "raw"
    return float(comp.get_efficiency_from_load_percentage(x)), "clamped"


def inv_value(comp, p):
    f = getattr(comp, "_power_out_interp", None)
    if f is not None:
        return float(f(float(p))), "raw"
    if p > 0:
        return float(comp.get_power_output_from_bidirectional_input(float(p))[0]), "public"
    return float(comp.get_power_input_from_bidirectional_output(float(p))[0]), "public"


def covered(curve, rated, *powers):
    lo, hi = comps.covered_range(curve)
    hi = min(hi, 0.99)
    return all(lo <= abs(p) / rated <= hi or p == 0 for p in powers)


# ---------------------------------------------------------------- case generation

def gen_powers(rng, rated, curve):
    lo, hi = comps.covered_range(curve)
    ps = [0.0, rated, -rated, 0.5 * rated, -0.5 * rated]
    ps += [(-rated + k * rated * 0.01) for k in rng.integers(1, 200, size=3)]          # samples of the inverse table
    ps += [float(np.round(s * rng.uniform(max(lo, 0.01), min(hi, 0.98)) * rated, 3)) for s in (1, -1, 1, -1)]
    ps += [float(np.round(rng.uniform(-1, 1) * rated, 3)) for _ in range(3)]
    return [float(p) for p in ps]


def gen_case(rng, idx):
    kind = str(rng.choice(["basic", "gearbox", "machine", "serial", "pti_pto", "storage", "dc_genset"], p=[0.23, 0.1, 0.18, 0.18, 0.1, 0.13, 0.08]))
    rated = float(rng.choice([100.0, 1000.0, 2500.0, float(np.round(rng.uniform(50, 5000), 1))]))
    case = {"idx": idx, "kind": kind, "rated": rated}
    if kind in ("basic", "gearbox", "machine"):
        case["curve"] = comps.gen_accepted_curve(rng, rated, allow_clamp=True, wild=bool(rng.random() < 0.35))
        case["powers"] = gen_powers(rng, rated, case["curve"])
        if kind == "machine":
            case["role"] = str(rng.choice(["source", "consumer", "pti_pto"]))
        case["strict"] = bool(rng.random() < 0.3)
        if len(case["curve"]) == 1 and not isinstance(case["curve"][0], list) and rng.random() < 0.4:
            case["curve_form"], case["pair_load"] = "pair", float(rng.choice([1.0, 0.5, 0.75]))
        elif kind == "basic" and rng.random() < 0.35:
            # the same component described by a CSV file (the `file_name` route of the constructor: rating, speed and the curve's
            # columns "Efficiency@<load>%" as the repository's own tests write them) - seeded change C06-r6
            case["from_file"] = True
    elif kind in ("serial", "pti_pto"):
        n = int(rng.integers(2, 4))
        equal = rng.random() < 0.5
        for _ in range(200):
            stages = []
            for i in range(n):
                r = rated if equal else float(np.round(rated * rng.uniform(0.6, 1.6), 0))
                stages.append({"rated": r if i else rated, "curve": comps.gen_accepted_curve(rng, r, lo=0.8),
                               "type": ["TRANSFORMER", "POWER_CONVERTER", "ELECTRIC_MOTOR"][i % 3]})
            case["stages"] = stages
            try:
                build(case)
                break
            except Exception:
                continue
        case["equal_ratings"] = bool(equal)
        case["powers"] = [0.0, 0.3 * rated, -0.3 * rated, float(np.round(rng.uniform(0.05, 0.9) * rated, 2)),
                          -float(np.round(rng.uniform(0.05, 0.9) * rated, 2))]
    elif kind == "dc_genset":
        # a generator behind a rectifier is a two-stage train too (Genset builds it); the rectifier is often rated above its generator
        for _ in range(200):
            rr = float(np.round(rated * float(rng.choice([1.0, 0.8, 1.2, 1.4, 2.0])), 0))
            case["generator"] = {"rated": rated, "speed": 1000.0, "curve": comps.gen_accepted_curve(rng, rated, lo=0.85)}
            case["rectifier"] = {"rated": rr, "curve": comps.gen_accepted_curve(rng, rr, lo=0.9)}
            try:
                build(case)
                break
            except Exception:
                continue
    else:
        case["spec"] = comps.gen_storage_spec(rng)
        lim = case["spec"]["converter"]["rated"] if "converter" in case["spec"] else case["spec"]["rated"]
        lo, hi = comps.covered_range(case["spec"]["converter"]["curve"]) if "converter" in case["spec"] else (0.0, 1.0)
        case["powers"] = [0.0] + [float(np.round(s * rng.uniform(max(lo, 0.02), min(hi, 0.98)) * lim, 3)) for s in (1, -1, 1, -1, 1, -1)]
    return case


def curve_of(case):
    """The characteristic as handed to the constructor: a single value also as one (load, efficiency) point, shape (1, 2)."""
    if case.get("curve_form") == "pair" and len(case["curve"]) == 1 and not isinstance(case["curve"][0], list):
        return np.array([[case["pair_load"], case["curve"][0]]], dtype=float)
    return comps.curve_array(case["curve"])


def basic_from_file(case):
    import os
    import tempfile
    import pandas as pd
    curve = case["curve"]
    cols, vals = ["Switchboard No", "Rated Power", "Rated Speed"], [1, case["rated"], 900.0]
    if len(curve) == 1 and not isinstance(curve[0], list):
        cols.append("Efficiency"); vals.append(curve[0])
    else:
        for load, eff in curve:
            cols.append("Efficiency@{}%".format(load)); vals.append(eff)
    fd, path = tempfile.mkstemp(suffix=".csv", dir=os.environ.get("VERIF_OUT") or None)
    os.close(fd)
    try:
        pd.DataFrame([vals], columns=cols, index=["conv"]).to_csv(path)
        core.axis("described_by", "csv file")
        return ElectricComponent(type_=TypeComponent.POWER_CONVERTER, power_type=TypePower.NONE, file_name=path, switchboard_id=SwbId(1))
    finally:
        os.unlink(path)


def build(case):
    k, rated = case["kind"], case["rated"]
    if k == "basic" and case.get("from_file"):
        return basic_from_file(case)
    if k == "basic":
        return ElectricComponent(type_=TypeComponent.POWER_CONVERTER, name="conv", rated_power=Power_kW(rated), eff_curve=curve_of(case),
                                 power_type=TypePower.NONE, switchboard_id=SwbId(1))
    if k == "gearbox":
        return MechanicalPropulsionComponent(type_=TypeComponent.GEARBOX, power_type=TypePower.POWER_TRANSMISSION, name="gb",
                                             rated_power=Power_kW(rated), eff_curve=curve_of(case))
    if k == "machine":
        pt = {"source": TypePower.POWER_SOURCE, "consumer": TypePower.POWER_CONSUMER, "pti_pto": TypePower.PTI_PTO}[case["role"]]
        return ElectricMachine(type_=TypeComponent.SYNCHRONOUS_MACHINE, name="m", rated_power=Power_kW(rated),
                               rated_speed=Speed_rpm(1000.0), power_type=pt, switchboard_id=SwbId(1),
                               eff_curve=curve_of(case))
    if k in ("serial", "pti_pto"):
        spec = {"kind": "drive" if k == "serial" else "pti_pto", "name": "train", "swb": 1, "rated": rated, "stages": case["stages"]}
        return plants.build_electric_component(spec)
    if k == "dc_genset":
        return plants.build_electric_component({"kind": "genset", "name": "dcg", "swb": 1, "rated": rated, "generator": case["generator"],
                                                "rectifier": case["rectifier"], "engine": {"rated": 1.2 * rated, "speed": 1000.0, "bsfc": [200.0]}})
    return comps.make_storage(case["spec"])


# ---------------------------------------------------------------- checks

D16 = "interp-inverse-outside-covered-range"


def conv_checks(ctx, comp, rated, curve, powers, where, strict=False, label=""):
    """Predicates + correspondence for one BasicComponent-like object."""
    eta_tab, inv_tab, grade = {}, {}, set()
    for p in powers:
        key = frac(abs(p)) / frac(rated)
        v, g = raw_eta(comp, key)
        eta_tab[key] = v
        grade.add(g)
        if p != 0:
            inv_tab[frac(p)] = inv_value(comp, p)[0]
    inv_tab[frac(0)] = inv_value(comp, 0.0)[0]
    eta_j = [[enc(k), enc(v)] for k, v in eta_tab.items()]
    inv_j = [[enc(k), enc(v)] for k, v in inv_tab.items()]
    arr = np.array(powers, dtype=float)
    in_arr = np.asarray(comp.get_power_input_from_bidirectional_output(arr.copy())[0], dtype=float)
    out_arr = np.asarray(comp.get_power_output_from_bidirectional_input(arr.copy())[0], dtype=float)
    # whole-number series handed over as integer arrays convert like the same numbers one by one
    ints = np.array([int(round(p)) for p in powers], dtype=int)
    try:
        in_int = np.asarray(comp.get_power_input_from_bidirectional_output(ints.copy())[0], dtype=float)
        out_int = np.asarray(comp.get_power_output_from_bidirectional_input(ints.copy())[0], dtype=float)
        for i, q in enumerate(ints):
            a = float(comp.get_power_input_from_bidirectional_output(float(q))[0])
            b = float(comp.get_power_output_from_bidirectional_input(float(q))[0])
            if not (close(in_int[i], a, scale=rated) and close(out_int[i], b, scale=rated)):
                ctx.fail("predicate", "integer-array-differs-from-scalar", f"{label}power {q}: integer array ({in_int[i]}, {out_int[i]}) scalar ({a}, {b})", where)
                break
    except Exception as e:
        ctx.fail("predicate", "integer-array-raises-" + core.error_class(e), f"{label}{type(e).__name__}: {e}", where)
    for i, p in enumerate(powers):
        cov = covered(curve, rated, p)
        ctx.count("power_kind", "zero" if p == 0 else ("covered" if cov else "extrapolated-or-near-rated"))
        pin = float(comp.get_power_input_from_bidirectional_output(float(p))[0])
        pout = float(comp.get_power_output_from_bidirectional_input(float(p))[0])
        tol = 1e-9 * max(1.0, rated)
        # (c) zero flow
        if p == 0 and (pin != 0 or pout != 0):
            ctx.fail("predicate", "zero-flow-nonzero", f"{label}zero flow gives in={pin} out={pout}", where)
        # (a) never creates energy, both conversions
        bad, more = None, False           # more: more power handed on than received (proved impossible for every interpolant
        if p >= 0 and pin < p - tol:      # since D27); otherwise only the direction is wrong, which an extrapolated inverse does (D16)
            bad, more = f"delivering {p} needs only {pin} supplied", True
        if p < 0 and not (p - tol <= pin <= tol):
            bad, more = f"reverse flow {p} at the output gives {pin} at the input", abs(pin) > abs(p) + tol
        if p > 0 and not (-tol <= pout <= p + tol):
            bad, more = f"supplying {p} delivers {pout}", abs(pout) > abs(p) + tol
        if p <= 0 and pout > p + tol:
            bad, more = f"reverse flow {p} at the input needs only {pout} at the output", True
        if bad:
            both = cov and covered(curve, rated, pin, pout)
            ctx.fail("predicate", "energy-created" if (both or more) else D16, f"{label}{bad} (rated {rated})", where)
        # (b) ratio on the forward branch = public clamped efficiency at that load
        eff = float(comp.get_efficiency_from_load_percentage(abs(p) / rated))
        if not (0.01 - 1e-12 <= eff <= 1 + 1e-12):
            ctx.fail("predicate", "efficiency-outside-clamp", f"{label}efficiency {eff} at load {abs(p) / rated}", where)
        if p >= 0 and not close(pin * eff, p, scale=rated):
            ctx.fail("predicate", "forward-ratio", f"{label}in {pin} x eff {eff} != out {p}", where)
        if p <= 0 and not close(pout * eff, p, scale=rated):
            ctx.fail("predicate", "forward-ratio", f"{label}out {pout} x eff {eff} != in {p}", where)
        # (d) round trips
        for first, back, name in ((pin, lambda x: comp.get_power_output_from_bidirectional_input(x)[0], "out->in->out"),
                                  (pout, lambda x: comp.get_power_input_from_bidirectional_output(x)[0], "in->out->in")):
            if not np.isfinite(first):
                continue
            rt = float(back(float(first)))
            err = abs(rt - p) / rated
            ctx.extra["max_roundtrip_error_covered"] = max(ctx.extra.get("max_roundtrip_error_covered", 0.0), err if (cov and covered(curve, rated, first)) else 0.0)
            if err > 0.005:
                ctx.fail("predicate", "roundtrip-over-0.5pct" if (cov and covered(curve, rated, first)) else D16,
                         f"{label}{name}: {p} -> {first} -> {rt} ({100 * err:.3f} % of rated {rated})", where)
        if strict and p != 0:
            try:
                o = float(comp._get_power_output_and_load_from_input(float(abs(p)), strict_power_balance=True)[0]) if hasattr(comp, "_get_power_output_and_load_from_input") else None
            except Exception as e:
                o = None
                ctx.count("strict_solver_failed", type(e).__name__)
            if o is not None and cov and covered(curve, rated, o):
                back_in = float(comp.get_power_input_from_bidirectional_output(o)[0])
                err = abs(back_in - abs(p)) / rated
                ctx.extra["max_strict_error"] = max(ctx.extra.get("max_strict_error", 0.0), err)
                if err > 1e-6:
                    ctx.fail("predicate", "strict-balance-over-1e-6", f"{label}strict: {abs(p)} -> {o} -> {back_in} ({err:.2e} of rated)", where)
        # (e) array = element-wise scalar
        if not (close(in_arr[i], pin, scale=rated) and close(out_arr[i], pout, scale=rated)):
            ctx.fail("predicate", "array-differs-from-scalar", f"{label}power {p}: array ({in_arr[i]}, {out_arr[i]}) scalar ({pin}, {pout})", where)
        # ---- correspondence with the model
        if ctx.model_available and getattr(ctx, "use_model", True):
            for d, impl in (("in_from_out", pin), ("in_from_out_arr", in_arr[i]), ("out_from_in", pout)):
                ans = ctx.model.call("comp.convert", rated=enc(rated), p=enc(p), eta=eta_j, inv=inv_j, dir=d)
                if "need" in ans:
                    ctx.fail("correspondence", "oracle-key", f"{label}model asks for {ans['need']} at power {p} ({d}): harness and model disagree on the load", where)
                    continue
                ctx.count("branch", d + ":" + ans["branch"])
                if not close(dec(ans["value"]), impl, scale=rated):
                    ctx.fail("correspondence", "convert-" + d, f"{label}power {p}: model {float(dec(ans['value']))} impl {impl} (branch {ans['branch']})", where)
                if ans["eff"] is not None and "raw" in grade and not close(dec(ans["eff"]), eff):
                    ctx.fail("correspondence", "clamped-efficiency", f"{label}load {abs(p) / rated}: model {float(dec(ans['eff']))} impl {eff}", where)
    # inverse contract: exact at the samples it was built from, monotone
    ks = [-rated + k * rated * 0.01 for k in range(0, 200, 7)]
    prev = None
    for o in ks:
        fin = o / float(comp.get_efficiency_from_load_percentage(abs(o) / rated))
        back = inv_value(comp, fin)[0]
        if abs(back - o) > 1e-6 * rated:
            ctx.fail("predicate", "inverse-not-exact-at-samples", f"{label}inverse of forward({o}) = {back}", where)
            break
        if prev is not None and back < prev - 1e-9 * rated:
            ctx.fail("predicate", "inverse-not-monotone", f"{label}inverse decreases at {o}", where)
            break
        prev = back


def curve_ownership_check(ctx, case, where):
    """The component owns its characteristic: the array the caller handed over is neither changed by the constructor nor read
    again later (a caller may reuse one scratch array to build several components, or rescale it afterwards)."""
    arr = comps.curve_array(case["curve"])
    given = arr.copy()
    rated = case["rated"]
    comp = ElectricComponent(type_=TypeComponent.POWER_CONVERTER, name="own", rated_power=Power_kW(rated), eff_curve=arr,
                             power_type=TypePower.NONE, switchboard_id=SwbId(1))
    if not np.array_equal(arr, given):
        ctx.fail("predicate", "constructor-changes-callers-curve", f"{given.tolist()} -> {arr.tolist()}", where)
        return
    ps = [float(p) for p in case["powers"][:6]]
    before = [(float(comp.get_power_input_from_bidirectional_output(p)[0]), float(comp.get_power_output_from_bidirectional_input(p)[0])) for p in ps]
    arr *= 0.9          # the caller's own array, updated in place after construction
    after = [(float(comp.get_power_input_from_bidirectional_output(p)[0]), float(comp.get_power_output_from_bidirectional_input(p)[0])) for p in ps]
    ctx.count("curve_ownership", "single-value" if arr.ndim == 1 else "points")
    if before != after:
        ctx.fail("predicate", "component-reads-callers-curve-array", f"conversions of {ps} changed from {before} to {after} when the caller's array was rescaled", where)


def strict_series_check(ctx, comp, curve, rated, where, rng_seed):
    """Strict balance on a long series (the solver works in batches of 50) with an idle sample in it: every sample meets the
    1e-6 figure and equals the strict result for that sample alone."""
    lo, hi = comps.covered_range(curve)
    lo, hi = max(lo, 0.05), min(hi, 0.95)
    if hi <= lo:
        return
    r = np.random.default_rng(rng_seed)
    q = -np.round(r.uniform(lo, hi, size=60) * rated * 0.9, 3)          # reverse flow: the branch that is solved
    q[int(r.integers(60))] = 0.0
    import warnings
    with warnings.catch_warnings():
        warnings.simplefilter("ignore")
        arr = np.asarray(comp.get_power_input_from_bidirectional_output(q.copy(), strict_power_balance=True)[0], dtype=float)
        one = np.array([float(comp.get_power_input_from_bidirectional_output(float(x), strict_power_balance=True)[0]) for x in q])
    ctx.count("strict_series", "60 samples with an idle one")
    worst = float(np.nanmax(np.abs(arr - one))) / rated
    ctx.extra["max_strict_series_vs_scalar"] = max(ctx.extra.get("max_strict_series_vs_scalar", 0.0), worst)
    if not np.all(np.isfinite(arr)) or worst > 1e-6:
        ctx.fail("predicate", "strict-series-differs-from-strict-scalar", f"strict balance of 60 samples (one idle): differs from the samples one by one by {worst:.2e} of rated", where)


def given_characteristic_check(ctx, comp, curve, where, label=""):
    """The component's efficiency is the characteristic it was constructed with: the given value everywhere for a single value,
    the given ordinate at every given load otherwise (whatever is done between the points)."""
    clampv = lambda v: min(max(float(v), 0.01), 1.0)
    if len(curve) == 1 and not isinstance(curve[0], list):
        pts = [(x, curve[0]) for x in (0.1, 0.5, 1.0)]
    else:
        pts = [(q[0], q[1]) for q in curve]
    for x, v in pts:
        got = float(comp.get_efficiency_from_load_percentage(float(x)))
        if abs(got - clampv(v)) > 1e-9:
            ctx.fail("predicate", "efficiency-not-the-given-characteristic", f"{label}at load {x}: {got}, given {v}", where)
            return


def inverse_table_check(ctx, comp, case, where):
    """The interpolated inverse is computed by the MODEL alone from the points of the characteristic (`Comp.invTable`: the 200
    samples of the forward map, the shape-preserving cubic through them) and compared with the interpolant the real component
    built - no oracle involved.  Theorems on it: `inverse_exact_at_samples`, `inverse_monotone`, `interp_inverse_modelled`."""
    curve, rated = case["curve"], case["rated"]
    pts = curve if isinstance(curve[0], list) else [[1.0, min(curve[0], 1.0e6)]]
    vs = [float(v) for v in case["powers"]][:8]
    interp = getattr(comp, "_power_out_interp", None)
    if interp is None:
        ctx.count("inverse_table", "no private interpolant")
        return
    try:
        out = ctx.model.call("comp.inverse_table", rated=enc(rated), points=[[enc(a), enc(b)] for a, b in pts], at=[enc(v) for v in vs])
    except core.ModelReject as e:
        ctx.fail("correspondence", "inverse-table-model-rejects", f"the model refuses the points the constructor accepted: {e}", where)
        return
    ctx.count("inverse_table", "compared")
    if not out["accepted"]:
        ctx.fail("correspondence", "inverse-table-monotonicity-test", "the model's 200 samples are not increasing, the constructor accepted", where)
    lo, hi = float(dec(out["first"])), float(dec(out["last"]))
    for v, mv in zip(vs, out["values"]):
        real = float(interp(v))
        tol = 1e-9 if lo <= v <= hi else 1e-7           # beyond the table the end cubic is extrapolated
        if not close(dec(mv), real, tol=tol, scale=rated):
            ctx.fail("correspondence", "inverse-table-value", f"at {v} kW: model {float(dec(mv))} impl {real} (rated {rated})", where)


def run_case(ctx, case, model=True):
    where = {"case": case}
    ctx.use_model = model
    if case["kind"] == "basic":
        curve_ownership_check(ctx, case, where)
    if case["kind"] == "basic" and case.get("strict") and isinstance(case["curve"][0], list):
        strict_series_check(ctx, build(case), case["curve"], case["rated"], where, case["idx"])
    if case["kind"] in ("basic", "gearbox", "machine"):
        try:
            given_characteristic_check(ctx, build(case), case["curve"], where)
            if case.get("curve_form"):
                ctx.count("single_value_form", case["curve_form"])
        except Exception:
            pass
    k, rated = case["kind"], case["rated"]
    ctx.count("kind", k + (":" + case["role"] if k == "machine" else "") + (":equal" if case.get("equal_ratings") else ""))
    try:
        comp = build(case)
    except Exception as e:
        ctx.count("constructor_rejects", core.error_class(e))
        return False
    if k in ("basic", "gearbox", "machine") and model and ctx.model_available:
        inverse_table_check(ctx, comp, case, where)
    if k == "gearbox":
        # the same gearbox inside a geared main engine: the engine-side power its run-point method works out is the gearbox's own
        # conversion of the shaft-side power, in either direction (D136: reverse power - a PTI above the shaft load - was divided by
        # the efficiency like forward power and came out larger than it went in)
        try:
            me = plants.build_mechanical_component({"kind": "main_engine", "name": "me", "shaft_line": 1,
                                                    "engine": {"rated": rated, "speed": 750.0, "bsfc": [200.0]},
                                                    "gearbox": {"rated": rated, "curve": case["curve"]}})
        except Exception as e:
            ctx.count("geared_engine_rejected", core.error_class(e))
            me = None
        if me is not None:
            for pw in case["powers"]:
                for arg in (float(pw), np.array([pw, pw], dtype=float)):
                    try:
                        me.get_engine_run_point_from_power_out_kw(arg)
                    except Exception as e:
                        if pw >= 0:
                            ctx.fail("predicate", "geared-engine-raises-" + core.error_class(e), f"shaft power {pw}: {type(e).__name__}: {e}", where)
                        continue
                    eng_side = float(np.asarray(me.engine.power_output, dtype=float).reshape(-1)[0])
                    own = float(np.asarray(comp.get_power_input_from_bidirectional_output(float(pw))[0]))
                    ctx.count("geared_engine_power", "reverse" if pw < 0 else ("forward" if pw > 0 else "zero"))
                    if abs(eng_side) > abs(pw) * (1 + 1e-12) + 1e-9 and pw < 0:
                        ctx.fail("predicate", "energy-created-geared-engine", f"{-pw} kW go into the gearbox from the shaft, {-eng_side} kW arrive at the engine", where)
                    elif abs(eng_side - own) > 1e-9 * max(1.0, rated):
                        ctx.fail("predicate", "geared-engine-not-gearbox-conversion", f"shaft {pw} kW: engine side {eng_side}, the gearbox's own conversion {own}", where)
    if k in ("basic", "gearbox"):
        conv_checks(ctx, comp, rated, case["curve"], case["powers"], where, strict=case.get("strict", False))
    elif k == "machine":
        conv_checks(ctx, comp, rated, case["curve"], case["powers"], where, strict=case.get("strict", False))
        role = case["role"]
        eta_j = [[enc(frac(abs(p)) / frac(rated)), enc(raw_eta(comp, frac(abs(p)) / frac(rated))[0])] for p in case["powers"]]
        inv_j = [[enc(p), enc(inv_value(comp, p)[0])] for p in case["powers"]]
        for p in case["powers"]:
            for to_shaft, fn in ((True, comp.get_shaft_power_load_from_electric_power), (False, comp.get_electric_power_load_from_shaft_power)):
                try:
                    v = float(fn(float(p))[0])
                except Exception as e:
                    ctx.fail("predicate", "machine-role-raises-" + core.error_class(e), f"role {role} {'to shaft' if to_shaft else 'to electric'}: {type(e).__name__}: {e}", where)
                    continue
                if model and ctx.model_available:
                    ans = ctx.model.call("comp.machine", rated=enc(rated), p=enc(p), eta=eta_j, inv=inv_j, role=role, to_shaft=to_shaft)
                    if "need" in ans:
                        ctx.fail("correspondence", "oracle-key", f"machine: model asks {ans['need']}", where)
                    elif not close(dec(ans["value"]), v, scale=rated):
                        ctx.fail("correspondence", "machine-role", f"role {role} to_shaft={to_shaft} power {p}: model {float(dec(ans['value']))} impl {v}", where)
            # the two conversions are mutually inverse (within the interpolated-inverse accuracy)
            try:
                s = float(comp.get_shaft_power_load_from_electric_power(float(p))[0])
                e2 = float(comp.get_electric_power_load_from_shaft_power(s)[0])
                if abs(e2 - p) / rated > 0.005:
                    ctx.fail("predicate", "machine-roundtrip" if covered(case["curve"], rated, p, s) else D16,
                             f"role {role}: electric {p} -> shaft {s} -> electric {e2}", where)
            except Exception:
                pass
    elif k == "dc_genset":
        # the machine the generating set works with is the train generator + rectifier: at the sampled loads its efficiency is the
        # product of the two, each at its own load, and the shaft power for a delivered power follows from it
        g0 = plants.build_machine(case["generator"], TypePower.POWER_SOURCE, 1)
        r0 = plants.build_basic(dict(case["rectifier"], type="RECTIFIER"), 1, TypePower.POWER_SOURCE, "r")
        rg, rr = case["generator"]["rated"], case["rectifier"]["rated"]
        for kx in range(1, 11):
            pw = kx / 10.0 * rg
            want = min(max(float(g0.get_efficiency_from_load_percentage(pw / rg)) * float(r0.get_efficiency_from_load_percentage(pw / rr)), 0.01), 1.0)
            shaft = float(np.asarray(comp.generator.get_power_input_from_bidirectional_output(pw)[0]))
            if abs(shaft * want - pw) > 1e-7 * rg:
                ctx.fail("predicate", "generator-with-rectifier-not-product-of-stages",
                         f"delivering {pw} kW takes {shaft} kW at the shaft, efficiency {pw / shaft} != {want} (ratings {rg}, {rr})", where)
                break
            fuel_side = comp.get_fuel_cons_load_bsfc_from_power_out_generator_kw(np.array([pw]))
            load = float(np.asarray(fuel_side.engine.load_ratio).reshape(-1)[0])
            if abs(load * 1.2 * rg * want - pw) > 1e-7 * rg:
                ctx.fail("predicate", "generator-with-rectifier-not-product-of-stages", f"engine load {load} for {pw} kW delivered (efficiency {want}, engine {1.2 * rg} kW)", where)
                break
    elif k in ("serial", "pti_pto"):
        stages = comp.components
        for st_obj, st_spec in zip(stages, case["stages"]):
            given_characteristic_check(ctx, st_obj, st_spec["curve"], where, label=f"stage {st_obj.name}: ")
        # system efficiency at the eleven sample points = product of the stages' efficiencies, each at its own load
        if model and ctx.model_available:
            loads = ctx.model.call("comp.serial_loads", stages=[{"rated": enc(s.rated_power)} for s in stages])
            st_j = []
            for si, s in enumerate(stages):
                keys = sorted({dec(row[si]) for row in loads})
                st_j.append({"rated": enc(s.rated_power), "eta": [[enc(kk), enc(raw_eta(s, kk)[0])] for kk in keys]})
            ans = ctx.model.call("comp.serial", stages=st_j)
            if "points" not in ans:
                ctx.fail("correspondence", "oracle-key", f"serial: model asks {ans}", where)
            else:
                for (x, e) in ans["points"]:
                    x, e = dec(x), dec(e)
                    impl = float(comp.get_efficiency_from_load_percentage(float(x)))
                    if not close(max(min(float(e), 1.0), 0.01), impl, tol=1e-7):
                        ctx.fail("correspondence", "serial-efficiency", f"system load {float(x)}: model product {float(e)} impl {impl}", where)
                        break
            # ... and, with no oracle at all: the stages' characteristics from their own points, the eleven products, the cubic
            # through them and the clamp are all computed by the model (`Comp.serialEta`), at and between the sample points
            if abs(comp.rated_power - stages[0].rated_power) < 1e-9:
                xs_m = [0.0, 0.05, 0.17, 0.3, 0.33, 0.5, 0.77, 0.95, 1.0]
                st_m = [{"rated": enc(sc["rated"]), "points": [[enc(a), enc(b)] for a, b in (sc["curve"] if isinstance(sc["curve"][0], list) else [[1.0, sc["curve"][0]]])]}
                        for sc in case["stages"]]
                try:
                    vals = [dec(v) for v in ctx.model.call("comp.serial_modelled", stages=st_m, at=[enc(x) for x in xs_m])]
                    ctx.count("serial_train_modelled_without_oracle", len(stages))
                    for x, v in zip(xs_m, vals):
                        impl = float(comp.get_efficiency_from_load_percentage(x))
                        if not close(v, impl, tol=1e-9):
                            ctx.fail("correspondence", "serial-characteristic-modelled", f"system load {x}: model {float(v)} impl {impl}", where)
                            break
                except core.ModelReject as e:
                    ctx.fail("correspondence", "serial-model-rejects", f"{e}", where)
        # predicate: at the sample points the train's efficiency is the product of the stage efficiencies at their own loads
        for kx in range(0, 11):
            x = kx / 10.0
            power = x * stages[0].rated_power
            prod = 1.0
            for s in stages:
                prod *= float(s.get_efficiency_from_load_percentage(abs(power) / s.rated_power))
            impl = float(comp.get_efficiency_from_load_percentage(x * stages[0].rated_power / comp.rated_power))
            if abs(impl - min(max(prod, 0.01), 1.0)) > 1e-7:
                ctx.fail("predicate", "serial-not-product-of-stages", f"system load {x}: {impl} != product {prod} (ratings {[s.rated_power for s in stages]})", where)
                break
        # the train's characteristic is given only where every stage's own curve is (below/above that the
        # stages are extrapolated, which is the situation of known finding D16)
        lo = max(comps.covered_range(sc["curve"])[0] * sc["rated"] / rated for sc in case["stages"])
        hi = min(comps.covered_range(sc["curve"])[1] * sc["rated"] / rated for sc in case["stages"])
        sys_curve = [[lo, 1.0], [max(lo, hi), 1.0]]
        conv_checks(ctx, comp, rated, sys_curve, case["powers"], where, label="train: ")
    else:
        spec = case["spec"]
        conv = getattr(comp, "converter", None)
        for p in case["powers"]:
            try:
                cell = float(comp.get_power_output_from_bidirectional_input(float(p))[0])
                term = float(comp.get_power_input_from_bidirectional_output(float(p))[0])
            except Exception as e:
                ctx.fail("predicate", "storage-raises-" + core.error_class(e), f"{type(e).__name__}: {e}", where)
                continue
            tol = 1e-9 * max(1.0, spec["rated"])
            # charge side >= cell side >= discharge side
            if (p > 0 and not (-tol <= cell <= p + tol)) or (p <= 0 and cell > p + tol):
                ctx.fail("predicate", "storage-energy-created", f"terminal {p} -> cell {cell}", where)
            if (p >= 0 and term < p - tol) or (p < 0 and not (p - tol <= term <= tol)):
                ctx.fail("predicate", "storage-energy-created", f"cell {p} -> terminal {term}", where)
            back = float(comp.get_power_input_from_bidirectional_output(cell)[0])
            lim = conv.rated_power if conv is not None else spec["rated"]
            if abs(back - p) > 0.005 * lim:
                ctx.fail("predicate", "storage-roundtrip", f"terminal {p} -> cell {cell} -> terminal {back}", where)
            if model and ctx.model_available:
                cv = float(conv.get_power_output_from_bidirectional_input(float(p))[0]) if conv is not None else p
                a = ctx.model.call("comp.storage", eta_c=enc(spec["eta_c"]), eta_d=enc(spec["eta_d"]), p=enc(p), dir="out_from_in", conv=[[enc(p), enc(cv)]])
                if "need" in a or not close(dec(a["value"]), cell, scale=spec["rated"]):
                    ctx.fail("correspondence", "storage-out-from-in", f"terminal {p}: model {a} impl {cell}", where)
                a = ctx.model.call("comp.storage", eta_c=enc(spec["eta_c"]), eta_d=enc(spec["eta_d"]), p=enc(p), dir="in_from_out", conv=[])
                if "need" in a:
                    t = dec(a["need"][1])
                    tv = float(conv.get_power_input_from_bidirectional_output(float(t))[0]) if conv is not None else float(t)
                    a = ctx.model.call("comp.storage", eta_c=enc(spec["eta_c"]), eta_d=enc(spec["eta_d"]), p=enc(p), dir="in_from_out", conv=[[enc(t), enc(tv)]])
                if "need" in a or not close(dec(a["value"]), term, scale=spec["rated"]):
                    ctx.fail("correspondence", "storage-in-from-out", f"cell {p}: model {a} impl {term}", where)
    return True


CORPUS = core.VERIF / "corpus" / "C06"


def run(ctx):
    ctx.rule = ("component kinds {converter/transformer, gearbox, electric machine x 3 roles, serial drive and PTI/PTO with 2-3 stages of equal or "
                "different ratings, battery/supercapacitor +-converter}; curves: single value (incl. >1 and <0.01 to hit the clamp) or 2-6 points "
                "with efficiencies 0.5-1 accepted by the constructor; powers: 0, +-rated, +-rated/2, three samples of the inverse table, four inside "
                "the covered load range, three anywhere in +-rated; scalar and array calls; strict balance on 30%; one evaluation = one case "
                "(12-17 powers); distinct by (kind, role, curve, rated)")
    ctx.assumptions += ["eta(load) and the interpolated inverse are oracles read from the real component at the model's own keys",
                        "known finding D16 covers the interpolated inverse outside the curve's covered load range and above 99 % load"]
    cases = []
    if CORPUS.exists():
        cases += [json.loads(p.read_text()) for p in sorted(CORPUS.glob("*.json"))]
    ncorp = len(cases)
    cases += [gen_case(ctx.rng, i) for i in range(ctx.n(200, 5000))]
    for ci, case in enumerate(cases):
        ok = run_case(ctx, case)
        sig = (case["kind"], case.get("role"), json.dumps(case.get("curve", case.get("stages", case.get("spec"))), sort_keys=True), case["rated"])
        ctx.case_done(signature=sig if ok else None, sample=case if ci in (ncorp, ncorp + 1) else None)
    ctx.extra["corpus_cases"] = ncorp

    curve_common.run_curves(ctx, "efficiency", 60, 1500)

def search(ctx):
    for i in range(2000):
        run_case(ctx, gen_case(ctx.rng, 100_000 + i), model=False)
        if any(f["kind"] == "predicate" and not ctx.is_known(f) for f in ctx.failures):
            return


def replay(data):
    ctx = core.Ctx("C06", "quick", data.get("seed", 0))
    ctx.model_available = core.DRIVER.exists()
    if data["case"]["case"].get("kind") == "curve":
        curve_common.replay_curve(ctx, data["case"]["case"])
    else:
        run_case(ctx, data["case"]["case"])
    for f in ctx.failures:
        print(f"{f['kind']}: {f['tag']}: {f['what'][:300]}")
    if ctx._model:
        ctx._model.close()
    return 1 if ctx.failures else 0
