"""C04 — shaft-line power balance, equal engine loading, full-PTI mode.

Correspondence: mechanical plants (1-3 shaft lines with arbitrary ids, 1-3 main engines each with or
without gearbox, 1-2 loads, optional PTI/PTO; engine status series, PTI/PTO shaft power of either
sign, full-PTI flags) through the real `MechanicalPropulsionSystem.do_power_balance`, against
`Feems.Shaft.balance`.  Predicate on the implementation alone, per line and step: engines + PTI/PTO
= loads where running engines exist wherever engine power is needed; equal fractions; stopped
engines at zero; in full-PTI steps the PTI carries the whole load and the engines nothing.
"""
from __future__ import annotations

import json

import numpy as np

from .. import core, mech_common as M
from ..core import close

THEOREMS = ["balance", "equal_fraction", "off", "full_pti", "no_pti", "lines_independent", "status_after", "no_engine_power"]


def check_predicate(ctx, case, obs, where):
    spec, inp = case["spec"], case["inputs"]
    nontrivial = False
    for ln in spec["lines"]:
        engines, loads, ptis = M.by_line(spec, ln, "main_engine"), M.by_line(spec, ln, "mech_load"), M.by_line(spec, ln, "pti_pto_ref")
        for t in range(inp["n"]):
            L = sum(obs[c["name"]]["in"][t] for c in loads)
            full = bool(ptis and inp["comp"][ptis[0]["name"]]["full"][t])
            p_given = inp["comp"][ptis[0]["name"]]["shaft"][t] if ptis else 0.0
            p_out = obs[ptis[0]["name"]]["out"][t] if ptis else 0.0
            eng = sum(obs[c["name"]]["out"][t] for c in engines)
            avail = sum(c["rated"] for c in engines if inp["comp"][c["name"]]["status"][t])
            scale = max([1.0] + [c["rated"] for c in engines])
            ctx.count("step_kind", "full-pti" if full else ("pto" if p_given < 0 else ("pti" if p_given > 0 else "engines-only")))
            if full:
                nontrivial = True
                if not close(p_out, L, scale=scale):
                    ctx.fail("predicate", "full-pti-not-whole-load", f"line {ln} step {t}: PTI shaft power {p_out} != load {L}", where)
                if any(obs[c["name"]]["out"][t] != 0 for c in engines):
                    ctx.fail("predicate", "full-pti-engines-loaded", f"line {ln} step {t}: engines deliver {[obs[c['name']]['out'][t] for c in engines]}", where)
                continue
            need = L - p_given
            if avail > 0 or abs(need) <= 1e-9 * scale:
                nontrivial = nontrivial or avail > 0
                if not close(eng + p_out, L, scale=scale):
                    ctx.fail("predicate", "shaft-imbalance", f"line {ln} step {t}: engines {eng} + PTI/PTO {p_out} != loads {L}", where)
            else:
                ctx.count("step_without_engine_power")
            fr = []
            for c in engines:
                out = obs[c["name"]]["out"][t]
                if not inp["comp"][c["name"]]["status"][t]:
                    if out != 0:
                        ctx.fail("predicate", "stopped-engine-delivers", f"line {ln} step {t}: {c['name']} stopped but delivers {out}", where)
                else:
                    fr.append(out / c["rated"])
            if len(fr) >= 2 and not all(close(f, fr[0]) for f in fr):
                ctx.fail("predicate", "unequal-engine-loading", f"line {ln} step {t}: fractions {fr}", where)
    return nontrivial


def run_case(ctx, case, model=True):
    where = {"case": case}
    try:
        plant, obs = M.run_balance(case)
    except Exception as e:
        ctx.fail("predicate", "balance-raises-" + core.error_class(e), f"{type(e).__name__}: {e}", where)
        return False
    ctx.count("n_lines", len(case["spec"]["lines"]))
    nt = check_predicate(ctx, case, obs, where)
    if model and ctx.model_available:
        M.compare_with_model(ctx, case["spec"], case["inputs"], obs, where)
    return nt


CORPUS = core.VERIF / "corpus" / "C04"


def signature(case):
    spec, inp = case["spec"], case["inputs"]
    return (tuple((c["kind"], c.get("shaft_line"), "gearbox" in c) for c in spec["mechanical"]), inp["n"],
            tuple(tuple(v.get("status", ())) + tuple(v.get("full", ())) + tuple(np.sign(v.get("shaft", ()))) for v in inp["comp"].values()))


def run(ctx):
    ctx.rule = ("mechanical plants: 1-3 shaft lines (ids 1..n or arbitrary), 1-3 main engines (40% geared, 20% dual fuel), 1-2 loads, "
                "50% PTI/PTO per line; 1-8 steps: engine status, PTI/PTO shaft power in +-0.9 rated (20% zero), full-PTI flag (25%); "
                "90% of cases sized so engines suffice; half with shuffled component list; non-trivial = a step with running engines "
                "or full-PTI; distinct by (layout, statuses, flags, signs)")
    cases = []
    if CORPUS.exists():
        cases += [json.loads(p.read_text()) for p in sorted(CORPUS.glob("*.json"))]
    ncorp = len(cases)
    cases += [M.gen_case(ctx.rng, i) for i in range(ctx.n(200, 5000))]
    for ci, case in enumerate(cases):
        nt = run_case(ctx, case)
        ctx.case_done(signature=signature(case) if nt else None, sample=case if ci == ncorp else None)
    ctx.extra["corpus_cases"] = ncorp


def search(ctx):
    for i in range(2000):
        run_case(ctx, M.gen_case(ctx.rng, 100_000 + i), model=False)
        if any(f["kind"] == "predicate" and not ctx.is_known(f) for f in ctx.failures):
            return


def replay(data):
    ctx = core.Ctx("C04", "quick", data.get("seed", 0))
    ctx.model_available = core.DRIVER.exists()
    run_case(ctx, data["case"]["case"])
    for f in ctx.failures:
        print(f"{f['kind']}: {f['tag']}: {f['what'][:300]}")
    if ctx._model:
        ctx._model.close()
    return 1 if ctx.failures else 0
