"""C01 — electric power balance holds on every bus at every time step.

Correspondence: random electric plants (1-5 switchboards, every source kind, loads, serial drives,
storage with/without converter, PTI/PTO; random breaker graphs in random order/orientation; per-step
statuses, shares, balancing flags, breaker positions, signed storage/PTI inputs) through the real
`do_power_balance_calculation`, against `Feems.Electric.balance` with the grouping of `Feems.Bus`.
Predicate on the implementation alone: an independent union-find gives the connected groups of
each step; on each group delivered = drawn whenever the group has balancing capacity.
"""
from __future__ import annotations

import json

import numpy as np

from .. import core, elec_common as E
from ..core import close

THEOREMS = ["delivered_sub_drawn", "balance", "balance_bus", "busOf_eq", "bus_is_connectivity_class", "no_load",
            "no_capacity_imbalance"]
THEOREMS += ["d158_mode_one_balances", "d158_fractional_mode_gap"]      # known finding D158 exhibited on the model
DEPENDS_ON_MODULES = ["FeemsProofs.C02", "FeemsProofs.Lemmas.ElectricLemmas"]
BAL = E.STORAGE_KINDS + ("pti_pto",)


def check_predicate(ctx, case, obs, where):
    spec, inp = case["spec"], case["inputs"]
    nontrivial = False
    for t in range(inp["n"]):
        for g in E.groups_at(spec, inp, t):
            members = [c for c in spec["electric"] if c["swb"] in g]
            delivered = sum(obs[c["name"]]["out"][t] for c in members if c["kind"] in E.SOURCE_KINDS)
            drawn = sum(obs[c["name"]]["in"][t] for c in members if c["kind"] not in E.SOURCE_KINDS)
            # balancing capacity available in this group at this step
            cap = sum(c["rated"] for c in members if c["kind"] in E.SOURCE_KINDS
                      and inp["comp"][c["name"]]["status"][t] and inp["comp"][c["name"]]["share"][t] == 0)
            cap += sum(c["rated"] for c in members if c["kind"] in BAL
                       and inp["comp"][c["name"]]["status"][t] and inp["comp"][c["name"]]["mode"][t] == 0)
            scale = max([1.0] + [c["rated"] for c in members])
            if cap > 0:
                nontrivial = True
                ctx.count("group_size", len(g))
                if not (np.isfinite(delivered) and np.isfinite(drawn)) or not close(delivered, drawn, scale=scale):
                    ctx.fail("predicate", "bus-imbalance",
                             f"step {t} group {sorted(g)}: delivered {delivered} != drawn {drawn}", where)
                    return nontrivial
            else:
                ctx.count("group_without_capacity")
    return nontrivial


def run_case(ctx, case, model=True):
    where = {"case": case}
    try:
        plant, obs = E.run_balance(case)
    except Exception as e:
        ctx.fail("predicate", "balance-raises-" + core.error_class(e), f"{type(e).__name__}: {e}", where)
        return False
    for c in case["spec"]["electric"]:
        ctx.count("component", c["kind"])
    nontrivial = check_predicate(ctx, case, obs, where)
    if model and ctx.model_available:
        E.compare_with_model(ctx, case["spec"], case["inputs"], obs, where)
    # the balance holds after every calculation, also the next one on the same plant whose breaker table was updated in place
    if case.get("second") is not None:
        case2 = {"idx": case["idx"], "spec": case["spec"], "inputs": case["second"]}
        where2 = {"case": dict(case, note="violated after the second calculation (inputs 'second') on the same plant")}
        try:
            E.apply_inputs(plant, case["second"])
            plant.electric.do_power_balance_calculation()
            obs2 = E.observe(plant, case["second"])
        except Exception as e:
            ctx.fail("predicate", "balance-raises-" + core.error_class(e), f"second calculation: {type(e).__name__}: {e}", where2)
            return nontrivial
        ctx.count("second_calculation_same_plant", True)
        check_predicate(ctx, case2, obs2, where2)
    return nontrivial


CORPUS = core.VERIF / "corpus" / "C01"


def signature(case):
    spec, inp = case["spec"], case["inputs"]
    return (tuple((c["kind"], c["swb"]) for c in spec["electric"]), tuple(map(tuple, spec.get("bus_ties", []))),
            inp["n"], tuple(map(tuple, inp["breaker"])),
            tuple(tuple(v.get("status", ())) + tuple(v.get("share", ())) + tuple(v.get("mode", ())) for v in inp["comp"].values()))


def run(ctx):
    ctx.rule = ("electric plants: 1-5 switchboards x 1-3 sources each from {generator, genset(+rectifier, dual fuel), fuel-cell system, COGES}, "
                "0-2 loads/serial drives, 40% storage (battery/supercap +-converter), 25% PTI/PTO; breaker chain/star/ring/extra in random "
                "order+orientation; 1-8 steps with per-step status, share (0 or k/20), balancing flag, signed given power, breaker "
                "positions; 90% of cases sized so groups have capacity; half with shuffled component list; non-trivial = some group "
                "with balancing capacity; distinct by (layout, breakers, all discrete settings)")
    ctx.assumptions += ["share in [0,1], storage/PTI mode in {0,1} (documented API domain; the theorem states it)",
                        "np.round(capacity, 10) not modelled (<= 5e-11 kW)"]
    cases = []
    if CORPUS.exists():
        cases += [json.loads(p.read_text()) for p in sorted(CORPUS.glob("*.json"))]
    ncorp = len(cases)
    for i in range(ctx.n(150, 4000)):
        case = E.gen_case(ctx.rng, i)
        if case["spec"].get("bus_ties") and ctx.rng.random() < 0.3:
            second = E.gen_inputs(ctx.rng, case["spec"], n=case["inputs"]["n"])
            second["dtype"]["breaker"] = case["inputs"]["dtype"]["breaker"]
            second["breaker_table_in_place"] = True
            case["second"] = second
        cases.append(case)
    for ci, case in enumerate(cases):
        nt = run_case(ctx, case)
        ctx.case_done(signature=signature(case) if nt else None, sample=case if ci == ncorp else None)
    ctx.extra["corpus_cases"] = ncorp


def search(ctx):
    for i in range(1500):
        run_case(ctx, E.gen_case(ctx.rng, 100_000 + i), model=False)
        if any(f["kind"] == "predicate" and not ctx.is_known(f) for f in ctx.failures):
            return


def replay(data):
    ctx = core.Ctx("C01", "quick", data.get("seed", 0))
    ctx.model_available = core.DRIVER.exists()
    run_case(ctx, data["case"]["case"])
    for f in ctx.failures:
        print(f"{f['kind']}: {f['tag']}: {f['what'][:300]}")
    if ctx._model:
        ctx._model.close()
    return 1 if ctx.failures else 0
