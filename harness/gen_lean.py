"""Translator for the parts of the code that are *data*: rewrites lean/FeemsModel/Generated/*.lean
from $VERIF_REPO on every run (only when the content changed, so `lake build` stays incremental).
Returns a list of problems (a table that could not be translated is a broken obligation for the
properties that rest on it)."""
from __future__ import annotations

from . import core

GEN = core.LEAN / "FeemsModel" / "Generated"


def write_if_changed(path, text):
    if path.exists() and path.read_text() == text:
        return False
    path.parent.mkdir(parents=True, exist_ok=True)
    path.write_text(text)
    return True


def regenerate():
    problems = []
    with core.Lock("build"):
        for fn in GENERATORS:
            try:
                fn()
            except Exception as e:  # the source no longer has the shape the translator reads
                problems.append({"module": fn.__name__, "props": getattr(fn, "props", []),
                                 "what": f"{type(e).__name__}: {e}"})
    return problems


GENERATORS = []
