"""Real FEEMS plants from JSON-able specs, and structured random generators of such specs.
Every case a check runs is such a spec plus an input set, so it can be stored and replayed."""
from __future__ import annotations

import numpy as np

from . import core  # noqa: F401
from . import comps
from feems.components_model.component_electric import (ElectricComponent, ElectricMachine, Genset, FuelCell, FuelCellSystem,
                                                       COGES, PTIPTO, SerialSystemElectric)
from feems.components_model.component_mechanical import (Engine, EngineDualFuel, COGAS, MainEngineForMechanicalPropulsion,
                                                         MainEngineWithGearBoxForMechanicalPropulsion,
                                                         MechanicalPropulsionComponent)
from feems.components_model.component_base import BasicComponent
from feems.fuel import TypeFuel, FuelOrigin
from feems.system_model import (ElectricPowerSystem, MechanicalPropulsionSystem, HybridPropulsionSystem,
                                MechanicalPropulsionSystemWithElectricPowerSystem)
from feems.types_for_feems import (TypeComponent, TypePower, Power_kW, Speed_rpm, SwbId, NOxCalculationMethod,
                                   EmissionType, EmissionCurve, EmissionCurvePoint, EngineCycleType)

ca = comps.curve_array


def num(spec, key="rated"):
    """A rating as the user wrote it: a Python int when the spec is marked `int_rating` and the value is whole
    (`rated_power=1000`), a float otherwise."""
    v = spec[key]
    return int(v) if (spec.get("int_rating") and float(v).is_integer()) else v


# ------------------------------------------------------------------ builders

def build_engine(e, type_=TypeComponent.AUXILIARY_ENGINE):
    curves = None
    if e.get("emissions"):
        curves = [EmissionCurve(points_per_kwh=[EmissionCurvePoint(load_ratio=p[0], emission_g_per_kwh=p[1]) for p in c["points"]],
                                emission=EmissionType[c["species"]]) for c in e["emissions"]]
    kw = dict(type_=type_, nox_calculation_method=NOxCalculationMethod[e.get("nox", "TIER_2")], name=e.get("name", "engine"),
              rated_power=Power_kW(num(e)), rated_speed=Speed_rpm(e.get("speed", 1000.0)), bsfc_curve=ca(e["bsfc"]),
              fuel_type=TypeFuel[e.get("fuel_type", "DIESEL")], fuel_origin=FuelOrigin[e.get("fuel_origin", "FOSSIL")],
              emissions_curves=curves, engine_cycle_type=EngineCycleType[e.get("cycle", "DIESEL")])
    if e.get("dual"):
        d = e["dual"]
        obj = EngineDualFuel(bspfc_curve=ca(d["bspfc"]), pilot_fuel_type=TypeFuel[d.get("pilot_type", "DIESEL")],
                             pilot_fuel_origin=FuelOrigin[d.get("pilot_origin", "FOSSIL")], **kw)
    else:
        obj = Engine(**kw)
    reuse_curve_lists(curves)
    return obj


def reuse_curve_lists(curves):
    """The caller builds the next component's curves in the same lists (cleared and refilled): the component just built keeps the
    curves it was given (D94: a one-point curve was read from the caller's list at every evaluation)."""
    for c in curves or []:
        c.points_per_kwh.clear()
        c.points_per_kwh.append(EmissionCurvePoint(load_ratio=1.0, emission_g_per_kwh=987654.0))
    if curves:
        curves.clear()


def build_machine(m, power_type, swb, type_=TypeComponent.GENERATOR, name=None):
    return ElectricMachine(type_=type_, name=name or m.get("name", "machine"), rated_power=Power_kW(num(m)),
                           rated_speed=Speed_rpm(m.get("speed", 1000.0)), power_type=power_type,
                           switchboard_id=SwbId(swb), eff_curve=ca(m["curve"]))


def build_basic(c, swb=0, power_type=TypePower.NONE, name=None):
    return ElectricComponent(type_=TypeComponent[c.get("type", "POWER_CONVERTER")], name=name or c.get("name", "comp"),
                             rated_power=Power_kW(num(c)), eff_curve=ca(c["curve"]), power_type=power_type,
                             switchboard_id=SwbId(swb))


def build_cogas(c):
    gt = None if c.get("gt_curve") is None else np.array(c["gt_curve"], dtype=float)
    st = None if c.get("st_curve") is None else np.array(c["st_curve"], dtype=float)
    curves = None
    if c.get("emissions"):
        curves = [EmissionCurve(points_per_kwh=[EmissionCurvePoint(load_ratio=p[0], emission_g_per_kwh=p[1]) for p in e["points"]],
                                emission=EmissionType[e["species"]]) for e in c["emissions"]]
    obj = COGAS(name=c.get("name", "cogas"), rated_power=Power_kW(num(c)), eff_curve=ca(c["curve"]),
                rated_speed=Speed_rpm(c.get("speed", 3000.0)), gas_turbine_power_curve=gt, steam_turbine_power_curve=st,
                fuel_type=TypeFuel[c.get("fuel_type", "DIESEL")], fuel_origin=FuelOrigin[c.get("fuel_origin", "FOSSIL")],
                emissions_curves=curves, nox_calculation_method=NOxCalculationMethod[c.get("nox", "TIER_3")])
    reuse_curve_lists(curves)
    return obj


def fname(spec):
    """The name the FEEMS object gets: `label` when the case carries one (labels repeat across switchboards and
    shaft lines, which FEEMS allows; `name` is the harness's own unique key)."""
    return spec.get("label", spec["name"])


def build_serial(spec, type_, power_type, cls=SerialSystemElectric, **extra):
    stages = [build_basic(s, swb=spec["swb"], power_type=power_type, name=f"{fname(spec)}_{i}") for i, s in enumerate(spec["stages"])]
    return cls(type_=type_, name=fname(spec), power_type=power_type, components=stages, switchboard_id=SwbId(spec["swb"]),
               rated_power=Power_kW(num(spec)), rated_speed=Speed_rpm(spec.get("speed", 1000.0)), **extra) \
        if cls is SerialSystemElectric else cls(name=fname(spec), components=stages, switchboard_id=SwbId(spec["swb"]),
                                                rated_power=Power_kW(num(spec)), rated_speed=Speed_rpm(spec.get("speed", 1000.0)), **extra)


def build_electric_component(spec, shared=None):
    """`shared`: objects built once and used by several components of one plant (gensets given the same Engine object)."""
    k, swb, name = spec["kind"], spec["swb"], fname(spec)
    if k == "generator":
        return build_machine(spec, TypePower.POWER_SOURCE, swb, name=name)
    if k == "genset":
        gen = build_machine(spec["generator"], TypePower.POWER_SOURCE, swb, name=name + "_gen")
        if shared is not None and spec.get("engine_share"):
            eng = shared.setdefault(("engine", spec["engine_share"]), build_engine(dict(spec["engine"], name=spec["engine_share"])))
        else:
            eng = build_engine(dict(spec["engine"], name=name + "_eng"))
        rect = None if spec.get("rectifier") is None else build_basic(dict(spec["rectifier"], type=spec["rectifier"].get("type", "RECTIFIER")), swb, TypePower.POWER_SOURCE, name + "_rect")
        return Genset(name=name, aux_engine=eng, generator=gen, rectifier=rect)
    if k == "fuel_cell_system":
        fc = spec["fuel_cell"]
        cell = FuelCell(name=name + "_cell", rated_power=Power_kW(num(fc)), eff_curve=ca(fc["curve"]),
                        fuel_type=TypeFuel[fc.get("fuel_type", "HYDROGEN")], fuel_origin=FuelOrigin[fc.get("fuel_origin", "RENEWABLE_NON_BIO")])
        conv = build_basic(spec["converter"], swb, TypePower.POWER_SOURCE, name + "_conv")
        return FuelCellSystem(name=name, fuel_cell_module=cell, converter=conv, switchboard_id=SwbId(swb), number_modules=spec.get("modules", 1))
    if k == "coges":
        gen = build_machine(spec["generator"], TypePower.POWER_SOURCE, swb, name=name + "_gen")
        return COGES(name=name, cogas=build_cogas(dict(spec["cogas"], name=name + "_cogas")), generator=gen)
    if k == "other_load":
        return build_basic(dict(spec, type="OTHER_LOAD"), swb, TypePower.POWER_CONSUMER, name)
    if k == "drive":
        return build_serial(spec, TypeComponent.PROPULSION_DRIVE, TypePower.POWER_CONSUMER)
    if k == "pti_pto":
        return build_serial(spec, None, TypePower.PTI_PTO, cls=PTIPTO, shaft_line_id=spec.get("shaft_line", 1))
    if k in ("battery", "battery_system", "supercap", "supercap_system"):
        return comps.make_storage(dict(spec, name=name))
    raise ValueError(k)


def build_mechanical_component(spec):
    k, name = spec["kind"], fname(spec)
    if k == "main_engine":
        eng = build_engine(dict(spec["engine"], name=name + "_eng"), type_=TypeComponent.MAIN_ENGINE)
        if spec.get("gearbox") is not None:
            g = spec["gearbox"]
            gb = BasicComponent(type_=TypeComponent.GEARBOX, power_type=TypePower.POWER_TRANSMISSION, name=name + "_gb",
                                rated_power=Power_kW(num(g)), eff_curve=ca(g["curve"]))
            return MainEngineWithGearBoxForMechanicalPropulsion(name=name, engine=eng, gearbox=gb, shaft_line_id=spec["shaft_line"])
        return MainEngineForMechanicalPropulsion(name=name, engine=eng, shaft_line_id=spec["shaft_line"])
    if k == "mech_load":
        return MechanicalPropulsionComponent(type_=TypeComponent[spec.get("type", "PROPELLER_LOAD")], power_type=TypePower.POWER_CONSUMER,
                                             name=name, rated_power=Power_kW(num(spec)), eff_curve=ca(spec["curve"]),
                                             shaft_line_id=spec["shaft_line"])
    raise ValueError(k)


class Plant:
    """The built system plus name -> component lookup."""

    def __init__(self, spec):
        self.spec = spec
        self.by_name = {}
        self.by_label = {}      # (side, FEEMS name, switchboard / shaft line number) -> spec name
        self.electric = self.mechanical = self.system = None
        order = spec.get("order")
        ecomps = []
        shared = {}
        for c in spec.get("electric", []):
            obj = build_electric_component(c, shared)
            self.by_name[c["name"]] = obj
            self.by_label[("electric", fname(c), c["swb"], obj.type.name)] = c["name"]
            if c["kind"] == "pti_pto":
                self.by_label[("mechanical", fname(c), c.get("shaft_line", 1), obj.type.name)] = c["name"]
            ecomps.append(obj)
        if order is not None:
            ecomps = [ecomps[i] for i in order]
        for c in spec.get("electric_objects", []):      # electric-side objects of a plant without electric system (PTI/PTO)
            self.by_name[c["name"]] = build_electric_component(c)
        if ecomps:
            self.electric = ElectricPowerSystem(spec.get("name", "plant"), ecomps,
                                                [(SwbId(a), SwbId(b)) for a, b in spec.get("bus_ties", [])])
        mcomps = []
        for c in spec.get("mechanical", []):
            obj = self.by_name[c["name"]] if c["kind"] == "pti_pto_ref" else build_mechanical_component(c)
            self.by_name[c["name"]] = obj
            if c["kind"] != "pti_pto_ref":
                self.by_label[("mechanical", fname(c), c["shaft_line"], obj.type.name)] = c["name"]
            mcomps.append(obj)
        morder = spec.get("mech_order")
        if morder is not None:
            mcomps = [mcomps[i] for i in morder]
        if mcomps:
            self.mechanical = MechanicalPropulsionSystem(spec.get("name", "plant") + "_mech", mcomps)
        t = spec.get("type", "electric")
        if t == "electric":
            self.system = self.electric
        elif t == "mechanical":
            self.system = self.mechanical
        elif t == "hybrid":
            self.system = HybridPropulsionSystem(spec.get("name", "plant"), self.electric, self.mechanical)
        else:
            self.system = MechanicalPropulsionSystemWithElectricPowerSystem(spec.get("name", "plant"), self.electric, self.mechanical)


    def find(self, side, feems_name, node, type_name):
        """The component of type `type_name` FEEMS calls `feems_name` on switchboard / shaft line `node` of the electric / mechanical side."""
        key = self.by_label.get((side, feems_name, int(node), type_name))
        return None if key is None else self.by_name[key]


# ------------------------------------------------------------------ generators

LABELS = {"generator": "Generator", "genset": "Genset", "fuel_cell_system": "Fuel cell", "coges": "COGES", "other_load": "Hotel load",
          "drive": "Propulsion drive", "pti_pto": "PTI/PTO", "battery": "Battery", "battery_system": "Battery", "supercap": "Supercapacitor",
          "supercap_system": "Supercapacitor", "main_engine": "Main engine", "mech_load": "Propeller"}


CATEGORY = {"generator": "source", "genset": "source", "fuel_cell_system": "source", "coges": "source", "other_load": "consumer", "drive": "consumer",
            "pti_pto": "pti_pto", "battery": "storage", "battery_system": "storage", "supercap": "storage", "supercap_system": "storage",
            "main_engine": "source", "mech_load": "consumer"}


def mark_int_ratings(rng, spec, p=0.25):
    """With probability p the plant's whole-number ratings are handed over as Python ints (`rated_power=1000`)."""
    if rng.random() >= p:
        return spec

    def walk(x):
        if isinstance(x, dict):
            if "rated" in x and isinstance(x["rated"], (int, float)) and float(x["rated"]).is_integer():
                x["int_rating"] = True
            for v in x.values():
                walk(v)
        elif isinstance(x, list):
            for v in x:
                walk(v)
    walk(spec.get("electric", []))
    walk(spec.get("electric_objects", []))
    walk(spec.get("mechanical", []))
    return spec


def relabel(spec, style="per-kind"):
    """Gives every component the name a user would: "Genset 1", "Genset 2" … counted per switchboard / shaft line, so that
    the same name appears on several switchboards / shaft lines (FEEMS requires unique names only within one category of
    one switchboard / shaft line). A PTI/PTO sits on both a switchboard and a shaft line: its number is free on both."""
    used = set()
    for c in spec.get("electric", []) + spec.get("electric_objects", []) + spec.get("mechanical", []):
        if c["kind"] == "pti_pto_ref":
            continue
        nodes = []
        if "swb" in c:
            nodes.append(("swb", c["swb"]))
        if "shaft_line" in c:
            nodes.append(("line", c["shaft_line"]))
        # "per-category": plain numbers, so that a source, a consumer and a storage unit of one switchboard share a name
        # (names need only be unique within one category of a switchboard / shaft line)
        base = LABELS[c["kind"]] if style == "per-kind" else "No."
        key = base if style == "per-kind" else CATEGORY[c["kind"]]
        k = 1
        while any((key, k, nd) in used for nd in nodes):
            k += 1
        for nd in nodes:
            used.add((key, k, nd))
        c["label"] = f"{base} {k}"
    spec["relabelled"] = style
    return spec

FUELS_ENGINE = [("DIESEL", "FOSSIL"), ("HFO", "FOSSIL"), ("NATURAL_GAS", "FOSSIL"), ("NATURAL_GAS", "BIO"), ("METHANOL", "FOSSIL"),
                ("METHANOL", "BIO"), ("LFO", "FOSSIL"), ("VLSFO", "FOSSIL"), ("DIESEL", "BIO"), ("ETHANOL", "BIO"),
                ("AMMONIA", "RENEWABLE_NON_BIO"), ("LPG_PROPANE", "FOSSIL")]


def gen_value_curve(rng, lo, hi, multi=None):
    """A consumption / emission curve: single value [v] or 2-6 points [[load, v]…] over (0, 1]."""
    if multi is None:
        multi = rng.random() < 0.6
    if not multi:
        return [float(np.round(rng.uniform(lo, hi), 2))]
    n = int(rng.integers(2, 7))
    loads = sorted(set(float(x) for x in np.round(rng.choice(np.arange(10, 101, 5), size=n, replace=False) / 100.0, 2)))
    if 1.0 not in loads and rng.random() < 0.7:
        loads[-1] = 1.0
    if loads[-1] == 1.0 and rng.random() < 0.3:
        loads.append(1.1)         # the customary 110 % overload point
    base = rng.uniform(lo, hi)
    return [[l, float(np.round(base * (1 + 0.25 * (1 - l) ** 2) + rng.normal(0, 0.002 * base), 3))] for l in loads]


def gen_engine_spec(rng, rated, curve_emissions=None, dual=None, speed=None):
    ft, fo = FUELS_ENGINE[int(rng.integers(len(FUELS_ENGINE)))]
    e = {"rated": float(rated), "speed": float(speed if speed is not None else rng.choice([80.0, 130.0, 514.0, 720.0, 1000.0, 1800.0])),
         "bsfc": gen_value_curve(rng, 170, 240), "fuel_type": ft, "fuel_origin": fo,
         "nox": str(rng.choice(["TIER_1", "TIER_2", "TIER_3"])),
         "cycle": str(rng.choice(["DIESEL", "OTTO", "LEAN_BURN_SPARK_IGNITION"])) if ft == "NATURAL_GAS" else "DIESEL"}
    if curve_emissions is None:
        curve_emissions = rng.random() < 0.4
    if curve_emissions:
        species = [str(s) for s in rng.choice(["SOX", "NOX", "CO", "PM", "HC", "CH4", "N2O"], size=int(rng.integers(1, 4)), replace=False)]
        e["emissions"] = [{"species": s, "points": [[p[0], p[1]] for p in _as_points(gen_value_curve(rng, 0.05, 12))]} for s in species]
        for em in e["emissions"]:       # some species rise steeply with load (the curve's extrapolation below its first point then goes negative)
            if len(em["points"]) > 1 and rng.random() < 0.25:
                top = max(q[1] for q in em["points"])
                em["points"] = [[q[0], float(np.round(top * q[0] * q[0], 3))] for q in em["points"]]
        for em in e["emissions"]:       # a table may list the points from full load downwards, or in no order at all
            r = rng.random()
            if len(em["points"]) > 1 and r < 0.3:
                em["points"] = em["points"][::-1] if r < 0.2 else [em["points"][i] for i in rng.permutation(len(em["points"]))]
        if "NOX" in species and rng.random() < 0.7:
            e["nox"] = "CURVE"
    if dual is None:
        dual = rng.random() < 0.2
    if dual:
        r = rng.random()
        if r < 0.6:       # the usual gas engine with a diesel pilot
            e["fuel_type"], e["fuel_origin"] = "NATURAL_GAS", str(rng.choice(["FOSSIL", "BIO"]))
            e["cycle"] = str(rng.choice(["DIESEL", "OTTO"]))
            pilot = ("DIESEL", str(rng.choice(["FOSSIL", "BIO"], p=[0.8, 0.2])))
        elif r < 0.8:     # liquid-fuel back-up mode: pilot of the same kind as the main fuel
            pilot = (e["fuel_type"], e["fuel_origin"])
        else:             # same type, other origin
            others = [o for (t, o) in FUELS_ENGINE if t == e["fuel_type"] and o != e["fuel_origin"]]
            pilot = (e["fuel_type"], others[0] if others else e["fuel_origin"])
        e["dual"] = {"bspfc": [0.0] if rng.random() < 0.1 else gen_value_curve(rng, 1, 12),      # 0 g/kWh: no pilot fuel in this mode
                     "pilot_type": pilot[0], "pilot_origin": pilot[1]}
    return e


def _as_points(curve):
    if len(curve) == 1 and not isinstance(curve[0], list):
        return [[1.0, curve[0]]]
    return curve


def gen_source_spec(rng, name, swb, kinds=("generator", "genset", "fuel_cell_system", "coges")):
    """A source the constructors accept (a generator behind a rectifier is a serial train whose product
    curve the constructor checks for a monotone input-output map)."""
    for _ in range(100):
        spec = _gen_source_spec(rng, name, swb, kinds)
        try:
            build_electric_component(spec)
            return spec
        except Exception:
            continue
    return {"kind": "generator", "name": name, "swb": swb, "rated": 1000.0, "speed": 1000.0, "curve": [0.95]}


def _gen_source_spec(rng, name, swb, kinds):
    k = str(rng.choice(list(kinds)))
    rated = float(rng.choice([250.0, 500.0, 1000.0, 2000.0, float(np.round(rng.uniform(100, 4000), 0))]))
    if k == "generator":
        return {"kind": k, "name": name, "swb": swb, "rated": rated, "speed": 1000.0, "curve": comps.gen_accepted_curve(rng, rated)}
    if k == "genset":
        s = {"kind": k, "name": name, "swb": swb,
             "generator": {"rated": rated, "speed": 1000.0, "curve": comps.gen_accepted_curve(rng, rated)},
             "engine": gen_engine_spec(rng, rated * 1.1)}
        if rng.random() < 0.25:
            r_rect = float(np.round(rated * float(rng.choice([1.0, 1.0, 1.2, 1.5, 2.0])), 1))      # a rectifier is often rated above its generator
            s["rectifier"] = {"rated": r_rect, "curve": comps.gen_accepted_curve(rng, r_rect),
                              "type": str(rng.choice(["RECTIFIER", "RECTIFIER", "ACTIVE_FRONT_END", "POWER_CONVERTER"]))}      # whatever the converter is called
        s["rated"] = rated
        return s
    if k == "fuel_cell_system":
        m = int(rng.integers(1, 5))
        return {"kind": k, "name": name, "swb": swb, "rated": rated, "modules": m,
                "fuel_cell": {"rated": rated / m * 1.05, "curve": comps.gen_accepted_curve(rng, rated / m * 1.05, lo=0.4, hi=0.65),
                              "fuel_type": "HYDROGEN", "fuel_origin": str(rng.choice(["RENEWABLE_NON_BIO", "FOSSIL"]))},
                "converter": {"rated": rated, "curve": comps.gen_accepted_curve(rng, rated)}}
    gt = [[0.0, 0.0], [0.25, 0.2], [0.5, 0.38], [0.75, 0.52], [1.0, 0.65]]
    st = [[p[0], float(np.round(p[0] - p[1], 4))] for p in gt]
    c = {"rated": rated * 1.05, "speed": 3000.0, "curve": comps.gen_accepted_curve(rng, rated * 1.05, lo=0.3, hi=0.6),
         "fuel_type": "DIESEL" if rng.random() < 0.5 else "NATURAL_GAS", "fuel_origin": "FOSSIL", "nox": str(rng.choice(["TIER_2", "TIER_3"]))}
    if rng.random() < 0.6:
        c["gt_curve"], c["st_curve"] = [[p[0], p[1] * rated] for p in gt[1:]], [[p[0], p[1] * rated] for p in st[1:]]
    return {"kind": "coges", "name": name, "swb": swb, "rated": rated, "cogas": c,
            "generator": {"rated": rated, "speed": 3000.0, "curve": comps.gen_accepted_curve(rng, rated)}}


def gen_serial_spec(rng, kind, name, swb, rated, n_stages=None, **extra):
    types = ["TRANSFORMER", "POWER_CONVERTER", "ELECTRIC_MOTOR"] if kind == "drive" else ["TRANSFORMER", "POWER_CONVERTER", "SYNCHRONOUS_MACHINE"]
    if n_stages is None:
        n_stages = int(rng.integers(1, 4))
    types = types[-n_stages:]
    for _ in range(100):
        stages = [{"type": t, "rated": float(rated), "curve": comps.gen_accepted_curve(rng, rated, lo=0.8)} for t in types]
        spec = dict({"kind": kind, "name": name, "swb": swb, "rated": float(rated), "stages": stages}, **extra)
        try:
            build_electric_component(spec)     # the constructor checks the product curve
            return spec
        except Exception:
            continue
    stages = [{"type": t, "rated": float(rated), "curve": [0.95]} for t in types]
    return dict({"kind": kind, "name": name, "swb": swb, "rated": float(rated), "stages": stages}, **extra)


def gen_electric_plant(rng, n_swb=None, max_sources=3, with_storage=None, with_pti=None, source_kinds=("generator", "genset", "fuel_cell_system", "coges"),
                       ids=None, bus_ties=None):
    """Spec of an electric plant: switchboards with sources, loads/drives, optional storage and PTI/PTO, and a breaker graph."""
    if n_swb is None:
        n_swb = int(rng.choice([1, 2, 3, 4, 5], p=[0.2, 0.35, 0.25, 0.12, 0.08]))
    if ids is None and rng.random() < 0.25:        # switchboards numbered as on the drawings, not 1..n
        ids = sorted(int(x) for x in rng.choice(range(1, 40), size=n_swb, replace=False))
    swbs = ids or list(range(1, n_swb + 1))
    comps_ = []
    # a switchboard fed by storage only (battery room): allowed, it needs a source *or* storage
    storage_only = swbs[int(rng.integers(len(swbs)))] if (len(swbs) > 1 and with_storage is not False and rng.random() < 0.2) else None
    for s in swbs:
        for i in range(0 if s == storage_only else int(rng.integers(1, max_sources + 1))):
            comps_.append(gen_source_spec(rng, f"src{s}_{i}", s, source_kinds))
        for i in range(int(rng.integers(0, 3))):
            r = float(np.round(rng.uniform(100, 1500), 0))
            if rng.random() < 0.5:
                comps_.append({"kind": "other_load", "name": f"load{s}_{i}", "swb": s, "rated": r, "curve": comps.gen_accepted_curve(rng, r)})
            else:
                comps_.append(gen_serial_spec(rng, "drive", f"drive{s}_{i}", s, r))
        if s == storage_only or (with_storage if with_storage is not None else rng.random() < 0.4):
            st = comps.gen_storage_spec(rng)
            st.update(name=f"ess{s}", swb=s)
            comps_.append(st)
        if (with_pti if with_pti is not None else rng.random() < 0.25):
            comps_.append(gen_serial_spec(rng, "pti_pto", f"pti{s}", s, float(np.round(rng.uniform(200, 1500), 0)), shaft_line=1))
    if not any(c["kind"] in ("other_load", "drive") for c in comps_):      # a plant has at least one consumer
        s0 = swbs[int(rng.integers(len(swbs)))]
        r = float(np.round(rng.uniform(100, 1500), 0))
        comps_.append({"kind": "other_load", "name": f"load{s0}_x", "swb": s0, "rated": r, "curve": comps.gen_accepted_curve(rng, r)})
    gensets = [c for c in comps_ if c["kind"] == "genset"]
    if len(gensets) >= 2 and rng.random() < 0.4:      # identical generating sets built around one Engine object (e = Engine(...); Genset(.., e, g1); Genset(.., e, g2))
        a, b = gensets[0], gensets[1]
        b["engine"] = dict(a["engine"])
        b["generator"] = dict(b["generator"], rated=a["generator"]["rated"])
        b["rated"] = a["generator"]["rated"]
        b.pop("rectifier", None)
        a["engine_share"] = b["engine_share"] = "shared_engine"
    if bus_ties is None:
        bus_ties = gen_bus_ties(rng, swbs)
    return {"type": "electric", "name": "plant", "electric": comps_, "bus_ties": bus_ties}


def gen_bus_ties(rng, swbs):
    n = len(swbs)
    if n < 2:
        return []
    perm = [swbs[i] for i in rng.permutation(n)]
    shape = str(rng.choice(["chain", "star", "ring", "extra"]))
    ends = list(zip(perm, perm[1:]))            # always connectable (a switchboard system needs breakers)
    if shape == "star":
        ends = [(perm[0], p) for p in perm[1:]]
    elif shape == "ring" and n > 2:
        ends.append((perm[-1], perm[0]))
    elif shape == "extra" and n > 2:
        ends.append((perm[0], perm[2]))
    ends = [(b, a) if rng.random() < 0.5 else (a, b) for a, b in ends]
    return [list(ends[i]) for i in rng.permutation(len(ends))]


# ------------------------------------------------------------------ mechanical / hybrid plants

def gen_mech_components(rng, n_lines=None, pti_swb=None, force_pti=None):
    """Components of a mechanical propulsion system: per shaft line 1-3 main engines (+-gearbox),
    1-2 mechanical loads, optional PTI/PTO (returned separately: it is an electric-side object)."""
    if n_lines is None:
        n_lines = int(rng.choice([1, 2, 3], p=[0.5, 0.35, 0.15]))
    ids = list(range(1, n_lines + 1)) if rng.random() < 0.6 else sorted(int(x) for x in rng.choice(range(0, 6), size=n_lines, replace=False))      # any numbers, 0 included
    if ids != list(range(1, n_lines + 1)) and 0 not in ids and rng.random() < 0.5:
        ids = sorted([0] + ids[1:])
    mech, ptis = [], []
    for ln in ids:
        for i in range(int(rng.integers(1, 4))):
            rated = float(rng.choice([1000.0, 2500.0, 4000.0, float(np.round(rng.uniform(500, 6000), 0))]))
            e = {"kind": "main_engine", "name": f"me{ln}_{i}", "shaft_line": ln, "rated": rated,
                 "engine": gen_engine_spec(rng, rated, speed=float(rng.choice([80.0, 120.0, 500.0, 750.0])))}
            if rng.random() < 0.4:
                e["gearbox"] = {"rated": rated, "curve": comps.gen_accepted_curve(rng, rated, lo=0.9)}
            mech.append(e)
        for i in range(int(rng.integers(1, 3))):
            r = float(np.round(rng.uniform(800, 6000), 0))
            mech.append({"kind": "mech_load", "name": f"prop{ln}_{i}", "shaft_line": ln, "rated": r,
                         "curve": comps.gen_accepted_curve(rng, r, lo=0.9), "type": "PROPELLER_LOAD"})
        if (force_pti if force_pti is not None else rng.random() < 0.5):
            swb = pti_swb if pti_swb is not None else 1
            ptis.append(gen_serial_spec(rng, "pti_pto", f"pti_l{ln}", swb, float(np.round(rng.uniform(300, 2000), 0)), shaft_line=ln))
    return mech, ptis, ids


def gen_mechanical_plant(rng, **kw):
    mech, ptis, ids = gen_mech_components(rng, **kw)
    comps_ = mech + [{"kind": "pti_pto_ref", "name": p["name"]} for p in ptis]
    spec = {"type": "mechanical", "name": "mplant", "electric_objects": ptis, "mechanical": comps_, "lines": ids}
    if rng.random() < 0.5:
        spec["mech_order"] = [int(i) for i in rng.permutation(len(comps_))]
    return spec
