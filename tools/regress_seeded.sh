#!/bin/bash
# full regression of stored seeded changes on /repo HEAD, 8 scratch worktrees in parallel
cd /verif
N=8
for i in $(seq 0 $((N-1))); do git -C /repo worktree add -f --detach /tmp/wr$i HEAD >/dev/null 2>&1; done
ls -d seeded/C*/ | sort | while read d; do grep -q neutralised_by $d/meta.json || echo $d; done > /tmp/regress.list
for i in $(seq 0 $((N-1))); do
  ( awk "NR % $N == $i" /tmp/regress.list | while read d; do SEEDS="${SEEDS:-0}" tools/seeded_run.sh $d /tmp/wr$i; done > /tmp/regress.$i.log 2>&1 ) &
done
wait
for i in $(seq 0 $((N-1))); do git -C /repo worktree remove --force /tmp/wr$i; done
git -C /repo worktree prune
cat /tmp/regress.*.log > /tmp/regress.all.log
echo "demo lines not as wanted:"; grep "demo clean" /tmp/regress.all.log | grep -v "clean=0 (want 0) patched=1 (want 1) tests=0"
echo "checks that missed:"; grep "check=" /tmp/regress.all.log | grep "exit=0"
echo "totals: $(grep -c 'check=' /tmp/regress.all.log) runs, $(grep 'check=' /tmp/regress.all.log | grep -c 'exit=1') caught"
