#!/bin/bash
# usage: tools/run_all.sh <seed> [tier] [parallel]   -- runs every registered check, prints one line per check
cd "$(dirname "$0")/.."
SEED=${1:-0}; TIER=${2:-quick}; PAR=${3:-8}
mkdir -p .work/logs
python3 -c "import json;print('\n'.join(c['property_id'] for c in json.load(open('MANIFEST.json'))['checks']))" | \
  xargs -P "$PAR" -I{} bash -c "VERIF_SEED=$SEED timeout 7200 ./check {} --tier $TIER > .work/logs/{}-$SEED-$TIER.log 2>&1; echo \"{} seed=$SEED tier=$TIER exit=\$? \$(grep -c VIOLATION .work/logs/{}-$SEED-$TIER.log) violations \$(tail -1 .work/logs/{}-$SEED-$TIER.log | grep -o 'wall=[0-9.]*s')\""
