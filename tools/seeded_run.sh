#!/bin/bash
# tools/seeded_run.sh <seeded-dir> <worktree> [check-ids...]
#
# Confirms one seeded change and runs the checks against it, all inside a scratch worktree of /repo
# (never /repo itself, so that nothing running against /repo is disturbed):
#   1. worktree clean:   demo.py must exit 0
#   2. patch applied:    demo.py must exit 1, the repository's own test suite must pass
#   3. patch applied:    ./check <id> (quick, VERIF_REPO=<worktree>, VERIF_OUT=scratch) for every id given
#                        (default: the property the change was written for)
#   4. patch reverted:   worktree left clean
# Prints one summary line per step; results of step 3 are stored in <seeded-dir>/check-<id>.log.
set -u
SD=$(realpath "$1"); WT=$(realpath "$2"); shift 2
ID=$(basename "$SD" | cut -c1-3)
CHECKS=${*:-$ID}
VERIF=$(cd "$(dirname "$0")/.." && pwd)
PP="$WT/feems:$WT/machinery-system-structure:$WT/RunFEEMSSim"
OUT=$(mktemp -d /tmp/seeded-out.XXXXXX)
git -C "$WT" checkout -- . >/dev/null 2>&1
( cd "$SD" && PYTHONPATH="$PP" /venv/bin/python demo.py > "$OUT/demo-clean.txt" 2>&1 ); c0=$?
git -C "$WT" apply "$SD/patch.diff" || { echo "$ID patch does not apply"; exit 2; }
( cd "$SD" && PYTHONPATH="$PP" /venv/bin/python demo.py > "$OUT/demo-patched.txt" 2>&1 ); c1=$?
( cd "$WT" && /venv/bin/python -m pytest -q -p no:cacheprovider --timeout=900 -x > "$OUT/tests.txt" 2>&1 ); t=$?
if [ $t -ne 0 ]; then   # one flaky randomised test on the unchanged tree: rerun once
  ( cd "$WT" && /venv/bin/python -m pytest -q -p no:cacheprovider --timeout=900 > "$OUT/tests.txt" 2>&1 ); t=$?
fi
echo "$ID demo clean=$c0 (want 0) patched=$c1 (want 1) tests=$t (want 0): $(tail -1 "$OUT/tests.txt")"
for c in $CHECKS; do
  for seed in ${SEEDS:-0}; do
    ( cd "$VERIF" && VERIF_REPO="$WT" VERIF_OUT="$OUT" VERIF_SEED=$seed timeout 1800 ./check "$c" --tier "${TIER:-quick}" > "$OUT/check-$c-$seed.log" 2>&1 ); e=$?
    echo "$ID check=$c seed=$seed exit=$e $(grep -c '^VIOLATION' "$OUT/check-$c-$seed.log") violation line(s): $(grep '^VIOLATION' "$OUT/check-$c-$seed.log" | head -3 | sed 's/.*replay=[^ ]*\///' | tr '\n' ' ')"
    cp "$OUT/check-$c-$seed.log" "$SD/check-$c-seed$seed.log"
    for r in "$OUT"/replays/$c-*-$seed.json; do [ -f "$r" ] && cp "$r" "$SD/replay-$(basename "$r")"; done
  done
done
git -C "$WT" checkout -- .
rm -rf "$OUT"
find "$WT" -name __pycache__ -type d -prune -exec rm -rf {} + 2>/dev/null
exit 0
