#!/usr/bin/env python3
"""tools/file_round.py <round> <table.json>: files the sub-agents' deliverables of one seeded round.

For every property in table.json ({"C01": {"changed":…, "change":…, "needs":…, "first_run":…, "strengthened":…}, …}):
copies /tmp/seeded<round>/<id>/{patch.diff,demo.py,notes.md,property.txt,aside*.py} to seeded/<id>-r<round>/, confirms the change and
runs the check against it in the scratch worktree /tmp/w<round>-<id> (tools/seeded_run.sh, seeds 0 1 2), and writes meta.json."""
import json, re, shutil, subprocess, sys, glob, os
from pathlib import Path
from concurrent.futures import ThreadPoolExecutor

VERIF = Path(__file__).resolve().parent.parent
rnd, table = sys.argv[1], json.load(open(sys.argv[2]))
head = subprocess.run(["git", "-C", "/repo", "log", "--format=%h", "-1"], capture_output=True, text=True).stdout.strip()


def one(pid):
    src, dst, wt = Path(f"/tmp/seeded{rnd}/{pid}"), VERIF / "seeded" / f"{pid}-r{rnd}", f"/tmp/w{rnd}-{pid}"
    dst.mkdir(parents=True, exist_ok=True)
    for f in ["patch.diff", "demo.py", "notes.md", "property.txt"] + [os.path.basename(x) for x in glob.glob(str(src / "aside*.py"))]:
        shutil.copy(src / f, dst / f)
    for old in list(dst.glob("check-*.log")) + list(dst.glob("replay-*.json")):
        old.unlink()
    out = subprocess.run([str(VERIF / "tools/seeded_run.sh"), str(dst), wt], capture_output=True, text=True,
                         env=dict(os.environ, SEEDS="0 1 2")).stdout
    m = re.search(r"demo clean=(\d+) \(want 0\) patched=(\d+) \(want 1\) tests=(\d+) \(want 0\): (.*)", out)
    checks = []
    for cm in re.finditer(r"check=(\w+) seed=(\d+) exit=(\d+) (\d+) violation line\(s\): (.*)", out):
        reps = sorted({re.sub(r"-\d+\.json$", "", r) for r in cm.group(5).split()})
        checks.append({"check": cm.group(1), "seed": int(cm.group(2)), "exit": int(cm.group(3)), "violation_lines": int(cm.group(4)), "replays": reps})
    t = table[pid]
    meta = {"property": pid, "round": int(rnd), "source": t.get("source", "fresh sub-agent; brief in DESIGN.md §10 (round 5)"), "applies_to_repo_commit": head,
            "changed": t["changed"], "change": t["change"], "needs_to_manifest": t["needs"],
            "confirmed_by": {"how": f"tools/seeded_run.sh seeded/{pid}-r{rnd} <scratch worktree> with SEEDS='0 1 2'",
                             "demo_exit_clean": int(m.group(1)), "demo_exit_patched": int(m.group(2)),
                             "test_suite_exit_patched": int(m.group(3)), "test_suite_summary": m.group(4)},
            "checks": checks, "first_run": t["first_run"], "strengthened": t.get("strengthened")}
    (dst / "meta.json").write_text(json.dumps(meta, indent=1) + "\n")
    return pid, m.groups(), [(c["seed"], c["exit"]) for c in checks]


with ThreadPoolExecutor(max_workers=7) as ex:
    for r in ex.map(one, sorted(table)):
        print(*r)
