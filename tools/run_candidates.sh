#!/bin/bash
# usage: tools/run_candidates.sh <subdir, e.g. candidates8> [repo]   - exit status of every auditor script against the repo
sub=${1:-candidates8}; repo=${2:-/repo}
export PYTHONPATH=$repo/feems:$repo/machinery-system-structure:$repo/RunFEEMSSim
cd /verif/audit
ls -d C*/$sub/finding_*.py | xargs -P 12 -I{} bash -c 'cd $(dirname {}); timeout 600 /venv/bin/python $(basename {}) >/dev/null 2>&1; echo "{} $?"' | sort
