#!/bin/bash
# usage: tools/fixcommit.sh "fix: message"   - runs the repo's own suite (up to 3 times: two tests of the base tree are
# randomised and fail now and then) on /repo's working tree and commits it when the suite is green.
set -u
msg="$1"
case "$msg" in fix:*) ;; *) echo "message must start with fix:"; exit 2;; esac
cd /repo
for i in 1 2 3; do
  out=$(/venv/bin/python -m pytest -q -p no:cacheprovider --timeout=900 -x 2>&1 | tail -3)
  if echo "$out" | grep -q " passed" && ! echo "$out" | grep -q "failed\|error"; then
    git add -A && git commit -q -m "$msg" && git log --oneline -1 && exit 0
  fi
  echo "suite attempt $i: $out"
done
echo "NOT COMMITTED"; exit 1
