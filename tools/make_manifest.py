#!/usr/bin/env python3
"""Regenerates /verif/MANIFEST.json from the table below (run after adding a check)."""
import json
from pathlib import Path

VERIF = Path(__file__).resolve().parent.parent
NOTE = ("Trusted: Lean 4.33 kernel + axioms propext/Classical.choice/Quot.sound (audited per run); the hand-written Lean "
        "model is tied to /repo by the correspondence check (differential testing, sampled; generators reported in the "
        "evidence) and by data modules regenerated from the source; numpy/pandas/scipy/protobuf primitives and IEEE "
        "rounding are outside the model (1e-9 relative tolerance).")

CHECKS = {
 "C18": ("Theorems over the list model of FuelConsumption.__add__/__mul__/fuel_by_mass_fraction for an arbitrary commutative-monoid mass type (scalars and series alike): per-kind and total mass conserved, commutative, associative, neutral element, scaling, fractions sum to one / zero. 'Operands unchanged' has no content in a value model and is decided by the correspondence check only (snapshots of shared operands after every operation of a history).",
         "Lean 4 proof (induction over record lists) + model/implementation correspondence on operation histories"),
 "C01": ("Theorem: for every group of switchboards (in particular every label class of the C02 grouping, which is a connectivity class), with shares in [0,1] and storage/PTI modes in {0,1}, delivered = drawn whenever net load implies balancing capacity; without capacity the imbalance is exactly the uncovered load. Proved over the per-step model of get_sum_load_kw_sources_symmetric / get_sum_power_avail_for_power_sources_symmetric / set_power_out_power_sources for arbitrary lists of switchboards, sources, storage/PTI units and consumers. Correspondence runs the real do_power_balance_calculation on random plants with all source kinds and compares every source output and storage/PTI input at every step.",
         "Lean 4 proof (linear arithmetic over list sums, C02 grouping) + model/implementation correspondence on random plants and input series"),
 "C02": ("Theorems over the model of switchboard2bus_configuration (relabel-whole-group merge, as in the code after the repair of D1): same label <=> linked by a chain of closed breakers (EqvGen), for every breaker list incl. rings, stars, parallel breakers; independent of declaration order (Perm) and of the orientation of any subset of breakers; bus count = number of groups (witnessed by a list of pairwise unconnected representatives); renumbering preserves the grouping and lies in 1..no_bus; the status used for step t is the status given for step t (change indices). The pre-repair merge map is kept as groupLegacy with kernel-checked counter-examples.",
         "Lean 4 proof (invariant over the breaker fold, EqvGen) + model/implementation correspondence on breaker graphs and status series (exhaustive on <=4 switchboards in the thorough tier)"),
 "C03": ("Theorems over the same model as C01: every running equal-sharing source and balancing storage/PTI unit of a bus has output/rating equal to the bus load fraction (one fraction per bus), a running fixed-share source delivers share x rating exactly, a stopped source or stopped balancing unit is at zero, a given-power unit keeps its power, and any common fraction for which the bus balances equals the model's (uniqueness, buses with capacity). Correspondence shared with C01.",
         "Lean 4 proof (case analysis + field arithmetic) + model/implementation correspondence shared with C01"),
 "C04": ("Theorems over the per-step model of ShaftLine.do_power_balance for arbitrary engine lists, loads and optional PTI/PTO: engines + PTI/PTO shaft power = loads whenever running engines exist where engine power is needed (either sign of PTI/PTO power), running engines at one common fraction, stopped engines at zero, full-PTI: PTI carries the whole load and every engine delivers zero, lines independent, status after the call, and the exact imbalance when no engine is available. Correspondence on random mechanical plants incl. geared and dual-fuel engines.",
         "Lean 4 proof (case analysis on full-PTI / available power + arithmetic) + model/implementation correspondence on random shaft-line plants"),
 "C05": ("Theorems over the per-step model of HybridPropulsionSystem.do_power_balance_calculation (electric; shaft; electric again if any step is full-PTI) for arbitrary machine conversions f (shaft->electric) and g (electric->shaft): the final electrical / shaft powers, the exact difference between the power each balance was computed with and the final power (zero on the side computed last, the machine's round-trip error on the other), hence both balances within any round-trip accuracy eps; the two powers are a conversion pair of the machine (differ by its loss only); full PTI: electrical = load / efficiency >= load; construction accepted iff both sides list the same machines. PARTIAL: eps <= 0.5 % of rating is a hypothesis (C06 proves 1 %); it is validated on every case.",
         "Lean 4 proof (case analysis over the pass structure, parametric in the machine) + correspondence on hybrid plants with conversion oracles read from the real PTI/PTO"),
 "C06": ("Theorems for an arbitrary efficiency characteristic: efficiency in use within [1 %,100 %]; forward formula: supplied x efficiency = delivered and supply >= delivery in both flow directions; zero flow gives zero; with an exact inverse no energy is created in reverse flow and both round trips are exact (also for electric machines in every role); array dispatch = scalar dispatch given inv 0 = 0; serial train efficiency = product of clamped stage efficiencies at their own loads, within (0,1]; zero residual of the strict balance = exact round trip. PARTIAL: for the interpolated inverse only a 1 % (sample spacing) bound is proved under a knot-exact/monotone contract; the 0.5 % and 1e-6 figures depend on scipy and are validated per case on the load range the curve covers; outside it they fail (known finding D16).",
         "Lean 4 proof (order/field arithmetic, parametric in the curve) + correspondence with curve and inverse oracles read from the real component"),
 "C07": ("Theorems for arbitrary consumption / efficiency / split curves: engine fuel = bsfc(load) x P / 3.6e6, pilot fuel separate with its own curve, zero at zero power, non-negative for non-negative curve and power, constant curve = linear; genset and geared engine: engine power x efficiency at that load = delivered power (and >= it); fuel cell: (P/eta)/LHV/1e6; modules: system = N x module at 1/N of the cell-side power (and = one module at full power for a constant cell efficiency); COGAS: fuel formula, gas = share x P, gas + steam = P; running hours = sum of intervals with non-zero output. Correspondence with pull-based curve oracles through generator -> engine chains.",
         "Lean 4 proof (field arithmetic, parametric in the curves) + correspondence with pull-based curve oracles on the real components"),
 "C08": ("Formula theorems: tank-to-wake = (1-slip)(CO2+25CH4+298N2O)+25 slip with the GWPs of the source, well-to-tank = upstream x LHV, well-to-wake = sum; total = sum of mass x factor component-wise (zero when nothing burned; series = scalar per step); mix rule: in a gas-engine class non-gas fuels use the ICE row, natural gas keeps the class, IMO ignores the class. Table theorems are kernel-evaluated (decide +kernel) on a Lean module REGENERATED from the CSVs and mapping dicts on every run: IMO rows carry CO2 only, slip by class independent of origin, one row per gas class per origin, key uniqueness, the exact list of incomplete rows. A table / constant edit re-elaborates them; the search then looks for the failing lookup on the real code.",
         "Lean 4 proof + kernel evaluation over factor tables regenerated from the source on every run, plus model/implementation correspondence (exhaustive single-fuel sweep + random mixes)"),
 "C09": ("Theorems over the reals (Real.rpow) about the limit built from constants REGENERATED from feems/constant.py on every run: the constants are exactly those of Regulation 13 (values), the limit is positive, never increases with speed including across 130 rpm, Tier I >= II >= III on [1,2000] rpm; mass = specific emission x sum(P dt)/3.6e6. PARTIAL on continuity: the regulation's rounded constants do not meet exactly at 130 rpm; the step is proved < 0.04 g/kWh per tier and the two branches are continuous; exact continuity is false and not claimed. Integer-power certificates (norm_num on 5th/100th powers) carry the rpow bounds. Correspondence: Float twin of the same constants vs Engine/COGAS objects for every tier over speeds 1..2000, species masses through the per-component result.",
         "Lean 4 proof over Real.rpow with constants regenerated from the source, plus correspondence via a Float twin"),
 "C10": ("Theorems: the accumulation of component results (left fold of the same-period merge of C19, then of the node results) gives, for every float field, fuel kind, species and CO2 component, the arithmetic sum over the components (fold_eq_sum / accumulate_eq_sum), the system total is the sum over nodes (system_eq_sum_nodes), and a permutation of the component list leaves every total unchanged (perm); detail tables concatenate. Per-component figures themselves are C07/C08/C09/C17. Correspondence: the real system results of electric / mechanical / hybrid plants vs the model's nested accumulation of the per-component results obtained through the public per-component function, plus re-runs with permuted component lists.",
         "Lean 4 proof (induction over the fold, Perm.sum_eq) + correspondence on whole-plant results incl. permuted component lists"),
 "C11": ("Theorems about interval-weighted sums of an arbitrary per-step rate (the form of every extensive figure): additive over any split into consecutive parts, invariant under permutation of the steps with their inputs, linear in the interval lengths; duration = sum of intervals; running hours additive and linear; a scalar operating point = a series of one. That the implementation's whole pipeline is such a sum is decided by the correspondence: whole vs merged parts, vs permuted steps, vs scaled intervals on electric / mechanical / hybrid plants with breaker and status changes inside the series, plus model-vs-code for integrate_data, the cumulative variant and get_duration_s.",
         "Lean 4 proof (list sums, Perm) + metamorphic correspondence (split / permute / scale) on whole-plant runs"),
 "C12": ("Theorems over a generic state machine of object reuse (set inputs / balance / read result / query) for ANY balance and result function: a calculation with freshly supplied inputs gives the outputs of a fresh object after any history, repeating it changes nothing, queries leave the state unchanged and answer the same twice. PARTIAL by nature of the technique: a value model cannot exhibit Python aliasing or hidden state, so the force of the check is the correspondence: histories of 2-4 calculations on one real object (all plant types and the MachineryCalculation front end) compared after every step with a fresh object, with snapshots of the caller-owned arrays, with repeated balances / result reads and interleaved queries incl. protobuf export.",
         "Lean 4 proof over a generic reuse state machine + history-based correspondence (reused vs fresh object, caller-array snapshots)"),
 "C15": ("Theorems over the model of min_load_table_dict + PmsLoadTable.on_pattern for every list of positive ratings (any length >= 1), every positive fraction and every load: sufficient (strictly above the load whenever some set is), all-on otherwise, minimal among non-empty sets, monotone, non-empty, loading <= fraction after an equal-sharing balance; and for the equal-size rule of feems.runsimulation (ceil): non-empty, sufficient, minimal, monotone. Proofs use only 'sorted + permutation of all patterns'. Correspondence compares table lookups exactly (integer ratings x dyadic fractions make double thresholds exact) incl. every threshold, ties, negative loads and loads above capacity; plus whole MachineryCalculation runs on plants with 1-4 switchboards: no running source above the allowed fraction when avoidable, at least one source runs.",
         "Lean 4 proof (sortedness + permutation argument over the pattern table) + model/implementation correspondence at and around every switching threshold"),
 "C16": ("Theorems over the model of the four input routes: a Gymir result, the same time-stamped series, a protobuf message with unset per-sample auxiliary power and the operating points (P[:-1], diff t) give identical prepared inputs (and per-sample auxiliary power agrees between the series and protobuf routes); sample k is held for t[k+1]-t[k], the last sample contributes no power, the intervals add up to the span of the stamps; one auxiliary value = the constant series, a series is cut to the number of intervals; equal division among propulsors / auxiliary loads adds up to the whole; equal inputs give equal results. Correspondence: the four real entry points on electric / mechanical+electric / hybrid plants with 1-4 switchboards vs the model's prepared inputs, and the routes' results against each other.",
         "Lean 4 proof (list lemmas) + correspondence of all four real entry points against the model and each other"),
 "C20": ("Theorems over a decision-procedure model of the structural validation: each of the ten listed families, violated anywhere, makes the configuration rejected; a configuration is accepted exactly when none is violated; kernel-checked witnesses for the families incl. names per category and the single-value exemption; the sampled input-output map test of the constructor (monotoneMap over the C06 forward formula); accepted configurations have no zero denominator in the C01/C04/C06-C08 models (positive ratings, positive clamped efficiency, positive LHV in every complete row of the GENERATED tables, capacity hypothesis). PARTIAL: the model decides from the facts the validation looks at; that the real constructors look at exactly those facts is the correspondence: valid bases x one invalidating change per family vs the real constructors / balance / result.",
         "Lean 4 proof over a validation decision procedure + correspondence on valid bases and single invalidating changes from every family"),
 "C17": ("Theorems over the storage model: energy = interval-weighted sum of terminal power x charging efficiency / discharging efficiency after converter loss, SoC formula (battery kWh, supercapacitor Wh), accumulated series starts at 0, has n+1 entries and ends at the total, stored energy never exceeds terminal energy for any series (so equal charge and discharge never raise the SoC), closed form for one charge/discharge. The converter is an abstract function constrained only by 'never creates energy'; in the correspondence its per-sample value is an oracle read from the real converter.",
         "Lean 4 proof (induction over series, nlinarith) + model/implementation correspondence with converter oracle"),
 "C19": ("Theorems over the model of FEEMSResult.__merge: every float field, fuel kind, species of either operand and CO2 component added, detail concatenated, duration/load rules of both modes, associativity (same-period: whenever defined; consecutive-period: positive durations and operands that carry a generator load whenever they carry a duration — the excluded case is proved non-associative and is known finding D18), empty result neutral. Operands-unchanged by correspondence only.",
         "Lean 4 proof (case analysis + field arithmetic) + model/implementation correspondence on pairs/triples of results"),
}

def main():
    props = [json.loads(l)["id"] for l in (VERIF / "properties.jsonl").read_text().splitlines() if l.strip()]
    checks = []
    for pid in props:
        if pid not in CHECKS:
            continue
        text, tech = CHECKS[pid]
        checks.append({
            "property_id": pid,
            "quick_cmd": f"./check {pid} --tier quick",
            "thorough_cmd": f"./check {pid} --tier thorough",
            "evidence_file": f"evidence/{pid}.json",
            "replay_cmd_template": "./check replay {path}",
            "engine": "lean-model",
            "level_claimed": {"category": "proof", "text": text, "design_ref": f"DESIGN.md section 5, {pid}"},
            "level_note": NOTE,
            "technique": tech,
        })
    man = {
        "version": 1,
        "setup_cmd": "cd lean && lake build FeemsModel FeemsProofs driver",
        "hooks": {
            "guard": "SINTEF_FEEMS_VERIF",
            "enable": "no source hooks are needed: the harness imports the packages from /repo's working tree in-process and reads oracles through public APIs; the checks set the variable but nothing in /repo reads it",
            "baseline_off_cmd": "cd /repo && /venv/bin/python -m pytest -ra -q -p no:cacheprovider --timeout=900 --continue-on-collection-errors",
            "source_commits": [],
            "add_only": True,
        },
        "engines": [
            {"name": "lean-model", "path": "lean", "serves_properties": sorted(CHECKS),
             "kind_free_text": "Lean 4 model (FeemsModel, core only) + property theorems (FeemsProofs, single Mathlib modules) + compiled line-protocol driver"},
            {"name": "correspondence-harness", "path": "harness", "serves_properties": sorted(CHECKS),
             "kind_free_text": "Python harness: runs the real FEEMS code in-process and the Lean driver on the same inputs / histories, compares, evaluates the property predicates on the implementation, decides, writes evidence"},
        ],
        "checks": checks,
        "not_applicable": [{"property_id": p, "reason": "check not built yet (planned: Lean model + correspondence, DESIGN.md section 5); not a judgement that the technique cannot apply"}
                           for p in props if p not in CHECKS],
        "notes": "Fix commits in /repo and known findings: known_findings.json; design, trusted base and seeded-change results: DESIGN.md.",
    }
    (VERIF / "MANIFEST.json").write_text(json.dumps(man, indent=1))

if __name__ == "__main__":
    main()
