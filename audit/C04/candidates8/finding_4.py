"""C04 finding 4 (lowest rank, see caveat in findings.txt) - a shaft line WITHOUT a main engine whose
PTI carries the whole load in full-PTI mode at every step (so engine power is never needed) cannot be
balanced: ShaftLine.do_power_balance fails with "TypeError: 'int' object is not subscriptable",
also when the other shaft lines of the plant have engines.

Run:  PYTHONPATH=<wt>/feems:<wt>/machinery-system-structure:<wt>/RunFEEMSSim /venv/bin/python finding_4.py
Exit status 1 = property violated / input refused (current code), 0 = holds.
"""
import logging
import sys
import warnings

import numpy as np

from feems.components_model.component_electric import ElectricComponent, ElectricMachine, PTIPTO
from feems.components_model.component_mechanical import (
    Engine,
    MainEngineForMechanicalPropulsion,
    MechanicalPropulsionComponent,
)
from feems.system_model import MechanicalPropulsionSystem
from feems.types_for_feems import TypeComponent, TypePower

warnings.filterwarnings("ignore")
logging.disable(logging.CRITICAL)

BSFC = np.array([[1.00, 0.75, 0.50, 0.25, 0.10], [193.66, 188.995, 194.47, 211.4, 250]]).T
N = 3
LOAD = np.array([1500.0, 1000.0, 400.0])


def propeller(name, line):
    return MechanicalPropulsionComponent(
        type_=TypeComponent.PROPELLER_LOAD,
        power_type=TypePower.POWER_CONSUMER,
        name=name,
        rated_power=6000,
        rated_speed=150,
        eff_curve=np.array([1.0]),
        shaft_line_id=line,
    )


def main() -> int:
    machine = ElectricMachine(
        type_=TypeComponent.SYNCHRONOUS_MACHINE,
        power_type=TypePower.PTI_PTO,
        name="shaft machine",
        rated_power=2000,
        rated_speed=900,
        eff_curve=np.array([0.95]),
    )
    converter = ElectricComponent(
        type_=TypeComponent.INVERTER,
        power_type=TypePower.POWER_TRANSMISSION,
        name="converter",
        rated_power=2000,
        eff_curve=np.array([0.98]),
    )
    pti = PTIPTO(
        name="PTI",
        components=[converter, machine],
        switchboard_id=1,
        rated_power=2000,
        rated_speed=900,
        shaft_line_id=1,
    )
    engine = MainEngineForMechanicalPropulsion(
        "main engine",
        Engine(
            type_=TypeComponent.MAIN_ENGINE,
            name="engine",
            rated_power=4000,
            rated_speed=750,
            bsfc_curve=BSFC,
        ),
        shaft_line_id=2,
    )
    # line 1: PTI + propeller, no engine; line 2: engine + propeller
    system = MechanicalPropulsionSystem(
        "mech", [pti, propeller("propeller 1", 1), engine, propeller("propeller 2", 2)]
    )
    for name, line in (("propeller 1", 1), ("propeller 2", 2)):
        system.set_power_consumer_load_by_value_for_given_name_shaft_line_id(name, line, LOAD.copy())
    system.set_status_main_engine_for_name_shaft_line_id("main engine", 2, np.ones(N, dtype=bool))
    pti.status = np.ones(N, dtype=bool)
    system.set_full_pti_mode_for_name_shaft_line_id("PTI", 1, np.ones(N, dtype=bool))
    system.set_power_input_pti_pto_by_power_output_value_for_name_shaft_line_id(
        "PTI", 1, np.zeros(N)
    )
    try:
        system.do_power_balance()
    except Exception as error:  # noqa
        print("line 1 (no engine, full-PTI at every step) -> balance fails with",
              type(error).__name__ + ":", error)
        print("expected: PTI shaft power = load", LOAD, ", no engine power needed")
        print("\nRESULT: input refused / property cannot be established")
        return 1
    pti_power = np.asarray(pti.power_output, dtype=float)
    ok = np.allclose(pti_power, LOAD) and np.allclose(engine.power_output, LOAD)
    print("PTI shaft power", pti_power, "engine line 2", engine.power_output)
    print("\nRESULT:", "property holds" if ok else "property violated")
    return 0 if ok else 1


if __name__ == "__main__":
    sys.exit(main())
