"""C04 finding 3 - ShaftLine.do_power_balance: where the given PTI power exceeds the shaft load and
every main engine of the line is stopped, no engine power is needed (load - PTI <= 0), yet the balance
returns engines 0 kW + PTI 1000 kW against a load of 800 kW: 200 kW too much on the shaft, without an
error and without a warning.  (With an engine running at that step the surplus is booked as NEGATIVE
engine power and a warning is logged; with all engines stopped nothing is said.)

Run:  PYTHONPATH=<wt>/feems:<wt>/machinery-system-structure:<wt>/RunFEEMSSim /venv/bin/python finding_3.py
Exit status 1 = property violated (current code), 0 = holds.
"""
import logging
import sys
import warnings

import numpy as np

from feems.components_model.component_electric import ElectricComponent, ElectricMachine, PTIPTO
from feems.components_model.component_mechanical import (
    Engine,
    MainEngineForMechanicalPropulsion,
    MechanicalPropulsionComponent,
)
from feems.system_model import MechanicalPropulsionSystem
from feems.types_for_feems import TypeComponent, TypePower

warnings.filterwarnings("ignore")


class Collect(logging.Handler):
    def __init__(self):
        super().__init__(level=logging.WARNING)
        self.messages = []

    def emit(self, record):
        self.messages.append(f"{record.levelname}: {record.getMessage()}")


BSFC = np.array([[1.00, 0.75, 0.50, 0.25, 0.10], [193.66, 188.995, 194.47, 211.4, 250]]).T
N = 3
LOAD = np.array([800.0, 800.0, 800.0])
PTI_SHAFT_KW = np.array([1000.0, 800.0, 500.0])  # motoring (PTI), given by the user
STATUS = np.array([False, False, True])  # the only main engine: stopped, stopped, running


def main() -> int:
    collector = Collect()
    logging.getLogger().addHandler(collector)
    logging.getLogger().setLevel(logging.WARNING)

    machine = ElectricMachine(
        type_=TypeComponent.SYNCHRONOUS_MACHINE,
        power_type=TypePower.PTI_PTO,
        name="shaft machine",
        rated_power=2000,
        rated_speed=900,
        eff_curve=np.array([0.95]),
    )
    converter = ElectricComponent(
        type_=TypeComponent.INVERTER,
        power_type=TypePower.POWER_TRANSMISSION,
        name="converter",
        rated_power=2000,
        eff_curve=np.array([0.98]),
    )
    pti_pto = PTIPTO(
        name="PTI/PTO",
        components=[converter, machine],
        switchboard_id=1,
        rated_power=2000,
        rated_speed=900,
        shaft_line_id=1,
    )
    engine = MainEngineForMechanicalPropulsion(
        "main engine",
        Engine(
            type_=TypeComponent.MAIN_ENGINE,
            name="engine",
            rated_power=4000,
            rated_speed=750,
            bsfc_curve=BSFC,
        ),
        shaft_line_id=1,
    )
    propeller = MechanicalPropulsionComponent(
        type_=TypeComponent.PROPELLER_LOAD,
        power_type=TypePower.POWER_CONSUMER,
        name="propeller",
        rated_power=6000,
        rated_speed=150,
        eff_curve=np.array([1.0]),
        shaft_line_id=1,
    )
    system = MechanicalPropulsionSystem("mech", [engine, pti_pto, propeller])
    system.set_power_consumer_load_by_value_for_given_name_shaft_line_id("propeller", 1, LOAD.copy())
    system.set_status_main_engine_for_name_shaft_line_id("main engine", 1, STATUS.copy())
    system.set_full_pti_mode_for_name_shaft_line_id("PTI/PTO", 1, np.zeros(N, dtype=bool))
    pti_pto.status = np.ones(N, dtype=bool)
    system.set_power_input_pti_pto_by_power_output_value_for_name_shaft_line_id(
        "PTI/PTO", 1, PTI_SHAFT_KW.copy()
    )

    # Domain of the property: engine power is needed only where load - PTI > 0; a running engine
    # exists there (step 2).  At steps 0 and 1 no engine power is needed and no engine runs.
    needed = LOAD - PTI_SHAFT_KW
    assert np.all(STATUS[needed > 0]), "input outside the domain of the property"

    raised = None
    try:
        system.do_power_balance()
    except Exception as error:  # a refusal would be an acceptable answer to the surplus
        raised = error

    print("load                [kW]:", LOAD)
    print("PTI shaft power     [kW]:", np.asarray(pti_pto.power_output, dtype=float))
    print("engine status given     :", STATUS)
    if raised is not None:
        print("the balance refused the input:", type(raised).__name__, raised)
        print("\nRESULT: property holds (input refused)")
        return 0
    engine_power = np.asarray(engine.power_output, dtype=float)
    residual = engine_power + np.asarray(pti_pto.power_output, dtype=float) - LOAD
    print("engine power        [kW]:", engine_power)
    print("engines + PTI - load[kW]:", residual)
    print("messages logged         :", collector.messages or "none")
    violated = bool(np.any(np.abs(residual) > 1e-6))
    if violated:
        print("VIOLATION: at step 0 the shaft receives 1000 kW from the PTI, the load absorbs 800 kW, "
              "the stopped engine delivers 0 kW: 200 kW are unaccounted for, and nothing was "
              "reported")
    print("\nRESULT:", "property violated" if violated else "property holds")
    return 1 if violated else 0


if __name__ == "__main__":
    sys.exit(main())
