"""C04 finding 4: main engines that keep their constructor status (np.ones(1) = always running)
cannot be balanced over a series longer than one step: MechanicalPropulsionSystem.do_power_balance
refuses the plant (ConfigurationError from the validator) and ShaftLine.do_power_balance fails with
an IndexError (the single-value "available power" is used as a boolean mask on the series).
Giving a status series only to the engine that is actually stopped for a while is refused as well.
With a one-step series the default status is accepted and means "running".

(The electric side accepts a single-value status since "a power source that keeps its
single-value sharing mode or status cannot be balanced over a series" was repaired; the
mechanical side was left behind. The first audit reported the same refusal for the PTI/PTO status
and the full-PTI flags; that part is unchanged in the current tree and is not counted here.)

Run: PYTHONPATH=<wt>/feems:<wt>/machinery-system-structure:<wt>/RunFEEMSSim python finding_4.py
Exit status 1 = property violated (valid input refused), 0 = property holds.
"""
import logging
import sys

import numpy as np

logging.disable(logging.CRITICAL)

from feems.components_model.component_base import BasicComponent
from feems.components_model.component_mechanical import (
    Engine,
    MainEngineForMechanicalPropulsion,
    MainEngineWithGearBoxForMechanicalPropulsion,
    MechanicalPropulsionComponent,
)
from feems.system_model import MechanicalPropulsionSystem
from feems.types_for_feems import TypeComponent, TypePower

BSFC = np.array([[0.25, 210.0], [0.5, 195.0], [0.75, 190.0], [1.0, 198.0]])


def build():
    """Two lines: line 1 with two engines (one behind a gearbox), line 2 with one engine."""
    comps = {}

    def engine(name, rated):
        return Engine(
            type_=TypeComponent.MAIN_ENGINE,
            name=name + " engine",
            rated_power=rated,
            rated_speed=750,
            bsfc_curve=BSFC,
        )

    comps["ME1"] = MainEngineForMechanicalPropulsion("ME1", engine("ME1", 2000.0), shaft_line_id=1)
    gearbox = BasicComponent(
        type_=TypeComponent.GEARBOX,
        power_type=TypePower.POWER_TRANSMISSION,
        name="gb",
        rated_power=1000.0,
        eff_curve=np.array([0.98]),
    )
    comps["ME2"] = MainEngineWithGearBoxForMechanicalPropulsion(
        "ME2", engine("ME2", 1000.0), gearbox, shaft_line_id=1
    )
    comps["ME3"] = MainEngineForMechanicalPropulsion("ME3", engine("ME3", 1500.0), shaft_line_id=2)
    for name, line in (("P1", 1), ("P2", 2)):
        comps[name] = MechanicalPropulsionComponent(
            type_=TypeComponent.PROPELLER_LOAD,
            power_type=TypePower.POWER_CONSUMER,
            name=name,
            rated_power=3000.0,
            eff_curve=np.array([1.0]),
            shaft_line_id=line,
        )
    return MechanicalPropulsionSystem("m", list(comps.values())), comps


LOAD1 = np.array([900.0, 0.0, 1500.0])
LOAD2 = np.array([300.0, 600.0, 1200.0])


def clauses(c):
    bad = []
    res1 = c["ME1"].power_output + c["ME2"].power_output - c["P1"].power_input
    res2 = c["ME3"].power_output - c["P2"].power_input
    if np.any(np.abs(res1) > 1e-9) or np.any(np.abs(res2) > 1e-9):
        bad.append(f"balance residual line 1 {res1}, line 2 {res2}")
    if np.any(np.abs(c["ME1"].power_output / 2000.0 - c["ME2"].power_output / 1000.0) > 1e-12):
        bad.append("unequal loading on line 1")
    return bad


violations = []

print("engines keep their default status (always on); loads of three steps on both lines")
print("ShaftLine.do_power_balance on each line:")
system, c = build()
system.set_power_consumer_load_by_value_for_given_name_shaft_line_id("P1", 1, LOAD1)
system.set_power_consumer_load_by_value_for_given_name_shaft_line_id("P2", 2, LOAD2)
try:
    for line in system.shaft_line:
        line.do_power_balance()
    print("   accepted: ME1", c["ME1"].power_output, "ME2", c["ME2"].power_output,
          "ME3", c["ME3"].power_output)
    violations += [f"shaft line: {b}" for b in clauses(c)]
except Exception as exc:  # noqa
    print("   refused:", type(exc).__name__, str(exc).replace("\n", " ")[:200])
    violations.append(f"shaft line: valid input refused ({type(exc).__name__})")

print("MechanicalPropulsionSystem.do_power_balance on the same plant:")
system, c = build()
system.set_power_consumer_load_by_value_for_given_name_shaft_line_id("P1", 1, LOAD1)
system.set_power_consumer_load_by_value_for_given_name_shaft_line_id("P2", 2, LOAD2)
try:
    system.do_power_balance()
    print("   accepted: ME1", c["ME1"].power_output, "ME2", c["ME2"].power_output,
          "ME3", c["ME3"].power_output)
    violations += [f"system: {b}" for b in clauses(c)]
except Exception as exc:  # noqa
    print("   refused:", type(exc).__name__, str(exc).replace("\n", " ")[:230])
    violations.append(f"system: valid input refused ({type(exc).__name__})")

print("only the engine that is stopped for a while gets a status series (ME2 off on step 2):")
system, c = build()
system.set_power_consumer_load_by_value_for_given_name_shaft_line_id("P1", 1, LOAD1)
system.set_power_consumer_load_by_value_for_given_name_shaft_line_id("P2", 2, LOAD2)
system.set_status_main_engine_for_name_shaft_line_id("ME2", 1, np.array([True, False, True]))
try:
    system.do_power_balance()
    print("   accepted: ME1", c["ME1"].power_output, "ME2", c["ME2"].power_output)
except Exception as exc:  # noqa
    print("   refused:", type(exc).__name__, str(exc).replace("\n", " ")[:230])
    violations.append(f"system, one engine with a series: valid input refused ({type(exc).__name__})")

print()
if violations:
    print("PROPERTY VIOLATED:")
    for v in violations:
        print("  -", v)
    sys.exit(1)
print("property holds")
sys.exit(0)
