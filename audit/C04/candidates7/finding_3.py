"""C04 finding 3: full-PTI mode without a PTI/PTO power series.

In full-PTI mode the shaft balance itself decides the power of the PTI/PTO (= the whole shaft
load), which is why ShaftLine.do_power_balance documents "Power input or output of PTI/PTO set
EXCEPT full PTI mode". Nevertheless a plant whose PTI/PTO runs in full-PTI mode on every step and
was therefore given no PTI/PTO power is

  - refused by MechanicalPropulsionSystem.do_power_balance (ConfigurationError: length of the
    power input of the PTI/PTO is 1), and
  - refused by ShaftLine.do_power_balance (IndexError from the boolean mask)

for every series longer than one step. The same plant is accepted for a one-step series, and the
same shaft line inside a HybridPropulsionSystem is accepted for three steps (the hybrid balance
sizes the missing series itself) and gives the demanded result: PTI = load, engines 0.

Run: PYTHONPATH=<wt>/feems:<wt>/machinery-system-structure:<wt>/RunFEEMSSim python finding_3.py
Exit status 1 = property violated (valid input refused), 0 = property holds.
"""
import logging
import sys

import numpy as np

logging.disable(logging.CRITICAL)

from feems.components_model.component_electric import (
    ElectricComponent,
    ElectricMachine,
    Genset,
    PTIPTO,
)
from feems.components_model.component_mechanical import (
    Engine,
    MainEngineForMechanicalPropulsion,
    MechanicalPropulsionComponent,
)
from feems.components_model.utility import IntegrationMethod
from feems.system_model import (
    ElectricPowerSystem,
    HybridPropulsionSystem,
    MechanicalPropulsionSystem,
)
from feems.types_for_feems import TypeComponent, TypePower

BSFC = np.array([[0.25, 210.0], [0.5, 195.0], [0.75, 190.0], [1.0, 198.0]])
EFF = np.array([[0.0, 0.90], [0.25, 0.92], [0.5, 0.95], [0.75, 0.96], [1.0, 0.955]])


def build_mechanical():
    engine = Engine(
        type_=TypeComponent.MAIN_ENGINE,
        name="ME1 engine",
        rated_power=2000.0,
        rated_speed=750,
        bsfc_curve=BSFC,
    )
    me = MainEngineForMechanicalPropulsion("ME1", engine, shaft_line_id=1)
    prop = MechanicalPropulsionComponent(
        type_=TypeComponent.PROPELLER_LOAD,
        power_type=TypePower.POWER_CONSUMER,
        name="P",
        rated_power=3000.0,
        eff_curve=np.array([1.0]),
        shaft_line_id=1,
    )
    machine = ElectricMachine(
        type_=TypeComponent.SYNCHRONOUS_MACHINE,
        name="PTI machine",
        rated_power=1500.0,
        rated_speed=1000,
        power_type=TypePower.PTI_PTO,
        switchboard_id=1,
        eff_curve=EFF,
    )
    pti = PTIPTO("PTI", [machine], 1, 1500.0, 1000, shaft_line_id=1)
    return MechanicalPropulsionSystem("m", [me, prop, pti]), me, prop, pti


def set_inputs(system, pti, load):
    """Everything the docstrings ask for in full-PTI mode; NO PTI/PTO power."""
    n = len(load)
    system.set_status_main_engine_for_name_shaft_line_id("ME1", 1, np.ones(n, dtype=bool))
    system.set_power_consumer_load_by_value_for_given_name_shaft_line_id("P", 1, load)
    system.set_full_pti_mode_for_name_shaft_line_id("PTI", 1, np.ones(n, dtype=bool))
    pti.status = np.ones(n, dtype=bool)


def clauses(me, prop, pti, load, tol):
    bad = []
    residual = me.power_output + pti.power_output - prop.power_input
    if np.any(np.abs(residual) > tol * np.abs(load)):
        bad.append(f"balance residual {residual}")
    if np.any(np.abs(pti.power_output - load) > tol * np.abs(load)):
        bad.append(f"PTI does not carry the load: {pti.power_output}")
    if np.any(me.power_output != 0):
        bad.append(f"engine delivers power in full-PTI mode: {me.power_output}")
    return bad


violations = []
LOAD1 = np.array([800.0])
LOAD3 = np.array([800.0, 500.0, 700.0])

for label, load in (("one step", LOAD1), ("three steps", LOAD3)):
    print(f"MechanicalPropulsionSystem.do_power_balance, {label}, full-PTI on every step:")
    system, me, prop, pti = build_mechanical()
    set_inputs(system, pti, load)
    try:
        system.do_power_balance()
        print("   accepted: ME1", me.power_output, "PTI", pti.power_output)
        violations += [f"system, {label}: {b}" for b in clauses(me, prop, pti, load, 1e-9)]
    except Exception as exc:  # noqa
        print("   refused:", type(exc).__name__, str(exc).replace("\n", " ")[:200])
        violations.append(f"system, {label}: valid input refused ({type(exc).__name__})")

    print(f"ShaftLine.do_power_balance, {label}, full-PTI on every step:")
    system, me, prop, pti = build_mechanical()
    set_inputs(system, pti, load)
    try:
        system.shaft_line[0].do_power_balance()
        print("   accepted: ME1", me.power_output, "PTI", pti.power_output)
        violations += [f"shaft line, {label}: {b}" for b in clauses(me, prop, pti, load, 1e-9)]
    except Exception as exc:  # noqa
        print("   refused:", type(exc).__name__, str(exc).replace("\n", " ")[:200])
        violations.append(f"shaft line, {label}: valid input refused ({type(exc).__name__})")

print("reference: the same shaft line in a HybridPropulsionSystem, three steps, no PTI power:")
mech, me, prop, pti = build_mechanical()
gensets = []
for name in ("G1", "G2"):
    aux = Engine(
        type_=TypeComponent.AUXILIARY_ENGINE,
        name=name + " engine",
        rated_power=2000.0,
        rated_speed=900,
        bsfc_curve=BSFC,
    )
    gen = ElectricMachine(
        type_=TypeComponent.GENERATOR,
        name=name + " gen",
        rated_power=1900.0,
        rated_speed=900,
        power_type=TypePower.POWER_SOURCE,
        switchboard_id=1,
        eff_curve=np.array([0.96]),
    )
    gensets.append(Genset(name, aux, gen))
hotel = ElectricComponent(
    type_=TypeComponent.OTHER_LOAD,
    name="hotel",
    rated_power=1000.0,
    eff_curve=np.array([1.0]),
    power_type=TypePower.POWER_CONSUMER,
    switchboard_id=1,
)
electric = ElectricPowerSystem("e", gensets + [hotel, pti], [])
hybrid = HybridPropulsionSystem("h", electric, mech)
hybrid.set_time_interval(60.0, IntegrationMethod.sum_with_time)
for g in gensets:
    g.status = np.ones(3, dtype=bool)
electric.set_power_input_from_power_output_by_switchboard_id_type_name(
    np.full(3, 300.0), 1, TypePower.POWER_CONSUMER, "hotel"
)
set_inputs(mech, pti, LOAD3)
pti.load_sharing_mode = np.zeros(3)
try:
    hybrid.do_power_balance_calculation()
    print("   accepted: ME1", me.power_output, "PTI", pti.power_output)
    # (the last pass of the hybrid balance is the electric one: known 1e-6..1e-4 drift)
    bad = clauses(me, prop, pti, LOAD3, 1e-4)
    violations += [f"hybrid: {b}" for b in bad]
except Exception as exc:  # noqa
    print("   refused:", type(exc).__name__, str(exc).replace("\n", " ")[:200])

print()
if violations:
    print("PROPERTY VIOLATED:")
    for v in violations:
        print("  -", v)
    sys.exit(1)
print("property holds")
sys.exit(0)
