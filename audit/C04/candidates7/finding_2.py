"""C04 finding 2: a shaft line that carries its gearbox as a component of its own (engine without
built-in gearbox + MechanicalPropulsionComponent(type GEARBOX, power type POWER_TRANSMISSION) +
propeller - the layout the MachSysS test plants use and the one convert_to_feems builds for a
propeller subsystem with a `gear`) cannot be balanced over a series of more than one step.

MechanicalPropulsionSystem lists the gearbox among `mechanical_loads`, so
validate_inputs_before_power_balance_calculation demands that its power_input has the length of
the series - but the shaft line does not count it as a consumer, so no public setter of the system
or of the shaft line reaches it ("name is not found among the power consumer components").
The same plant with a one-step series is accepted and balanced.

Run: PYTHONPATH=<wt>/feems:<wt>/machinery-system-structure:<wt>/RunFEEMSSim python finding_2.py
Exit status 1 = property violated (valid input refused), 0 = property holds.
"""
import logging
import sys

import numpy as np

logging.disable(logging.CRITICAL)

from feems.components_model.component_mechanical import (
    Engine,
    MainEngineForMechanicalPropulsion,
    MechanicalPropulsionComponent,
)
from feems.system_model import MechanicalPropulsionSystem
from feems.types_for_feems import TypeComponent, TypePower

BSFC = np.array([[0.25, 210.0], [0.5, 195.0], [0.75, 190.0], [1.0, 198.0]])


def build():
    comps = []
    for name, rated in (("ME1", 2000.0), ("ME2", 1000.0)):
        engine = Engine(
            type_=TypeComponent.MAIN_ENGINE,
            name=name + " engine",
            rated_power=rated,
            rated_speed=750,
            bsfc_curve=BSFC,
        )
        comps.append(MainEngineForMechanicalPropulsion(name, engine, shaft_line_id=1))
    comps.append(
        MechanicalPropulsionComponent(
            type_=TypeComponent.GEARBOX,
            power_type=TypePower.POWER_TRANSMISSION,
            name="Gear 1",
            rated_power=3000.0,
            eff_curve=np.array([0.98]),
            shaft_line_id=1,
        )
    )
    comps.append(
        MechanicalPropulsionComponent(
            type_=TypeComponent.PROPELLER_LOAD,
            power_type=TypePower.POWER_CONSUMER,
            name="P",
            rated_power=3000.0,
            eff_curve=np.array([1.0]),
            shaft_line_id=1,
        )
    )
    return MechanicalPropulsionSystem("m", comps), comps


def check(system, comps, load, status1, status2):
    """Returns a list of violated clauses (empty = property holds)."""
    me1, me2, _, prop = comps
    system.set_status_main_engine_for_name_shaft_line_id("ME1", 1, status1)
    system.set_status_main_engine_for_name_shaft_line_id("ME2", 1, status2)
    system.set_power_consumer_load_by_value_for_given_name_shaft_line_id("P", 1, load)
    system.do_power_balance()
    bad = []
    residual = me1.power_output + me2.power_output - prop.power_input
    if np.any(np.abs(residual) > 1e-9 * np.maximum(1, np.abs(load))):
        bad.append(f"balance residual {residual}")
    both = status1 & status2
    if np.any(np.abs(me1.power_output / 2000.0 - me2.power_output / 1000.0)[both] > 1e-12):
        bad.append("unequal loading")
    if np.any(me1.power_output[~status1] != 0) or np.any(me2.power_output[~status2] != 0):
        bad.append("stopped engine delivers power")
    print("   ME1", me1.power_output, "ME2", me2.power_output, "residual", residual)
    return bad


violations = []

print("one step (load 900 kW, both engines on):")
system, comps = build()
try:
    bad = check(system, comps, np.array([900.0]), np.array([True]), np.array([True]))
    violations += [f"one step: {b}" for b in bad]
except Exception as exc:  # noqa
    print("   refused:", type(exc).__name__, str(exc)[:200])
    violations.append("one step refused")

print("three steps (load [900, 600, 1500] kW, ME2 stopped on the second step):")
system, comps = build()
try:
    bad = check(
        system,
        comps,
        np.array([900.0, 600.0, 1500.0]),
        np.array([True, True, True]),
        np.array([True, False, True]),
    )
    violations += [f"three steps: {b}" for b in bad]
except Exception as exc:  # noqa
    print("   refused:", type(exc).__name__, str(exc).replace("\n", " ")[:260])
    violations.append(f"three steps: valid input refused ({type(exc).__name__})")

print("is there a public setter that could size the gearbox series?")
system, comps = build()
try:
    system.set_power_consumer_load_by_value_for_given_name_shaft_line_id(
        "Gear 1", 1, np.zeros(3)
    )
    print("   system setter accepted the gearbox")
except Exception as exc:  # noqa
    print("   system setter:", type(exc).__name__, str(exc)[:120])
try:
    system.shaft_line[0].set_power_input_load_by_name("Gear 1", np.zeros(3))
    print("   shaft-line setter accepted the gearbox")
except Exception as exc:  # noqa
    print("   shaft-line setter:", type(exc).__name__, str(exc)[:120])

print("same plant after a protobuf round trip (convert_to_protobuf -> convert_to_feems):")
try:
    from MachSysS.convert_to_protobuf import convert_mechanical_system_to_protobuf
    from MachSysS.convert_to_feems import convert_proto_mechanical_system_to_feems

    system, comps = build()
    system_back = convert_proto_mechanical_system_to_feems(
        convert_mechanical_system_to_protobuf(system)
    )
    print("   mechanical loads read back:", [c.name for c in system_back.mechanical_loads])
    n = 3
    for me in system_back.main_engines:
        system_back.set_status_main_engine_for_name_shaft_line_id(me.name, 1, np.ones(n, bool))
    system_back.set_power_consumer_load_by_value_for_given_name_shaft_line_id(
        "P", 1, np.array([900.0, 600.0, 1500.0])
    )
    try:
        system_back.do_power_balance()
        print("   accepted")
    except Exception as exc:  # noqa
        print("   refused:", type(exc).__name__, str(exc).replace("\n", " ")[:200])
        violations.append("round-tripped plant, three steps: valid input refused")
except ImportError as exc:
    print("   (MachSysS not importable, skipped):", exc)

print()
if violations:
    print("PROPERTY VIOLATED:")
    for v in violations:
        print("  -", v)
    sys.exit(1)
print("property holds")
sys.exit(0)
