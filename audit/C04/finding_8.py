"""C04 finding 2 - hybrid / combined plant: a constant PTI/PTO power given as ONE value together with
a load-sharing-mode SERIES (all 1 = 'power is given') passes the input validation and then makes the
power balance fail with a numpy ValueError, so no shaft balance is produced at all.  The same input
with the constant written out as a series is balanced correctly.

Run:  PYTHONPATH=<wt>/feems:<wt>/machinery-system-structure:<wt>/RunFEEMSSim /venv/bin/python finding_2.py
Exit status 1 = property violated / valid input refused (current code), 0 = holds.
"""
import logging
import sys
import traceback
import warnings

import numpy as np

from feems.components_model.component_electric import (
    ElectricComponent,
    ElectricMachine,
    Genset,
    PTIPTO,
)
from feems.components_model.component_mechanical import (
    Engine,
    MainEngineForMechanicalPropulsion,
    MechanicalPropulsionComponent,
)
from feems.components_model.utility import IntegrationMethod
from feems.system_model import (
    ElectricPowerSystem,
    HybridPropulsionSystem,
    MechanicalPropulsionSystem,
    MechanicalPropulsionSystemWithElectricPowerSystem,
)
from feems.types_for_feems import TypeComponent, TypePower

warnings.filterwarnings("ignore")
logging.disable(logging.CRITICAL)

BSFC = np.array([[1.00, 0.75, 0.50, 0.25, 0.10], [193.66, 188.995, 194.47, 211.4, 250]]).T
N = 4
LOAD = np.array([3000.0, 2500.0, 1000.0, 500.0])
PTO_SHAFT_KW = -300.0


def build(system_class):
    machine = ElectricMachine(
        type_=TypeComponent.SYNCHRONOUS_MACHINE,
        power_type=TypePower.PTI_PTO,
        name="shaft machine",
        rated_power=2000,
        rated_speed=900,
        eff_curve=np.array([0.95]),
    )
    converter = ElectricComponent(
        type_=TypeComponent.INVERTER,
        power_type=TypePower.POWER_TRANSMISSION,
        name="converter",
        rated_power=2000,
        eff_curve=np.array([0.98]),
    )
    pti_pto = PTIPTO(
        name="PTI/PTO",
        components=[converter, machine],
        switchboard_id=1,
        rated_power=2000,
        rated_speed=900,
        shaft_line_id=1,
    )
    engines = [
        MainEngineForMechanicalPropulsion(
            f"main engine {i}",
            Engine(
                type_=TypeComponent.MAIN_ENGINE,
                name=f"engine {i}",
                rated_power=rated,
                rated_speed=750,
                bsfc_curve=BSFC,
            ),
            shaft_line_id=1,
        )
        for i, rated in enumerate([4000.0, 2000.0], start=1)
    ]
    propeller = MechanicalPropulsionComponent(
        type_=TypeComponent.PROPELLER_LOAD,
        power_type=TypePower.POWER_CONSUMER,
        name="propeller",
        rated_power=6000,
        rated_speed=150,
        eff_curve=np.array([1.0]),
        shaft_line_id=1,
    )
    mechanical = MechanicalPropulsionSystem("mech", [*engines, pti_pto, propeller])
    genset = Genset(
        "genset",
        Engine(
            type_=TypeComponent.AUXILIARY_ENGINE,
            name="aux engine",
            rated_power=3200,
            rated_speed=900,
            bsfc_curve=BSFC,
        ),
        ElectricMachine(
            type_=TypeComponent.GENERATOR,
            name="generator",
            rated_power=3000,
            rated_speed=900,
            power_type=TypePower.POWER_SOURCE,
            switchboard_id=1,
            eff_curve=np.array([0.96]),
        ),
    )
    hotel = ElectricComponent(
        type_=TypeComponent.OTHER_LOAD,
        name="hotel",
        rated_power=1000,
        power_type=TypePower.POWER_CONSUMER,
        switchboard_id=1,
        eff_curve=np.array([1.0]),
    )
    electric = ElectricPowerSystem("el", [genset, hotel, pti_pto], bus_tie_connections=[])
    system = system_class("plant", electric, mechanical)
    system.set_time_interval(1.0, IntegrationMethod.sum_with_time)
    return system, mechanical, pti_pto, engines, genset, hotel


def run(system_class, pto_as_single_value: bool):
    system, mechanical, pti_pto, engines, genset, hotel = build(system_class)
    mechanical.set_power_consumer_load_by_value_for_given_name_shaft_line_id(
        "propeller", 1, LOAD.copy()
    )
    hotel.set_power_output_from_input(np.full(N, 500.0))
    genset.status = np.ones(N, dtype=bool)
    engines[0].status = np.array([True, True, False, True])  # one engine stopped at step 2
    engines[1].status = np.ones(N, dtype=bool)
    pti_pto.status = np.ones(N, dtype=bool)
    pti_pto.full_pti_mode = np.zeros(N, dtype=bool)
    pti_pto.load_sharing_mode = np.ones(N)  # the power of the PTI/PTO is given at every step
    given = np.array([PTO_SHAFT_KW]) if pto_as_single_value else np.full(N, PTO_SHAFT_KW)
    mechanical.set_power_input_pti_pto_by_power_output_value_for_name_shaft_line_id(
        "PTI/PTO", 1, given
    )
    system.do_power_balance_calculation()
    engine_power = np.array([np.broadcast_to(e.power_output, (N,)) for e in engines])
    pti_power = np.broadcast_to(np.asarray(pti_pto.power_output, dtype=float), (N,))
    return engine_power, pti_power


def check(engine_power, pti_power) -> bool:
    status = np.array([[True, True, False, True], [True] * N])
    rated = np.array([4000.0, 2000.0])
    ok = np.allclose(engine_power.sum(axis=0) + pti_power, LOAD, rtol=1e-4, atol=0.5)
    ok &= bool(np.all(engine_power[~status] == 0))
    fraction = engine_power / rated[:, None]
    for k in range(N):
        running = fraction[status[:, k], k]
        ok &= bool(np.ptp(running) < 1e-9)
    ok &= np.allclose(pti_power, PTO_SHAFT_KW, atol=0.5)
    return bool(ok)


def main() -> int:
    violated = False
    for system_class in (
        HybridPropulsionSystem,
        MechanicalPropulsionSystemWithElectricPowerSystem,
    ):
        print(f"== {system_class.__name__}")
        engine_power, pti_power = run(system_class, pto_as_single_value=False)
        print("  constant PTO power as a series : engines", engine_power.round(1).tolist(),
              "PTI/PTO", pti_power.round(1), "-> property holds:", check(engine_power, pti_power))
        try:
            engine_power, pti_power = run(system_class, pto_as_single_value=True)
        except Exception as error:  # noqa
            print("  constant PTO power as ONE value : REFUSED with",
                  type(error).__name__ + ":", str(error))
            print("   ", traceback.format_exc().strip().splitlines()[-3].strip())
            violated = True
        else:
            holds = check(engine_power, pti_power)
            print("  constant PTO power as ONE value : engines", engine_power.round(1).tolist(),
                  "PTI/PTO", pti_power.round(1), "-> property holds:", holds)
            violated |= not holds
    print("\nRESULT:", "valid input refused / property cannot be established" if violated
          else "property holds")
    return 1 if violated else 0


if __name__ == "__main__":
    sys.exit(main())
