"""C04 finding 5: a mechanical system with zero shaft lines cannot be balanced (KeyError from the
input validation), although the result method of the same class handles that case."""
import logging
import sys

import numpy as np

logging.disable(logging.CRITICAL)
from feems.components_model.component_base import BasicComponent
from feems.components_model.component_electric import ElectricComponent, ElectricMachine, PTIPTO
from feems.components_model.component_mechanical import (
    Engine,
    MainEngineForMechanicalPropulsion,
    MainEngineWithGearBoxForMechanicalPropulsion,
    MechanicalPropulsionComponent,
)
from feems.components_model.utility import IntegrationMethod
from feems.system_model import MechanicalPropulsionSystem
from feems.types_for_feems import NOxCalculationMethod, TypeComponent, TypePower

BSFC = np.array([[1.00, 0.75, 0.50, 0.25, 0.10], [193.66, 188.995, 194.47, 211.4, 250]]).T


def main_engine(name, rated_power, shaft_line_id=1, gearbox_efficiency=None):
    engine = Engine(
        type_=TypeComponent.MAIN_ENGINE,
        name=name + " engine",
        rated_power=rated_power,
        rated_speed=750,
        bsfc_curve=BSFC,
        nox_calculation_method=NOxCalculationMethod.TIER_2,
    )
    if gearbox_efficiency is None:
        return MainEngineForMechanicalPropulsion(name, engine, shaft_line_id=shaft_line_id)
    gearbox = BasicComponent(
        type_=TypeComponent.GEARBOX,
        name=name + " gearbox",
        power_type=TypePower.POWER_TRANSMISSION,
        rated_power=rated_power,
        rated_speed=750,
        eff_curve=np.array([gearbox_efficiency]),
    )
    return MainEngineWithGearBoxForMechanicalPropulsion(
        name, engine, gearbox, shaft_line_id=shaft_line_id
    )


def pti_pto(name="PTI/PTO", rated_power=1500.0, shaft_line_id=1):
    machine = ElectricMachine(
        type_=TypeComponent.SYNCHRONOUS_MACHINE,
        power_type=TypePower.PTI_PTO,
        name=name + " machine",
        rated_power=rated_power,
        rated_speed=900,
        eff_curve=np.array([[0.25, 0.5, 0.75, 1.0], [0.90, 0.94, 0.96, 0.95]]).T,
    )
    converter = ElectricComponent(
        type_=TypeComponent.INVERTER,
        power_type=TypePower.POWER_TRANSMISSION,
        name=name + " converter",
        rated_power=rated_power,
        eff_curve=np.array([0.98]),
    )
    return PTIPTO(
        name=name,
        components=[converter, machine],
        switchboard_id=1,
        rated_power=rated_power,
        rated_speed=900,
        shaft_line_id=shaft_line_id,
    )


def propeller(name="propeller", rated_power=5000.0, shaft_line_id=1):
    return MechanicalPropulsionComponent(
        type_=TypeComponent.PROPELLER_LOAD,
        power_type=TypePower.POWER_CONSUMER,
        name=name,
        rated_power=rated_power,
        rated_speed=150,
        eff_curve=np.array([1.0]),
        shaft_line_id=shaft_line_id,
    )


# "For all numbers of shaft lines": a mechanical system without any shaft line (e.g. the empty
# mechanical part of a plant description). get_fuel_energy_consumption_running_time handles it
# (warning, empty result); the power balance should have nothing to do.
system = MechanicalPropulsionSystem("no shaft line", [])
print("number of shaft lines:", system.no_shaft_lines)
violated = False
try:
    system.do_power_balance()
    print("balance done (nothing to balance)")
except Exception as error:  # noqa
    print(f"do_power_balance fails with {type(error).__name__}: {error}")
    violated = True
system.set_time_interval(60.0, integration_method=IntegrationMethod.sum_with_time)
result = system.get_fuel_energy_consumption_running_time()
print("result of the empty system: duration", result.duration_s, "s")
print("PROPERTY VIOLATED (valid input refused)" if violated else "property holds")
sys.exit(1 if violated else 0)
