"""C04 finding 1: the shaft balance overwrites the PTI/PTO shaft power the caller gave at the
full-PTI steps; a later balance on the same plant with the full-PTI flag cleared (engine status
given again, as is known to be needed) still lets the PTI carry the whole OLD shaft load and the
running engines deliver nothing, although the line is no longer in full-PTI mode."""
import logging
import sys

import numpy as np

logging.disable(logging.CRITICAL)
from feems.components_model.component_electric import ElectricComponent, ElectricMachine, PTIPTO
from feems.components_model.component_mechanical import (
    Engine,
    MainEngineForMechanicalPropulsion,
    MechanicalPropulsionComponent,
)
from feems.system_model import MechanicalPropulsionSystem
from feems.types_for_feems import NOxCalculationMethod, TypeComponent, TypePower

BSFC = np.array([[1.00, 0.75, 0.50, 0.25, 0.10], [193.66, 188.995, 194.47, 211.4, 250]]).T


def plant():
    engines = [
        MainEngineForMechanicalPropulsion(
            name,
            Engine(
                type_=TypeComponent.MAIN_ENGINE,
                name=name + " engine",
                rated_power=rated,
                rated_speed=750,
                bsfc_curve=BSFC,
                nox_calculation_method=NOxCalculationMethod.TIER_2,
            ),
            shaft_line_id=1,
        )
        for name, rated in (("main engine 1", 2000.0), ("main engine 2", 1000.0))
    ]
    machine = ElectricMachine(
        type_=TypeComponent.SYNCHRONOUS_MACHINE,
        power_type=TypePower.PTI_PTO,
        name="shaft machine",
        rated_power=1500.0,
        rated_speed=900,
        eff_curve=np.array([[0.25, 0.5, 0.75, 1.0], [0.90, 0.94, 0.96, 0.95]]).T,
    )
    converter = ElectricComponent(
        type_=TypeComponent.INVERTER,
        power_type=TypePower.POWER_TRANSMISSION,
        name="converter",
        rated_power=1500.0,
        eff_curve=np.array([0.98]),
    )
    pti_pto = PTIPTO(
        name="PTI/PTO",
        components=[converter, machine],
        switchboard_id=1,
        rated_power=1500.0,
        rated_speed=900,
        shaft_line_id=1,
    )
    propeller = MechanicalPropulsionComponent(
        type_=TypeComponent.PROPELLER_LOAD,
        power_type=TypePower.POWER_CONSUMER,
        name="propeller",
        rated_power=5000.0,
        rated_speed=150,
        eff_curve=np.array([1.0]),
        shaft_line_id=1,
    )
    return MechanicalPropulsionSystem("shaft", engines + [pti_pto, propeller])


def give_inputs(system, load, power_pti_pto, full_pti):
    n = len(load)
    system.set_power_consumer_load_by_value_for_given_name_shaft_line_id("propeller", 1, load)
    if power_pti_pto is not None:
        system.set_power_input_pti_pto_by_power_output_value_for_name_shaft_line_id(
            "PTI/PTO", 1, power_pti_pto
        )
    system.set_full_pti_mode_for_name_shaft_line_id("PTI/PTO", 1, full_pti)
    system.pti_ptos[0].status = np.ones(n, dtype=bool)
    for engine in system.main_engines:
        system.set_status_main_engine_for_name_shaft_line_id(
            engine.name, 1, np.ones(n, dtype=bool)
        )


load = np.array([1000.0, 1200.0, 900.0])
power_pti_pto = np.array([300.0, -200.0, 100.0])  # shaft power, PTI (+) and PTO (-)
full_first = np.array([True, False, False])
full_second = np.array([False, False, False])

# Plant A: balanced in full-PTI mode at step 0, then once more with the flag cleared. Load, flag
# and engine status are given again; the PTI/PTO power series was given once and not changed.
plant_a = plant()
give_inputs(plant_a, load, power_pti_pto, full_first)
plant_a.do_power_balance()
give_inputs(plant_a, load, None, full_second)
plant_a.do_power_balance()

# Plant B: a fresh plant with the same inputs as the second calculation of plant A
plant_b = plant()
give_inputs(plant_b, load, power_pti_pto, full_second)
plant_b.do_power_balance()

violated = False
for label, system in (("same plant, second balance", plant_a), ("fresh plant", plant_b)):
    pti = np.asarray(system.pti_ptos[0].power_output, dtype=float)
    engines = sum(np.asarray(e.power_output, dtype=float) for e in system.main_engines)
    print(f"{label}: PTI/PTO shaft power {pti}, sum of engines {engines}")
    # No step is in full-PTI mode: the PTI/PTO delivers the power it was given and the running
    # engines deliver the rest of the load
    if not np.allclose(pti, power_pti_pto, atol=1e-6):
        print("  -> the PTI/PTO does not deliver the shaft power it was given:", power_pti_pto)
        violated = True
    if not np.allclose(engines, load - power_pti_pto, atol=1e-6):
        print("  -> the engines do not deliver load - given PTI/PTO power:", load - power_pti_pto)
        violated = True
    if np.any((engines == 0) & (load - power_pti_pto != 0)):
        print("  -> running engines deliver nothing on a step that is NOT in full-PTI mode")
        violated = True

print("PROPERTY VIOLATED" if violated else "property holds")
sys.exit(1 if violated else 0)
