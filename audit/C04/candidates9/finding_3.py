"""C04 finding 3: engines with and without gearbox on one shaft line are not loaded to the same
fraction of their rated power: the balance shares the load in proportion to the ENGINE rated power
but hands each geared engine its share as power behind the gearbox, so the engine itself runs at
share / gearbox efficiency (FEEMS own run point says so), above 100 % at full line load."""
import logging
import sys

import numpy as np

logging.disable(logging.CRITICAL)
from feems.components_model.component_base import BasicComponent
from feems.components_model.component_electric import ElectricComponent, ElectricMachine, PTIPTO
from feems.components_model.component_mechanical import (
    Engine,
    MainEngineForMechanicalPropulsion,
    MainEngineWithGearBoxForMechanicalPropulsion,
    MechanicalPropulsionComponent,
)
from feems.system_model import MechanicalPropulsionSystem
from feems.types_for_feems import NOxCalculationMethod, TypeComponent, TypePower

BSFC = np.array([[1.00, 0.75, 0.50, 0.25, 0.10], [193.66, 188.995, 194.47, 211.4, 250]]).T


def main_engine(name, rated_power, shaft_line_id=1, gearbox_efficiency=None):
    engine = Engine(
        type_=TypeComponent.MAIN_ENGINE,
        name=name + " engine",
        rated_power=rated_power,
        rated_speed=750,
        bsfc_curve=BSFC,
        nox_calculation_method=NOxCalculationMethod.TIER_2,
    )
    if gearbox_efficiency is None:
        return MainEngineForMechanicalPropulsion(name, engine, shaft_line_id=shaft_line_id)
    gearbox = BasicComponent(
        type_=TypeComponent.GEARBOX,
        name=name + " gearbox",
        power_type=TypePower.POWER_TRANSMISSION,
        rated_power=rated_power,
        rated_speed=750,
        eff_curve=np.array([gearbox_efficiency]),
    )
    return MainEngineWithGearBoxForMechanicalPropulsion(
        name, engine, gearbox, shaft_line_id=shaft_line_id
    )


def pti_pto(name="PTI/PTO", rated_power=1500.0, shaft_line_id=1):
    machine = ElectricMachine(
        type_=TypeComponent.SYNCHRONOUS_MACHINE,
        power_type=TypePower.PTI_PTO,
        name=name + " machine",
        rated_power=rated_power,
        rated_speed=900,
        eff_curve=np.array([[0.25, 0.5, 0.75, 1.0], [0.90, 0.94, 0.96, 0.95]]).T,
    )
    converter = ElectricComponent(
        type_=TypeComponent.INVERTER,
        power_type=TypePower.POWER_TRANSMISSION,
        name=name + " converter",
        rated_power=rated_power,
        eff_curve=np.array([0.98]),
    )
    return PTIPTO(
        name=name,
        components=[converter, machine],
        switchboard_id=1,
        rated_power=rated_power,
        rated_speed=900,
        shaft_line_id=shaft_line_id,
    )


def propeller(name="propeller", rated_power=5000.0, shaft_line_id=1):
    return MechanicalPropulsionComponent(
        type_=TypeComponent.PROPELLER_LOAD,
        power_type=TypePower.POWER_CONSUMER,
        name=name,
        rated_power=rated_power,
        rated_speed=150,
        eff_curve=np.array([1.0]),
        shaft_line_id=shaft_line_id,
    )


# One shaft line, two engines of the same rating: one drives the shaft directly, the other through
# a gearbox with 95 % efficiency. No PTI/PTO. Three steps; at the last one the line is fully loaded.
load = np.array([2000.0, 3000.0, 4000.0])
n = len(load)
direct = main_engine("direct engine", 2000.0)
geared = main_engine("geared engine", 2000.0, gearbox_efficiency=0.95)
system = MechanicalPropulsionSystem("shaft", [direct, geared, propeller(rated_power=4000.0)])
system.set_power_consumer_load_by_value_for_given_name_shaft_line_id("propeller", 1, load)
for engine in system.main_engines:
    system.set_status_main_engine_for_name_shaft_line_id(engine.name, 1, np.ones(n, dtype=bool))
system.do_power_balance()

violated = False
delivered = sum(np.asarray(e.power_output, dtype=float) for e in system.main_engines)
print("delivered to the shaft:", delivered, "load:", load)
if not np.allclose(delivered, load):
    violated = True
fractions = {}
for engine in system.main_engines:
    run_point = engine.get_engine_run_point_from_power_out_kw()  # FEEMS' own engine load
    fractions[engine.name] = np.asarray(run_point.load_ratio, dtype=float)
    print(
        f"{engine.name}: shaft power {engine.power_output}, engine power "
        f"{engine.engine.power_output}, engine load (run point) {fractions[engine.name]}, "
        f"engine rated power {engine.engine.rated_power}"
    )
difference = np.abs(fractions["direct engine"] - fractions["geared engine"])
if np.any(difference > 1e-9):
    print("-> the two running engines are NOT loaded to the same fraction of their rated power:")
    print("   difference of the load fractions", difference)
    violated = True
if np.any(fractions["geared engine"] > 1 + 1e-9):
    print("-> the geared engine is loaded above its rated power while the line is at 100 %")

print("PROPERTY VIOLATED" if violated else "property holds")
sys.exit(1 if violated else 0)
