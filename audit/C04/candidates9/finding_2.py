"""C04 finding 2: full-PTI mode on every step of a series, PTI/PTO power not given (it is the
result of the balance): MechanicalPropulsionSystem.do_power_balance and ShaftLine.do_power_balance
refuse the plant, although their docstrings say the PTI/PTO power need not be set in full-PTI
mode and HybridPropulsionSystem accepts the same input."""
import logging
import sys

import numpy as np

logging.disable(logging.CRITICAL)
from feems.components_model.component_base import BasicComponent
from feems.components_model.component_electric import ElectricComponent, ElectricMachine, PTIPTO
from feems.components_model.component_mechanical import (
    Engine,
    MainEngineForMechanicalPropulsion,
    MainEngineWithGearBoxForMechanicalPropulsion,
    MechanicalPropulsionComponent,
)
from feems.system_model import MechanicalPropulsionSystem
from feems.types_for_feems import NOxCalculationMethod, TypeComponent, TypePower

BSFC = np.array([[1.00, 0.75, 0.50, 0.25, 0.10], [193.66, 188.995, 194.47, 211.4, 250]]).T


def main_engine(name, rated_power, shaft_line_id=1, gearbox_efficiency=None):
    engine = Engine(
        type_=TypeComponent.MAIN_ENGINE,
        name=name + " engine",
        rated_power=rated_power,
        rated_speed=750,
        bsfc_curve=BSFC,
        nox_calculation_method=NOxCalculationMethod.TIER_2,
    )
    if gearbox_efficiency is None:
        return MainEngineForMechanicalPropulsion(name, engine, shaft_line_id=shaft_line_id)
    gearbox = BasicComponent(
        type_=TypeComponent.GEARBOX,
        name=name + " gearbox",
        power_type=TypePower.POWER_TRANSMISSION,
        rated_power=rated_power,
        rated_speed=750,
        eff_curve=np.array([gearbox_efficiency]),
    )
    return MainEngineWithGearBoxForMechanicalPropulsion(
        name, engine, gearbox, shaft_line_id=shaft_line_id
    )


def pti_pto(name="PTI/PTO", rated_power=1500.0, shaft_line_id=1):
    machine = ElectricMachine(
        type_=TypeComponent.SYNCHRONOUS_MACHINE,
        power_type=TypePower.PTI_PTO,
        name=name + " machine",
        rated_power=rated_power,
        rated_speed=900,
        eff_curve=np.array([[0.25, 0.5, 0.75, 1.0], [0.90, 0.94, 0.96, 0.95]]).T,
    )
    converter = ElectricComponent(
        type_=TypeComponent.INVERTER,
        power_type=TypePower.POWER_TRANSMISSION,
        name=name + " converter",
        rated_power=rated_power,
        eff_curve=np.array([0.98]),
    )
    return PTIPTO(
        name=name,
        components=[converter, machine],
        switchboard_id=1,
        rated_power=rated_power,
        rated_speed=900,
        shaft_line_id=shaft_line_id,
    )


def propeller(name="propeller", rated_power=5000.0, shaft_line_id=1):
    return MechanicalPropulsionComponent(
        type_=TypeComponent.PROPELLER_LOAD,
        power_type=TypePower.POWER_CONSUMER,
        name=name,
        rated_power=rated_power,
        rated_speed=150,
        eff_curve=np.array([1.0]),
        shaft_line_id=shaft_line_id,
    )


n = 3
load = np.array([100.0, 200.0, 300.0])
system = MechanicalPropulsionSystem(
    "shaft", [main_engine("main engine 1", 2000.0), pti_pto(), propeller()]
)
system.set_power_consumer_load_by_value_for_given_name_shaft_line_id("propeller", 1, load)
# Full-PTI mode on every step: the PTI/PTO power is a RESULT of the shaft balance (docstring of
# ShaftLine.do_power_balance: "Power input or output of PTI/PTO set except full PTI mode"), so
# no PTI/PTO power series is given.
system.set_full_pti_mode_for_name_shaft_line_id("PTI/PTO", 1, np.ones(n, dtype=bool))
system.pti_ptos[0].status = np.ones(n, dtype=bool)
system.set_status_main_engine_for_name_shaft_line_id("main engine 1", 1, np.ones(n, dtype=bool))

violated = False
try:
    system.do_power_balance()
except Exception as error:  # noqa
    print("MechanicalPropulsionSystem.do_power_balance refuses the input:")
    print("   ", type(error).__name__, str(error).replace("\n", " | ")[:300])
    violated = True
else:
    pti = np.asarray(system.pti_ptos[0].power_output, dtype=float)
    engines = np.asarray(system.main_engines[0].power_output, dtype=float)
    print("PTI/PTO shaft power", pti, "engine", engines)
    violated = not (np.allclose(pti, load) and np.all(engines == 0))

# The same through the shaft line itself (no validator in between)
try:
    system.shaft_line[0].do_power_balance()
except Exception as error:  # noqa
    print("ShaftLine.do_power_balance refuses the input:")
    print("   ", type(error).__name__, str(error)[:300])
    violated = True

print(
    "PROPERTY VIOLATED (a full-PTI series inside the domain is refused)"
    if violated
    else "property holds"
)
sys.exit(1 if violated else 0)
