"""C04 finding 4: a one-step shaft balance whose load or PTI/PTO power is stated as a number
(python float, numpy float, 0-d array) through the setters of MechanicalPropulsionSystem is
refused with AttributeError / IndexError; the setters of ShaftLine and the electric side take
numbers."""
import logging
import sys

import numpy as np

logging.disable(logging.CRITICAL)
from feems.components_model.component_base import BasicComponent
from feems.components_model.component_electric import ElectricComponent, ElectricMachine, PTIPTO
from feems.components_model.component_mechanical import (
    Engine,
    MainEngineForMechanicalPropulsion,
    MainEngineWithGearBoxForMechanicalPropulsion,
    MechanicalPropulsionComponent,
)
from feems.system_model import MechanicalPropulsionSystem
from feems.types_for_feems import NOxCalculationMethod, TypeComponent, TypePower

BSFC = np.array([[1.00, 0.75, 0.50, 0.25, 0.10], [193.66, 188.995, 194.47, 211.4, 250]]).T


def main_engine(name, rated_power, shaft_line_id=1, gearbox_efficiency=None):
    engine = Engine(
        type_=TypeComponent.MAIN_ENGINE,
        name=name + " engine",
        rated_power=rated_power,
        rated_speed=750,
        bsfc_curve=BSFC,
        nox_calculation_method=NOxCalculationMethod.TIER_2,
    )
    if gearbox_efficiency is None:
        return MainEngineForMechanicalPropulsion(name, engine, shaft_line_id=shaft_line_id)
    gearbox = BasicComponent(
        type_=TypeComponent.GEARBOX,
        name=name + " gearbox",
        power_type=TypePower.POWER_TRANSMISSION,
        rated_power=rated_power,
        rated_speed=750,
        eff_curve=np.array([gearbox_efficiency]),
    )
    return MainEngineWithGearBoxForMechanicalPropulsion(
        name, engine, gearbox, shaft_line_id=shaft_line_id
    )


def pti_pto(name="PTI/PTO", rated_power=1500.0, shaft_line_id=1):
    machine = ElectricMachine(
        type_=TypeComponent.SYNCHRONOUS_MACHINE,
        power_type=TypePower.PTI_PTO,
        name=name + " machine",
        rated_power=rated_power,
        rated_speed=900,
        eff_curve=np.array([[0.25, 0.5, 0.75, 1.0], [0.90, 0.94, 0.96, 0.95]]).T,
    )
    converter = ElectricComponent(
        type_=TypeComponent.INVERTER,
        power_type=TypePower.POWER_TRANSMISSION,
        name=name + " converter",
        rated_power=rated_power,
        eff_curve=np.array([0.98]),
    )
    return PTIPTO(
        name=name,
        components=[converter, machine],
        switchboard_id=1,
        rated_power=rated_power,
        rated_speed=900,
        shaft_line_id=shaft_line_id,
    )


def propeller(name="propeller", rated_power=5000.0, shaft_line_id=1):
    return MechanicalPropulsionComponent(
        type_=TypeComponent.PROPELLER_LOAD,
        power_type=TypePower.POWER_CONSUMER,
        name=name,
        rated_power=rated_power,
        rated_speed=150,
        eff_curve=np.array([1.0]),
        shaft_line_id=shaft_line_id,
    )


# A one-step calculation (one operating point): load 1000 kW, PTI 200 kW, stated as numbers. The
# setters pass them on to BasicComponent.set_power_input_from_output / set_power_output_from_input
# ("float or np.ndarray"); the ShaftLine setters and the electric side accept numbers.
def plant():
    return MechanicalPropulsionSystem(
        "shaft",
        [
            main_engine("main engine 1", 2000.0),
            main_engine("main engine 2", 1000.0, gearbox_efficiency=0.98),
            pti_pto(),
            propeller(),
        ],
    )


violated = False
cases = [
    ("load and PTI power as python floats", 1000.0, 200.0),
    ("load as array([1000.]), PTI power as python float", np.array([1000.0]), 200.0),
    ("load as array([1000.]), PTI power as numpy float", np.array([1000.0]), np.float64(200.0)),
    ("load as array([1000.]), PTO power as 0-d array", np.array([1000.0]), np.array(-200.0)),
]
for label, load, power in cases:
    system = plant()
    system.set_power_consumer_load_by_value_for_given_name_shaft_line_id("propeller", 1, load)
    system.set_power_input_pti_pto_by_power_output_value_for_name_shaft_line_id(
        "PTI/PTO", 1, power
    )
    try:
        system.do_power_balance()
    except Exception as error:  # noqa
        print(f"{label}: refused with {type(error).__name__}: {str(error)[:120]}")
        violated = True
        continue
    engines = sum(np.asarray(e.power_output, dtype=float) for e in system.main_engines)
    pti = np.asarray(system.pti_ptos[0].power_output, dtype=float)
    ok = np.allclose(engines + pti, load)
    print(f"{label}: engines {engines} + PTI/PTO {pti} = load {load}: {ok}")
    violated |= not ok

# Reference: the same numbers through the setters of the shaft line are balanced
system = plant()
line = system.shaft_line[0]
line.set_power_input_load_by_name("propeller", 1000.0)
line.set_power_output_pti_pto(200.0)
system.do_power_balance()
print(
    "through the ShaftLine setters:",
    [e.power_output for e in system.main_engines],
    system.pti_ptos[0].power_output,
)

print("PROPERTY VIOLATED (a valid one-step input is refused)" if violated else "property holds")
sys.exit(1 if violated else 0)
