"""C04 finding 1: the shaft balance overwrites the engine status series it was given, so the
next balance on the same objects (new loads / new PTI power / cleared full-PTI flags) leaves
running engines at zero and the shaft line unbalanced.

Run: PYTHONPATH=<wt>/feems:<wt>/machinery-system-structure:<wt>/RunFEEMSSim python finding_1.py
Exit status 1 = property violated, 0 = property holds.
"""
import logging
import sys

import numpy as np

logging.disable(logging.CRITICAL)

from feems.components_model.component_electric import ElectricComponent, ElectricMachine, PTIPTO
from feems.components_model.component_mechanical import (
    Engine,
    MainEngineForMechanicalPropulsion,
    MechanicalPropulsionComponent,
)
from feems.system_model import MechanicalPropulsionSystem
from feems.types_for_feems import TypeComponent, TypePower

BSFC = np.array([[0.25, 210.0], [0.5, 195.0], [0.75, 190.0], [1.0, 198.0]])
EFF = np.array([[0.25, 0.92], [0.5, 0.95], [0.75, 0.96], [1.0, 0.955]])


def main_engine(name, rated_kw, line):
    engine = Engine(
        type_=TypeComponent.MAIN_ENGINE,
        name=name + " engine",
        rated_power=rated_kw,
        rated_speed=750,
        bsfc_curve=BSFC,
    )
    return MainEngineForMechanicalPropulsion(name, engine, shaft_line_id=line)


def propeller(name, rated_kw, line):
    return MechanicalPropulsionComponent(
        type_=TypeComponent.PROPELLER_LOAD,
        power_type=TypePower.POWER_CONSUMER,
        name=name,
        rated_power=rated_kw,
        eff_curve=np.array([1.0]),
        shaft_line_id=line,
    )


def pti_pto(name, rated_kw, line):
    machine = ElectricMachine(
        type_=TypeComponent.SYNCHRONOUS_MACHINE,
        name=name + " machine",
        rated_power=rated_kw,
        rated_speed=1000,
        power_type=TypePower.PTI_PTO,
        switchboard_id=1,
        eff_curve=EFF,
    )
    converter = ElectricComponent(
        type_=TypeComponent.POWER_CONVERTER,
        name=name + " converter",
        rated_power=rated_kw,
        power_type=TypePower.PTI_PTO,
        switchboard_id=1,
        eff_curve=np.array([[0.25, 0.97], [1.0, 0.98]]),
    )
    return PTIPTO(name, [converter, machine], 1, rated_kw, 1000, shaft_line_id=line)


def residual(system):
    """engines + PTI/PTO shaft power - loads, per step, for the (only) shaft line"""
    engines = sum(np.asarray(e.power_output, dtype=float) for e in system.main_engines)
    loads = sum(np.asarray(c.power_input, dtype=float) for c in system.mechanical_loads)
    pti = sum(np.asarray(p.power_output, dtype=float) for p in system.pti_ptos)
    return engines + pti - loads


violations = []
N = 3
ALL_ON = np.ones(N, dtype=bool)

# ---------------------------------------------------------------------------------------------
# (a) two engines, no PTI/PTO. Status: both engines running on every step (set ONCE).
#     First series has a zero-load step; second series does not.
# ---------------------------------------------------------------------------------------------
me1, me2, prop = main_engine("ME1", 2000.0, 1), main_engine("ME2", 1000.0, 1), propeller("P", 3000.0, 1)
system = MechanicalPropulsionSystem("two engines", [me1, me2, prop])
system.set_status_main_engine_for_name_shaft_line_id("ME1", 1, ALL_ON.copy())
system.set_status_main_engine_for_name_shaft_line_id("ME2", 1, ALL_ON.copy())
system.set_power_consumer_load_by_value_for_given_name_shaft_line_id(
    "P", 1, np.array([1000.0, 0.0, 800.0])
)
system.do_power_balance()
print("(a) first balance, loads [1000, 0, 800]: residual", residual(system))
assert np.allclose(residual(system), 0)
system.set_power_consumer_load_by_value_for_given_name_shaft_line_id(
    "P", 1, np.array([1000.0, 600.0, 800.0])
)
system.do_power_balance()
res = residual(system)
print("(a) second balance, loads [1000, 600, 800]:")
print("    ME1", me1.power_output, " ME2", me2.power_output)
print("    status now held by ME1:", me1.status, "(given: all True)")
print("    residual engines + PTI - load =", res)
if not np.allclose(res, 0, atol=1e-6):
    violations.append("(a) new load series: shaft line unbalanced by %s kW" % res)

# ---------------------------------------------------------------------------------------------
# (b) one engine + PTI/PTO; the loop E-M-E-M that the docstring of do_power_balance recommends:
#     same loads, same status, only the PTI shaft power differs between the two balances.
# ---------------------------------------------------------------------------------------------
me, prop, pti = main_engine("ME1", 2000.0, 1), propeller("P", 3000.0, 1), pti_pto("PTI", 1000.0, 1)
system = MechanicalPropulsionSystem("engine and PTI", [me, prop, pti])
system.set_status_main_engine_for_name_shaft_line_id("ME1", 1, ALL_ON.copy())
system.set_power_consumer_load_by_value_for_given_name_shaft_line_id(
    "P", 1, np.array([800.0, 500.0, 800.0])
)
pti.status = ALL_ON.copy()
system.set_full_pti_mode_for_name_shaft_line_id("PTI", 1, np.zeros(N, dtype=bool))
system.set_power_input_pti_pto_by_power_output_value_for_name_shaft_line_id(
    "PTI", 1, np.array([0.0, 500.0, 0.0])
)
system.do_power_balance()
assert np.allclose(residual(system), 0)
system.set_power_input_pti_pto_by_power_output_value_for_name_shaft_line_id(
    "PTI", 1, np.array([0.0, 200.0, 0.0])
)
system.do_power_balance()
res = residual(system)
print("(b) PTI shaft power changed from [0,500,0] to [0,200,0], loads [800,500,800]:")
print("    ME1", me.power_output, " PTI", pti.power_output, " residual", res)
if not np.allclose(res, 0, atol=1e-6):
    violations.append("(b) new PTI power series: shaft line unbalanced by %s kW" % res)

# ---------------------------------------------------------------------------------------------
# (c) full-PTI flag on step 1 in the first balance, cleared in the second (PTI then gives 100 kW)
# ---------------------------------------------------------------------------------------------
me, prop, pti = main_engine("ME1", 2000.0, 1), propeller("P", 3000.0, 1), pti_pto("PTI", 1000.0, 1)
system = MechanicalPropulsionSystem("full PTI then not", [me, prop, pti])
system.set_status_main_engine_for_name_shaft_line_id("ME1", 1, ALL_ON.copy())
system.set_power_consumer_load_by_value_for_given_name_shaft_line_id(
    "P", 1, np.array([800.0, 500.0, 800.0])
)
pti.status = ALL_ON.copy()
system.set_power_input_pti_pto_by_power_output_value_for_name_shaft_line_id(
    "PTI", 1, np.array([0.0, 0.0, 0.0])
)
system.set_full_pti_mode_for_name_shaft_line_id("PTI", 1, np.array([False, True, False]))
system.do_power_balance()
assert np.allclose(residual(system), 0)
system.set_full_pti_mode_for_name_shaft_line_id("PTI", 1, np.zeros(N, dtype=bool))
system.set_power_input_pti_pto_by_power_output_value_for_name_shaft_line_id(
    "PTI", 1, np.array([100.0, 100.0, 100.0])
)
system.do_power_balance()
res = residual(system)
print("(c) full-PTI flags [F,T,F] -> [F,F,F], PTI 100 kW:")
print("    ME1", me.power_output, " PTI", pti.power_output, " residual", res)
if not np.allclose(res, 0, atol=1e-6):
    violations.append("(c) cleared full-PTI flags: shaft line unbalanced by %s kW" % res)

print()
if violations:
    print("PROPERTY VIOLATED:")
    for v in violations:
        print("  -", v)
    sys.exit(1)
print("property holds")
sys.exit(0)
