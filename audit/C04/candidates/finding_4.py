"""C04 finding 4 (alternative entry point): RunFeemsSim.MachineryCalculation, the documented way to
run a converted plant, cannot carry out the shaft balance of a HYBRID plant for a series longer
than one step: it sizes the status / sharing series of gensets, storage and main engines to the
series length but leaves status, load-sharing mode, power and full-PTI flags of the PTI/PTO at
their one-element defaults, which the validators refuse. The same plant is balanced correctly
for one step, and for three steps once the caller reaches into the PTI/PTO object and assigns the
four arrays by hand.

Run: PYTHONPATH=<wt>/feems:<wt>/machinery-system-structure:<wt>/RunFEEMSSim python finding_4.py
Exit status 1 = property violated (valid input refused), 0 = property holds.
"""
import logging
import sys

import numpy as np
import pandas as pd

logging.disable(logging.CRITICAL)

from feems.components_model.component_electric import (
    ElectricComponent,
    ElectricMachine,
    Genset,
    PTIPTO,
)
from feems.components_model.component_mechanical import (
    Engine,
    MainEngineForMechanicalPropulsion,
    MechanicalPropulsionComponent,
)
from feems.system_model import (
    ElectricPowerSystem,
    HybridPropulsionSystem,
    MechanicalPropulsionSystem,
)
from feems.types_for_feems import TypeComponent, TypePower
from RunFeemsSim.machinery_calculation import MachineryCalculation

BSFC = np.array([[0.25, 210.0], [0.5, 195.0], [0.75, 190.0], [1.0, 198.0]])
EFF = np.array([[0.25, 0.92], [0.5, 0.95], [0.75, 0.96], [1.0, 0.955]])


def build():
    def genset(name, rated_kw, swb):
        generator = ElectricMachine(
            type_=TypeComponent.GENERATOR,
            name=name + " generator",
            rated_power=rated_kw,
            rated_speed=900,
            power_type=TypePower.POWER_SOURCE,
            switchboard_id=swb,
            eff_curve=EFF,
        )
        engine = Engine(
            type_=TypeComponent.AUXILIARY_ENGINE,
            name=name + " engine",
            rated_power=rated_kw / 0.95,
            rated_speed=900,
            bsfc_curve=BSFC,
        )
        return Genset(name, engine, generator)

    hotel = ElectricComponent(
        type_=TypeComponent.OTHER_LOAD,
        name="hotel",
        rated_power=1000.0,
        power_type=TypePower.POWER_CONSUMER,
        switchboard_id=1,
        eff_curve=np.array([1.0]),
    )
    machine = ElectricMachine(
        type_=TypeComponent.SYNCHRONOUS_MACHINE,
        name="PTI machine",
        rated_power=1000.0,
        rated_speed=1000,
        power_type=TypePower.PTI_PTO,
        switchboard_id=1,
        eff_curve=EFF,
    )
    pti = PTIPTO("PTI", [machine], 1, 1000.0, 1000, shaft_line_id=1)
    electric = ElectricPowerSystem("e", [genset("G1", 2000.0, 1), genset("G2", 2000.0, 1), hotel, pti], [])
    engine = Engine(
        type_=TypeComponent.MAIN_ENGINE,
        name="ME1 engine",
        rated_power=3000.0,
        rated_speed=750,
        bsfc_curve=BSFC,
    )
    me = MainEngineForMechanicalPropulsion("ME1", engine, shaft_line_id=1)
    prop = MechanicalPropulsionComponent(
        type_=TypeComponent.PROPELLER_LOAD,
        power_type=TypePower.POWER_CONSUMER,
        name="P",
        rated_power=4000.0,
        eff_curve=np.array([1.0]),
        shaft_line_id=1,
    )
    mechanical = MechanicalPropulsionSystem("m", [me, prop, pti])
    return HybridPropulsionSystem("hybrid", electric, mechanical), me, prop, pti


def run(n_steps, preset_pti_arrays):
    system, me, prop, pti = build()
    if preset_pti_arrays:
        pti.status = np.ones(n_steps, dtype=bool)
        pti.load_sharing_mode = np.ones(n_steps)  # given power
        pti.full_pti_mode = np.zeros(n_steps, dtype=bool)
        pti.set_power_input_from_output(np.full(n_steps, -200.0))  # 200 kW PTO
    calculation = MachineryCalculation(system)
    time_s = np.arange(n_steps + 1) * 60.0
    calculation.calculate_machinery_system_output_from_propulsion_power_time_series(
        propulsion_power=pd.Series(np.linspace(1000.0, 2000.0, n_steps + 1), index=time_s),
        auxiliary_power_kw=300.0,
    )
    return me.power_output + pti.power_output - prop.power_input


violations = []
for n_steps, preset in [(1, False), (3, True), (3, False)]:
    text = "%d step(s), PTI/PTO arrays %s" % (
        n_steps,
        "assigned by hand beforehand" if preset else "left to MachineryCalculation",
    )
    try:
        res = run(n_steps, preset)
        print(text, "-> balanced, residual", res)
        if not np.allclose(res, 0, atol=1e-6):
            violations.append(text + ": unbalanced")
    except Exception as exc:  # noqa
        print(text, "-> refused with %s: %s" % (type(exc).__name__, str(exc)[:160]))
        violations.append(text + ": refused (%s)" % type(exc).__name__)

print()
if violations:
    print("PROPERTY VIOLATED (valid input refused):")
    for v in violations:
        print("  -", v)
    sys.exit(1)
print("property holds")
sys.exit(0)
