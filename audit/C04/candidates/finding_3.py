"""C04 finding 3: a shaft line WITH a PTI/PTO whose full-PTI flags (and PTI/PTO status) are left
at their constructor defaults is refused for every series longer than one step, although full-PTI
mode is documented as "set ... if applicable", the PTI/PTO status is not used by the shaft
balance at all, and the same plant is accepted for a one-step series. The defaults
(np.zeros(1) / np.ones(1)) mean "never full PTI" / "always on", but are not broadcast.

Run: PYTHONPATH=<wt>/feems:<wt>/machinery-system-structure:<wt>/RunFEEMSSim python finding_3.py
Exit status 1 = property violated (valid input refused), 0 = property holds.
"""
import logging
import sys

import numpy as np

logging.disable(logging.CRITICAL)

from feems.components_model.component_electric import ElectricMachine, PTIPTO
from feems.components_model.component_mechanical import (
    Engine,
    MainEngineForMechanicalPropulsion,
    MechanicalPropulsionComponent,
)
from feems.system_model import MechanicalPropulsionSystem
from feems.types_for_feems import TypeComponent, TypePower

BSFC = np.array([[0.25, 210.0], [0.5, 195.0], [0.75, 190.0], [1.0, 198.0]])
EFF = np.array([[0.25, 0.92], [0.5, 0.95], [0.75, 0.96], [1.0, 0.955]])


def build():
    engine = Engine(
        type_=TypeComponent.MAIN_ENGINE,
        name="ME1 engine",
        rated_power=2000.0,
        rated_speed=750,
        bsfc_curve=BSFC,
    )
    me = MainEngineForMechanicalPropulsion("ME1", engine, shaft_line_id=1)
    prop = MechanicalPropulsionComponent(
        type_=TypeComponent.PROPELLER_LOAD,
        power_type=TypePower.POWER_CONSUMER,
        name="P",
        rated_power=3000.0,
        eff_curve=np.array([1.0]),
        shaft_line_id=1,
    )
    machine = ElectricMachine(
        type_=TypeComponent.SYNCHRONOUS_MACHINE,
        name="PTI machine",
        rated_power=800.0,
        rated_speed=1000,
        power_type=TypePower.PTI_PTO,
        switchboard_id=1,
        eff_curve=EFF,
    )
    pti = PTIPTO("PTI", [machine], 1, 800.0, 1000, shaft_line_id=1)
    return MechanicalPropulsionSystem("m", [me, prop, pti]), me, prop, pti


def run(loads, pti_shaft_power, set_flags, set_pti_status):
    system, me, prop, pti = build()
    n = len(loads)
    system.set_status_main_engine_for_name_shaft_line_id("ME1", 1, np.ones(n, dtype=bool))
    system.set_power_consumer_load_by_value_for_given_name_shaft_line_id("P", 1, loads)
    system.set_power_input_pti_pto_by_power_output_value_for_name_shaft_line_id(
        "PTI", 1, pti_shaft_power
    )
    if set_flags:
        system.set_full_pti_mode_for_name_shaft_line_id("PTI", 1, np.zeros(n, dtype=bool))
    if set_pti_status:
        pti.status = np.ones(n, dtype=bool)
    system.do_power_balance()
    res = me.power_output + pti.power_output - prop.power_input
    return me.power_output, res


violations = []

print("one step, nothing but loads / status / PTI power set:")
out, res = run(np.array([800.0]), np.array([-200.0]), False, False)
print("   accepted, ME1 =", out, "residual", res)

cases = [
    ("three steps, full-PTI flags and PTI status left at default", False, False),
    ("three steps, full-PTI flags set (all False), PTI status left at default", True, False),
    ("three steps, PTI status set, full-PTI flags left at default", False, True),
]
for text, set_flags, set_pti_status in cases:
    print(text + ":")
    try:
        out, res = run(
            np.array([800.0, 500.0, 800.0]), np.array([0.0, -200.0, 100.0]), set_flags, set_pti_status
        )
        print("   accepted, ME1 =", out, "residual", res)
        if not np.allclose(res, 0, atol=1e-6):
            violations.append(text + ": unbalanced")
    except Exception as exc:  # noqa
        print("   refused with %s: %s" % (type(exc).__name__, str(exc).replace("\n", " ")[:170]))
        violations.append(text + ": refused (%s)" % type(exc).__name__)

print("three steps, both set explicitly (the only accepted form):")
out, res = run(np.array([800.0, 500.0, 800.0]), np.array([0.0, -200.0, 100.0]), True, True)
print("   accepted, ME1 =", out, "residual", res)

print()
if violations:
    print("PROPERTY VIOLATED (valid input refused):")
    for v in violations:
        print("  -", v)
    sys.exit(1)
print("property holds")
sys.exit(0)
