"""C04 finding 1 - HybridPropulsionSystem: a constant PTI/PTO power given as ONE value (given-power
mode, load sharing mode 1) is silently replaced by 0 kW at every step as soon as one step of the
series is flagged full-PTI.

Run:  PYTHONPATH=<wt>/feems:<wt>/machinery-system-structure:<wt>/RunFEEMSSim /venv/bin/python finding_1.py
Exit status 1 = property violated (current code), 0 = holds.
"""
import logging
import sys
import warnings

import numpy as np

from feems.components_model.component_electric import (
    ElectricComponent,
    ElectricMachine,
    Genset,
    PTIPTO,
)
from feems.components_model.component_mechanical import (
    Engine,
    MainEngineForMechanicalPropulsion,
    MechanicalPropulsionComponent,
)
from feems.components_model.utility import IntegrationMethod
from feems.system_model import (
    ElectricPowerSystem,
    HybridPropulsionSystem,
    MechanicalPropulsionSystem,
)
from feems.types_for_feems import TypeComponent, TypePower

warnings.filterwarnings("ignore")
logging.disable(logging.CRITICAL)

BSFC = np.array([[1.00, 0.75, 0.50, 0.25, 0.10], [193.66, 188.995, 194.47, 211.4, 250]]).T
N = 4
LOAD = np.array([3000.0, 2500.0, 1000.0, 500.0])  # propeller shaft power, kW
FULL_PTI = np.array([False, False, True, False])
PTO_SHAFT_KW = -300.0  # constant PTO: 300 kW taken from the shaft at every step


def build():
    machine = ElectricMachine(
        type_=TypeComponent.SYNCHRONOUS_MACHINE,
        power_type=TypePower.PTI_PTO,
        name="shaft machine",
        rated_power=2000,
        rated_speed=900,
        eff_curve=np.array([0.95]),
    )
    converter = ElectricComponent(
        type_=TypeComponent.INVERTER,
        power_type=TypePower.POWER_TRANSMISSION,
        name="converter",
        rated_power=2000,
        eff_curve=np.array([0.98]),
    )
    pti_pto = PTIPTO(
        name="PTI/PTO",
        components=[converter, machine],
        switchboard_id=1,
        rated_power=2000,
        rated_speed=900,
        shaft_line_id=1,
    )
    engines = [
        MainEngineForMechanicalPropulsion(
            f"main engine {i}",
            Engine(
                type_=TypeComponent.MAIN_ENGINE,
                name=f"engine {i}",
                rated_power=rated,
                rated_speed=750,
                bsfc_curve=BSFC,
            ),
            shaft_line_id=1,
        )
        for i, rated in enumerate([4000.0, 2000.0], start=1)
    ]
    propeller = MechanicalPropulsionComponent(
        type_=TypeComponent.PROPELLER_LOAD,
        power_type=TypePower.POWER_CONSUMER,
        name="propeller",
        rated_power=6000,
        rated_speed=150,
        eff_curve=np.array([1.0]),
        shaft_line_id=1,
    )
    mechanical = MechanicalPropulsionSystem("mech", [*engines, pti_pto, propeller])
    genset = Genset(
        "genset",
        Engine(
            type_=TypeComponent.AUXILIARY_ENGINE,
            name="aux engine",
            rated_power=3200,
            rated_speed=900,
            bsfc_curve=BSFC,
        ),
        ElectricMachine(
            type_=TypeComponent.GENERATOR,
            name="generator",
            rated_power=3000,
            rated_speed=900,
            power_type=TypePower.POWER_SOURCE,
            switchboard_id=1,
            eff_curve=np.array([0.96]),
        ),
    )
    hotel = ElectricComponent(
        type_=TypeComponent.OTHER_LOAD,
        name="hotel",
        rated_power=1000,
        power_type=TypePower.POWER_CONSUMER,
        switchboard_id=1,
        eff_curve=np.array([1.0]),
    )
    electric = ElectricPowerSystem("el", [genset, hotel, pti_pto], bus_tie_connections=[])
    hybrid = HybridPropulsionSystem("hybrid", electric, mechanical)
    hybrid.set_time_interval(1.0, IntegrationMethod.sum_with_time)
    return hybrid, mechanical, electric, pti_pto, engines, propeller, genset, hotel


def run(pto_as_single_value: bool, full_pti: np.ndarray):
    hybrid, mechanical, electric, pti_pto, engines, propeller, genset, hotel = build()
    mechanical.set_power_consumer_load_by_value_for_given_name_shaft_line_id(
        "propeller", 1, LOAD.copy()
    )
    hotel.set_power_output_from_input(np.full(N, 500.0))
    genset.status = np.ones(N, dtype=bool)
    for engine in engines:
        mechanical.set_status_main_engine_for_name_shaft_line_id(
            engine.name, 1, np.ones(N, dtype=bool)
        )
    pti_pto.status = np.ones(N, dtype=bool)
    mechanical.set_full_pti_mode_for_name_shaft_line_id("PTI/PTO", 1, full_pti.copy())
    # The PTI/PTO is not sharing the bus load: its power is given (load sharing mode 1)
    pti_pto.load_sharing_mode = np.ones(1)
    given = np.array([PTO_SHAFT_KW]) if pto_as_single_value else np.full(N, PTO_SHAFT_KW)
    mechanical.set_power_input_pti_pto_by_power_output_value_for_name_shaft_line_id(
        "PTI/PTO", 1, given
    )
    hybrid.do_power_balance_calculation()
    return (
        np.array([np.broadcast_to(e.power_output, (N,)) for e in engines]),
        np.broadcast_to(np.asarray(pti_pto.power_output, dtype=float), (N,)),
        np.broadcast_to(np.asarray(genset.power_output, dtype=float), (N,)),
    )


def main() -> int:
    violated = False
    print("Shaft load [kW]:", LOAD, " full-PTI flags:", FULL_PTI)
    print(f"PTI/PTO shaft power given by the user: {PTO_SHAFT_KW} kW at every step (PTO)\n")

    # Reference 1: same constant as ONE value, no full-PTI flag anywhere -> the constant is used
    engines_a, pti_a, genset_a = run(True, np.zeros(N, dtype=bool))
    print("single value, no full-PTI flag : engines", engines_a.sum(axis=0).round(2), "PTI/PTO", pti_a.round(2))
    # Reference 2: the same constant written out as a series, with the full-PTI flag
    engines_b, pti_b, genset_b = run(False, FULL_PTI)
    print("series, full-PTI at step 2     : engines", engines_b.sum(axis=0).round(2), "PTI/PTO", pti_b.round(2))
    # Case under test: ONE value, with the full-PTI flag
    engines_c, pti_c, genset_c = run(True, FULL_PTI)
    print("single value, full-PTI at step 2: engines", engines_c.sum(axis=0).round(2), "PTI/PTO", pti_c.round(2))
    print("   genset output [kW]: series", genset_b.round(1), " single value", genset_c.round(1))

    # Clause 1 with the PTI/PTO power that was GIVEN: outside the full-PTI steps
    # engines + given PTI/PTO shaft power = load
    free = ~FULL_PTI
    residual = engines_c.sum(axis=0)[free] + PTO_SHAFT_KW - LOAD[free]
    print("\nengines + GIVEN PTI/PTO shaft power - load at the steps without full-PTI flag:", residual.round(2))
    if np.any(np.abs(residual) > 1.0):
        print("VIOLATION: the shaft power of the PTI/PTO that was given (-300 kW) is not the one the "
              "balance used (0 kW); the engines deliver 300 kW too little for the given PTO power")
        violated = True
    if np.any(np.abs(pti_c[free] - PTO_SHAFT_KW) > 1.0):
        print("VIOLATION: PTI/PTO shaft power after the balance", pti_c[free].round(2),
              "instead of the given", PTO_SHAFT_KW)
        violated = True
    # The two representations of the same input must agree
    if not np.allclose(engines_c, engines_b, rtol=1e-4, atol=0.5):
        print("VIOLATION: the same constant given as a series and as a single value gives different "
              "engine powers:", engines_b.round(1).tolist(), "vs", engines_c.round(1).tolist())
        violated = True
    # full-PTI clause itself (holds)
    full = FULL_PTI
    print("full-PTI step: engines", engines_c.sum(axis=0)[full], "PTI", pti_c[full], "load", LOAD[full])
    print("\nRESULT:", "property violated" if violated else "property holds")
    return 1 if violated else 0


if __name__ == "__main__":
    sys.exit(main())
