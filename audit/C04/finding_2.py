"""C04 finding 2: the scalar inputs that the ShaftLine setters document ("Scalar or 1d ndarray")
are stored unwrapped, because the setters test the type of the OLD attribute instead of the
new value. A one-step calculation given as scalars is refused (AttributeError / IndexError), and
after a scalar status the next *array* status is wrapped into a 2-D array and is refused too.

Run: PYTHONPATH=<wt>/feems:<wt>/machinery-system-structure:<wt>/RunFEEMSSim python finding_2.py
Exit status 1 = property violated (valid input refused), 0 = property holds.
"""
import logging
import sys

import numpy as np

logging.disable(logging.CRITICAL)

from feems.components_model.component_electric import ElectricComponent, ElectricMachine, PTIPTO
from feems.components_model.component_mechanical import (
    Engine,
    MainEngineForMechanicalPropulsion,
    MechanicalPropulsionComponent,
)
from feems.components_model.node import ShaftLine
from feems.types_for_feems import TypeComponent, TypePower

BSFC = np.array([[0.25, 210.0], [0.5, 195.0], [0.75, 190.0], [1.0, 198.0]])
EFF = np.array([[0.25, 0.92], [0.5, 0.95], [0.75, 0.96], [1.0, 0.955]])


def build():
    def main_engine(name, rated_kw):
        engine = Engine(
            type_=TypeComponent.MAIN_ENGINE,
            name=name + " engine",
            rated_power=rated_kw,
            rated_speed=750,
            bsfc_curve=BSFC,
        )
        return MainEngineForMechanicalPropulsion(name, engine, shaft_line_id=1)

    prop = MechanicalPropulsionComponent(
        type_=TypeComponent.PROPELLER_LOAD,
        power_type=TypePower.POWER_CONSUMER,
        name="P",
        rated_power=3000.0,
        eff_curve=np.array([1.0]),
        shaft_line_id=1,
    )
    machine = ElectricMachine(
        type_=TypeComponent.SYNCHRONOUS_MACHINE,
        name="PTI machine",
        rated_power=800.0,
        rated_speed=1000,
        power_type=TypePower.PTI_PTO,
        switchboard_id=1,
        eff_curve=EFF,
    )
    pti = PTIPTO("PTI", [machine], 1, 800.0, 1000, shaft_line_id=1)
    me1, me2 = main_engine("ME1", 2000.0), main_engine("ME2", 1000.0)
    return ShaftLine("shaft line 1", 1, [me1, me2, prop, pti]), me1, me2, prop, pti


def holds(me1, me2, prop, pti):
    engines = np.asarray(me1.power_output, float) + np.asarray(me2.power_output, float)
    res = engines + np.asarray(pti.power_output, float) - np.asarray(prop.power_input, float)
    ok = np.allclose(res, 0, atol=1e-6)
    ok &= np.allclose(np.asarray(me2.power_output, float), 0)  # ME2 is stopped
    ok &= np.allclose(np.asarray(me1.power_output, float), 1200.0)
    return ok


violations = []

# Reference: the same one-step case given as one-element arrays -> ME1 1200 kW, ME2 0, PTO -300
line, me1, me2, prop, pti = build()
line.set_power_input_load_by_name("P", np.array([900.0]))
line.set_power_output_pti_pto(np.array([-300.0]))
line.set_status_main_engine_by_name("ME1", np.array([True]))
line.set_status_main_engine_by_name("ME2", np.array([False]))
line.do_power_balance()
print("arrays of one element: ME1", me1.power_output, "ME2", me2.power_output, "PTI", pti.power_output)
assert holds(me1, me2, prop, pti)

# (a) scalar status, as the docstring of set_status_main_engine_by_name allows
line, me1, me2, prop, pti = build()
line.set_power_input_load_by_name("P", 900.0)
line.set_power_output_pti_pto(-300.0)
line.set_status_main_engine_by_name("ME1", True)
line.set_status_main_engine_by_name("ME2", False)
print("(a) status stored for ME1 after set_status_main_engine_by_name('ME1', True):", repr(me1.status))
try:
    line.do_power_balance()
    print("    ME1", me1.power_output, "ME2", me2.power_output, "PTI", pti.power_output)
    if not holds(me1, me2, prop, pti):
        violations.append("(a) scalar status: wrong result")
except Exception as exc:  # noqa
    print("    do_power_balance raised %s: %s" % (type(exc).__name__, exc))
    violations.append("(a) scalar status refused: %s" % type(exc).__name__)

# (b) ... and now the user passes proper arrays to the SAME line: they get wrapped once more
line.set_status_main_engine_by_name("ME1", np.array([True]))
line.set_status_main_engine_by_name("ME2", np.array([False]))
print("(b) status stored for ME1 after a following array status np.array([True]):", repr(me1.status))
try:
    line.do_power_balance()
    print("    ME1", me1.power_output, "ME2", me2.power_output, "PTI", pti.power_output)
    if not holds(me1, me2, prop, pti):
        violations.append("(b) array status after a scalar one: wrong result")
except Exception as exc:  # noqa
    print("    do_power_balance raised %s: %s" % (type(exc).__name__, exc))
    violations.append("(b) array status after a scalar one refused: %s" % type(exc).__name__)

# (c) integer scalar for the PTI/PTO shaft power (a float scalar is wrapped, an int is not)
line, me1, me2, prop, pti = build()
line.set_power_input_load_by_name("P", 900.0)
line.set_power_output_pti_pto(-300)
line.set_status_main_engine_by_name("ME1", np.array([True]))
line.set_status_main_engine_by_name("ME2", np.array([False]))
print("(c) PTI power stored after set_power_output_pti_pto(-300):", repr(pti.power_output))
try:
    line.do_power_balance()
    print("    ME1", me1.power_output, "ME2", me2.power_output, "PTI", pti.power_output)
    if not holds(me1, me2, prop, pti):
        violations.append("(c) int scalar PTI power: wrong result")
except Exception as exc:  # noqa
    print("    do_power_balance raised %s: %s" % (type(exc).__name__, exc))
    violations.append("(c) int scalar PTI power refused: %s" % type(exc).__name__)

print()
if violations:
    print("PROPERTY VIOLATED (valid one-step input refused):")
    for v in violations:
        print("  -", v)
    sys.exit(1)
print("property holds")
sys.exit(0)
