"""C04 finding 1 (alternative entry point, protobuf): the PTI/PTO of a shaft line is matched to
the PTI/PTO of the switchboard by uid only, and a uid of five characters or fewer (or none) is
thrown away on reading (_MIN_LENGTH_UID) and replaced by a random one.

(a) HYBRID plant whose PTI/PTO has uid "PTI-1" (given through the public `uid=` argument of
    PTIPTO), written with convert_hybrid_propulsion_system_to_protobuf and read back with
    convert_proto_propulsion_system_to_feems: refused (ConfigurationError "One of the PTI/PTOs
    configured for electric system does not match ..."). With uid "PTI-01" the same plant is read
    back and balanced. A description without uids (proto3 default "") is refused the same way.
(b) MECHANICAL plant with a shaft generator with the same short uid: accepted, but the shaft
    line gets a SECOND machine. The shaft generator shares the bus load (PTO, e.g. -140 kW shaft
    power), the machine on the shaft line stays at 0 kW, and the main engine delivers exactly
    the propeller load: the shaft power the generator takes is delivered by no engine.
    engines + PTI/PTO(shaft generator of the plant) - loads != 0.

Run: PYTHONPATH=<wt>/feems:<wt>/machinery-system-structure:<wt>/RunFEEMSSim python finding_1.py
Exit status 1 = property violated, 0 = property holds.
"""
import contextlib
import io
import logging
import sys

import numpy as np

logging.disable(logging.CRITICAL)

from feems.components_model.component_electric import (
    ElectricComponent,
    ElectricMachine,
    Genset,
    PTIPTO,
)
from feems.components_model.component_mechanical import (
    Engine,
    MainEngineForMechanicalPropulsion,
    MechanicalPropulsionComponent,
)
from feems.components_model.utility import IntegrationMethod
from feems.system_model import (
    ElectricPowerSystem,
    HybridPropulsionSystem,
    MechanicalPropulsionSystem,
    MechanicalPropulsionSystemWithElectricPowerSystem,
)
from feems.types_for_feems import TypeComponent, TypePower
import MachSysS.system_structure_pb2 as proto
from MachSysS.convert_to_feems import convert_proto_propulsion_system_to_feems
from MachSysS.convert_to_protobuf import (
    convert_hybrid_propulsion_system_to_protobuf,
    convert_mechanical_propulsion_system_with_electric_system_to_protobuf,
)

BSFC = np.array([[0.25, 210.0], [0.5, 195.0], [0.75, 190.0], [1.0, 198.0]])
EFF = np.array([[0.0, 0.90], [0.25, 0.92], [0.5, 0.95], [0.75, 0.96], [1.0, 0.955]])


def build(cls, uid):
    gensets = []
    for name in ("G1", "G2"):
        aux = Engine(
            type_=TypeComponent.AUXILIARY_ENGINE,
            name=name + " engine",
            rated_power=1000.0,
            rated_speed=900,
            bsfc_curve=BSFC,
        )
        gen = ElectricMachine(
            type_=TypeComponent.GENERATOR,
            name=name + " gen",
            rated_power=950.0,
            rated_speed=900,
            power_type=TypePower.POWER_SOURCE,
            switchboard_id=1,
            eff_curve=np.array([0.96]),
        )
        gensets.append(Genset(name, aux, gen))
    hotel = ElectricComponent(
        type_=TypeComponent.OTHER_LOAD,
        name="hotel",
        rated_power=1000.0,
        eff_curve=np.array([1.0]),
        power_type=TypePower.POWER_CONSUMER,
        switchboard_id=1,
    )
    machine = ElectricMachine(
        type_=TypeComponent.SYNCHRONOUS_MACHINE,
        name="SG machine",
        rated_power=800.0,
        rated_speed=1000,
        power_type=TypePower.PTI_PTO,
        switchboard_id=1,
        eff_curve=EFF,
    )
    converter = ElectricComponent(
        type_=TypeComponent.POWER_CONVERTER,
        name="SG converter",
        rated_power=800.0,
        power_type=TypePower.PTI_PTO,
        switchboard_id=1,
        eff_curve=np.array([0.98]),
    )
    pti = PTIPTO("SG", [converter, machine], 1, 800.0, 1000, shaft_line_id=1, uid=uid)
    engine = Engine(
        type_=TypeComponent.MAIN_ENGINE,
        name="ME1 engine",
        rated_power=2000.0,
        rated_speed=750,
        bsfc_curve=BSFC,
    )
    me = MainEngineForMechanicalPropulsion("ME1", engine, shaft_line_id=1)
    prop = MechanicalPropulsionComponent(
        type_=TypeComponent.PROPELLER_LOAD,
        power_type=TypePower.POWER_CONSUMER,
        name="P",
        rated_power=3000.0,
        eff_curve=np.array([1.0]),
        shaft_line_id=1,
    )
    electric = ElectricPowerSystem("e", gensets + [hotel, pti], [])
    mechanical = MechanicalPropulsionSystem("m", [me, prop, pti])
    return cls("plant", electric, mechanical)


def round_trip(system, to_proto):
    message = proto.MachinerySystem()
    message.ParseFromString(to_proto(system).SerializeToString())
    with contextlib.redirect_stdout(io.StringIO()):  # the converter prints a notice
        return convert_proto_propulsion_system_to_feems(message)


def balance(system, n=2):
    """One PTO case: shaft generator shares the bus load (sharing mode 0), 300 kW hotel load."""
    electric, mechanical = system.electric_system, system.mechanical_system
    system.set_time_interval(60.0, IntegrationMethod.sum_with_time)
    for source in electric.power_sources:
        source.status = np.ones(n, dtype=bool)
        source.load_sharing_mode = np.zeros(n)
    electric.set_power_input_from_power_output_by_switchboard_id_type_name(
        np.full(n, 300.0), 1, TypePower.POWER_CONSUMER, "hotel"
    )
    for pti in set(electric.pti_pto) | set(mechanical.pti_ptos):
        pti.status = np.ones(n, dtype=bool)
        pti.load_sharing_mode = np.zeros(n)
        pti.full_pti_mode = np.zeros(n, dtype=bool)
        pti.set_power_input_from_output(np.zeros(n))
    mechanical.set_status_main_engine_for_name_shaft_line_id("ME1", 1, np.ones(n, dtype=bool))
    mechanical.set_power_consumer_load_by_value_for_given_name_shaft_line_id(
        "P", 1, np.full(n, 1000.0)
    )
    system.do_power_balance_calculation()
    engine = mechanical.main_engines[0].power_output
    load = mechanical.mechanical_loads[0].power_input
    shaft_generator = electric.pti_pto[0].power_output  # shaft power of THE PTI/PTO of the plant
    return engine, shaft_generator, load


violations = []

print("(a) HYBRID plant, protobuf round trip")
for uid in ("PTI-01", "PTI-1"):
    system = build(HybridPropulsionSystem, uid)
    try:
        back = round_trip(system, convert_hybrid_propulsion_system_to_protobuf)
        engine, sg, load = balance(back)
        residual = engine + sg - load
        print(f"   uid {uid!r}: read back; engine {engine}, shaft generator {sg}, residual {residual}")
        if np.any(np.abs(residual) > 1e-3 * np.abs(load)):
            violations.append(f"hybrid, uid {uid!r}: shaft residual {residual}")
    except Exception as exc:  # noqa
        print(f"   uid {uid!r}: refused: {type(exc).__name__}: {str(exc)[:120]}")
        violations.append(f"hybrid, uid {uid!r}: valid plant refused ({type(exc).__name__})")

print("(b) MECHANICAL plant with shaft generator, protobuf round trip")
for uid in ("PTI-01", "PTI-1"):
    system = build(MechanicalPropulsionSystemWithElectricPowerSystem, uid)
    try:
        back = round_trip(
            system, convert_mechanical_propulsion_system_with_electric_system_to_protobuf
        )
        same = back.electric_system.pti_pto[0] is back.mechanical_system.pti_ptos[0]
        engine, sg, load = balance(back)
        residual = engine + sg - load
        print(
            f"   uid {uid!r}: one machine on bus and shaft: {same}; engine {engine}, "
            f"shaft generator {sg}, residual {residual}"
        )
        if np.any(np.abs(residual) > 1e-3 * np.abs(load)):
            violations.append(
                f"mechanical, uid {uid!r}: engines + shaft generator - load = {residual} kW"
            )
    except Exception as exc:  # noqa
        print(f"   uid {uid!r}: refused: {type(exc).__name__}: {str(exc)[:120]}")
        violations.append(f"mechanical, uid {uid!r}: valid plant refused ({type(exc).__name__})")

print()
if violations:
    print("PROPERTY VIOLATED:")
    for v in violations:
        print("  -", v)
    sys.exit(1)
print("property holds")
sys.exit(0)
