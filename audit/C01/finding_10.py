"""C01 finding 3: the on/off series of a power source given in another numeric representation than
bool / int64 / float64 breaks the balance.

(a) on/off flags stored compactly as int8 or uint8 (0 / 1) and a rated power given as a Python
    int (rated_power=1000): the balance is refused with OverflowError ("Python integer 1000 out of
    bounds for int8"), because `rated_power * status` is evaluated in the dtype of the status.
(b) on/off flags (or the fixed load shares) stored as float32: the balance runs, but the available
    power of the bus is summed in float32 while the units are then loaded in float64, so the bus
    is out of balance by about 1e-8 of the load (1e8 times the float64 rounding the property
    allows). The same flags as bool give 1e-16.

Exit status 1: property violated; 0: holds.
"""
import logging
import sys

import numpy as np

from feems.components_model.component_electric import ElectricComponent, ElectricMachine, Genset
from feems.components_model.component_mechanical import Engine
from feems.components_model.utility import IntegrationMethod
from feems.system_model import ElectricPowerSystem
from feems.types_for_feems import NOxCalculationMethod, TypeComponent, TypePower

logging.disable(logging.CRITICAL)

EFF = np.array([[0.25, 0.90], [0.5, 0.93], [0.75, 0.95], [1.0, 0.96]])
BSFC = np.array([[0.25, 230.0], [0.5, 210.0], [0.75, 200.0], [1.0, 205.0]])
N = 4
ON_1 = [1, 1, 0, 1]
ON_2 = [1, 0, 1, 1]


def genset(name, rated_power, switchboard_id):
    engine = Engine(
        type_=TypeComponent.AUXILIARY_ENGINE,
        name=name + " engine",
        rated_power=rated_power * 1.1,
        rated_speed=900.0,
        bsfc_curve=BSFC,
        nox_calculation_method=NOxCalculationMethod.TIER_2,
    )
    generator = ElectricMachine(
        type_=TypeComponent.GENERATOR,
        name=name + " generator",
        rated_power=rated_power,
        rated_speed=900.0,
        power_type=TypePower.POWER_SOURCE,
        switchboard_id=switchboard_id,
        eff_curve=EFF,
    )
    return Genset(name, engine, generator)


def build(rated_power_1, rated_power_2, dtype):
    genset_1 = genset("genset 1", rated_power_1, 1)
    genset_2 = genset("genset 2", rated_power_2, 2)
    load = ElectricComponent(
        TypeComponent.OTHER_LOAD,
        "hotel load",
        500.0,
        EFF,
        power_type=TypePower.POWER_CONSUMER,
        switchboard_id=1,
    )
    system = ElectricPowerSystem("plant", [genset_1, genset_2, load], [(1, 2)])
    system.set_time_interval(60.0, IntegrationMethod.simpson)
    genset_1.status = np.array(ON_1, dtype=dtype)
    genset_2.status = np.array(ON_2, dtype=dtype)
    load.set_power_input_from_output(np.array([100.0, 200.0, 300.0, 400.0]))
    return system


def imbalance(system):
    # one bus: the bus-tie breaker is closed throughout
    worst = 0.0
    for t in range(N):
        at = lambda x: float(np.atleast_1d(x)[t] if np.size(x) > 1 else np.atleast_1d(x)[0])
        supplied = sum(at(c.power_output) for c in system.power_sources)
        drawn = sum(at(c.power_input) for c in system.other_load)
        worst = max(worst, abs(supplied - drawn) / max(1.0, abs(supplied), abs(drawn)))
    return worst


violated = False
TOLERANCE = 1e-12  # float64 rounding is about 1e-16

print("(a) compact integer flags, rated power a Python int (1000 kW, 500 kW)")
for dtype in (bool, np.int64, np.int8, np.uint8):
    try:
        system = build(1000, 500, dtype)
        system.do_power_balance_calculation()
        worst = imbalance(system)
        print("   status dtype %-6s worst relative imbalance %.2e" % (np.dtype(dtype).name, worst))
        violated |= worst > TOLERANCE
    except Exception as error:  # noqa
        violated = True
        print(
            "   status dtype %-6s REFUSED with %s: %s"
            % (np.dtype(dtype).name, type(error).__name__, error)
        )

print("(b) float flags, rated power 1234.5678 kW and 777.7 kW")
for dtype in (bool, np.float64, np.float32):
    system = build(1234.5678, 777.7, dtype)
    system.do_power_balance_calculation()
    worst = imbalance(system)
    print("   status dtype %-8s worst relative imbalance %.2e" % (np.dtype(dtype).name, worst))
    violated |= worst > TOLERANCE

if violated:
    print("PROPERTY VIOLATED: the same on/off series, in a representation numpy users commonly")
    print("hold it in, is refused or leaves the bus out of balance beyond float64 rounding.")
    sys.exit(1)
print("property holds")
sys.exit(0)
