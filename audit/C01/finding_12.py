"""C01 finding 1 - a second run_simulation on the same plant with a load series of another
length is refused when the plant has a PTI/PTO that shares the bus load (mode 0).

run_simulation() is the public entry point that starts the sources (through a simulation
interface) and then does the electric power balance.  Its first statement,
ElectricPowerSystem.get_sum_consumption_kw_sources_switchboard(), adds the PTI/PTO sum of each
switchboard to the consumer sum.  For a PTI/PTO in load-sharing mode 0 the power_input is a RESULT
of the previous balance (do_power_balance_calculation() itself knows that and resets it in its
validation step), but here its stale length is used:  consumers (3 points) + zeros(5 points)
-> ValueError.  The same inputs are balanced without complaint by
ElectricPowerSystem.do_power_balance_calculation() (control below).

Exit status 1: the property "after an electric power-balance calculation the buses are balanced"
cannot even be evaluated - valid inputs are refused (or, if it ran, the buses are out of balance).
Exit status 0: both runs are balanced.
"""
import logging
import sys

import numpy as np

logging.disable(logging.CRITICAL)

from feems.components_model.component_electric import (
    ElectricComponent,
    ElectricMachine,
    Genset,
    PTIPTO,
)
from feems.components_model.component_mechanical import Engine
from feems.components_model.utility import IntegrationMethod
from feems.runsimulation import EqualEngineSizeAllClosedSimulationInterface, run_simulation
from feems.system_model import ElectricPowerSystem
from feems.types_for_feems import TypeComponent, TypePower

BSFC = np.array([[0.25, 220.0], [0.5, 200.0], [0.75, 190.0], [1.0, 195.0]])
EFF = np.array([[0.25, 0.90], [0.5, 0.94], [0.75, 0.96], [1.0, 0.965]])


def build():
    engine = Engine(
        type_=TypeComponent.AUXILIARY_ENGINE,
        name="engine",
        rated_power=1100,
        rated_speed=900,
        bsfc_curve=BSFC,
    )
    generator = ElectricMachine(
        type_=TypeComponent.GENERATOR,
        name="generator",
        rated_power=1000,
        rated_speed=900,
        power_type=TypePower.POWER_SOURCE,
        switchboard_id=1,
        eff_curve=EFF,
    )
    genset = Genset("genset", engine, generator)
    load = ElectricComponent(
        TypeComponent.OTHER_LOAD,
        "hotel load",
        1000,
        np.array([1.0]),
        power_type=TypePower.POWER_CONSUMER,
        switchboard_id=1,
    )
    machine = ElectricMachine(
        type_=TypeComponent.SYNCHRONOUS_MACHINE,
        power_type=TypePower.PTI_PTO,
        name="shaft machine",
        rated_power=600,
        rated_speed=900,
        eff_curve=EFF,
    )
    pti_pto = PTIPTO("PTI/PTO", [machine], 1, 600, 900, shaft_line_id=1)
    system = ElectricPowerSystem("plant", [genset, load, pti_pto], [])
    system.set_time_interval(60.0, IntegrationMethod.sum_with_time)
    return system


def imbalance(system, n):
    """largest |sources - (consumers + PTI/PTO + storage)| on the single bus, relative"""

    def series(x):
        x = np.atleast_1d(np.asarray(x, dtype=float))
        return x if x.size == n else np.full(n, x[0])

    delivered = sum(series(c.power_output) for c in system.power_sources)
    drawn = sum(
        series(c.power_input)
        for c in system.other_load
        + system.propulsion_drives
        + system.pti_pto
        + system.energy_storage
    )
    return float(np.max(np.abs(delivered - drawn) / np.maximum(1.0, np.abs(drawn))))


def set_inputs(system, n):
    # every INPUT of the calculation is given anew with the new length
    system.other_load[0].set_power_input_from_output(np.linspace(200.0, 700.0, n))
    system.pti_pto[0].status = np.ones(n, dtype=bool)  # running, load sharing mode 0 (default)
    system.pti_pto[0].load_sharing_mode = np.zeros(1)


violated = False

# control: the direct entry point takes the two series one after the other
control = build()
for n in (5, 3):
    set_inputs(control, n)
    control.power_sources[0].status = np.ones(n, dtype=bool)
    control.do_power_balance_calculation()
    print(f"do_power_balance_calculation, {n} points: imbalance {imbalance(control, n):.2e}")

system = build()
interface = EqualEngineSizeAllClosedSimulationInterface(
    swb2n_gensets={1: 1},
    rated_power_gensets=1000,
    n_bus_ties=0,
    maximum_allowable_genset_load_percentage=0.8,
)
for n in (5, 3):
    set_inputs(system, n)
    try:
        run_simulation(system, interface)
    except Exception as error:  # the inputs are valid: a refusal is the finding
        print(f"run_simulation, {n} points: REFUSED with {type(error).__name__}: {error}")
        print(
            "   stale power_input of the PTI/PTO (a result of the previous balance): "
            f"{np.size(system.pti_pto[0].power_input)} points"
        )
        violated = True
        continue
    err = imbalance(system, n)
    print(f"run_simulation, {n} points: imbalance {err:.2e}")
    if not err < 1e-9:
        violated = True

print("PROPERTY VIOLATED" if violated else "property holds")
sys.exit(1 if violated else 0)
