"""C01 finding 1: a bus-tie breaker sequence is silently ignored when every other input of the
plant is a single value (constant loads, sources on for the whole series).

Two switchboards, one genset and one constant load each, one bus-tie breaker operated
closed -> open -> closed.  The balance is worked out for the first breaker position only; the
single value it returns for each genset stands for all three steps, so at the step where the breaker
is open neither island is balanced (200 kW too much on one side, 200 kW too little on the other).

exit status 1: property violated (current code), 0: property holds
"""
import logging
import sys

import numpy as np

from feems.components_model.component_electric import ElectricComponent, ElectricMachine, Genset
from feems.components_model.component_mechanical import Engine
from feems.components_model.utility import IntegrationMethod
from feems.system_model import ElectricPowerSystem
from feems.types_for_feems import TypeComponent, TypePower

logging.disable(logging.CRITICAL)

BSFC = np.array([[0.25, 230.0], [0.5, 210.0], [0.75, 200.0], [1.0, 205.0]])
EFF = np.array([[0.25, 0.93], [0.5, 0.95], [0.75, 0.96], [1.0, 0.965]])


def genset(name, p, swb):
    eng = Engine(type_=TypeComponent.AUXILIARY_ENGINE, name="engine " + name, rated_power=p / 0.95,
                 rated_speed=900, bsfc_curve=BSFC)
    gen = ElectricMachine(type_=TypeComponent.GENERATOR, name="generator " + name, rated_power=p,
                          rated_speed=900, power_type=TypePower.POWER_SOURCE, switchboard_id=swb,
                          eff_curve=EFF)
    return Genset(name, eng, gen)


def load(name, p, swb):
    return ElectricComponent(type_=TypeComponent.OTHER_LOAD, name=name, rated_power=p,
                             eff_curve=np.array([1.0]), power_type=TypePower.POWER_CONSUMER,
                             switchboard_id=swb)


def build(n_values):
    """n_values = 1: loads and status as single values; n_values = 3: the same written as series"""
    g1, g2 = genset("g1", 1000.0, 1), genset("g2", 1000.0, 2)
    l1, l2 = load("l1", 1000.0, 1), load("l2", 1000.0, 2)
    system = ElectricPowerSystem("plant", [g1, g2, l1, l2], [(1, 2)])
    system.set_time_interval(60.0, IntegrationMethod.sum_with_time)
    g1.status = np.ones(n_values, dtype=bool)
    g2.status = np.ones(n_values, dtype=bool)
    l1.set_power_input_from_output(np.full(n_values, 100.0))
    l2.set_power_input_from_output(np.full(n_values, 500.0))
    # breaker closed, open, closed
    system.set_bus_tie_status_all(np.array([[True], [False], [True]]))
    return system


def at(x, k, n):
    x = np.atleast_1d(np.asarray(x, dtype=float))
    if x.size == 1:  # a single value stands for the whole series
        return x[0]
    assert x.size == n
    return x[k]


def groups(system, k):
    ids = list(system.switchboards)
    rep = {i: i for i in ids}
    for breaker in system.bus_tie_breakers:
        st = np.atleast_1d(breaker.status)
        if st[k] if st.size > 1 else st[0]:
            a, b = rep[breaker.switchboard_ids[0]], rep[breaker.switchboard_ids[1]]
            for i in ids:
                if rep[i] == b:
                    rep[i] = a
    out = {}
    for i in ids:
        out.setdefault(rep[i], []).append(i)
    return list(out.values())


def worst_residual(system, n):
    worst = 0.0
    for k in range(n):
        for group in groups(system, k):
            delivered = drawn = 0.0
            for swb_id in group:
                swb = system.switchboards[swb_id]
                for c in swb.component_by_power_type[TypePower.POWER_SOURCE.value]:
                    delivered += at(c.power_output, k, n)
                for t in (TypePower.POWER_CONSUMER, TypePower.PTI_PTO, TypePower.ENERGY_STORAGE):
                    for c in swb.component_by_power_type[t.value]:
                        drawn += at(c.power_input, k, n)
            print(f"   step {k}, switchboards {group}: delivered {delivered:8.2f} kW, "
                  f"drawn {drawn:8.2f} kW, difference {delivered - drawn:8.2f} kW")
            worst = max(worst, abs(delivered - drawn))
    return worst


n = 3
print("Control: the same plant with the loads and the status written as series of 3 equal values")
control = build(3)
control.do_power_balance_calculation()
worst_control = worst_residual(control, n)

print("Case: loads and status as single values, breaker closed / open / closed")
system = build(1)
system.do_power_balance_calculation()
for source in system.power_sources:
    print(f"   {source.name}.power_output = {source.power_output}")
worst = worst_residual(system, n)

print(f"worst imbalance: control {worst_control:.3g} kW, case {worst:.3g} kW")
if worst > 1e-6:
    print("VIOLATED: the breaker sequence was ignored; the islands of step 1 are out of balance")
    sys.exit(1)
print("holds")
sys.exit(0)
