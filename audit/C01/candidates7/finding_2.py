"""C01 finding 2: a plant whose power sources are simply ON for the whole series (status given as a
single value) cannot be balanced over a load series.

The code says itself that a single value stands for the whole series (Switchboard.
set_power_out_power_sources, ElectricPowerSystem.get_bus_tie_status, the validation of the inputs),
and it does accept a single-value status as soon as ANOTHER switchboard carries a status series.
But
  A. when no source of the plant has a status series, the calculation stops with an IndexError in
     do_power_balance_calculation (available power has 1 value, the load has n);
  B. when one source keeps its single value next to a source of the SAME switchboard that has a
     series (e.g. after Switchboard.set_status_component_by_power_type_name for one genset), it is
     refused with InputError.
Both groups have a running unit at every step, so the property demands a balanced result.

exit status 1: property violated (current code), 0: property holds
"""
import logging
import sys

import numpy as np

from feems.components_model.component_electric import ElectricComponent, ElectricMachine, Genset
from feems.components_model.component_mechanical import Engine
from feems.components_model.utility import IntegrationMethod
from feems.system_model import ElectricPowerSystem
from feems.types_for_feems import TypeComponent, TypePower

logging.disable(logging.CRITICAL)

BSFC = np.array([[0.25, 230.0], [0.5, 210.0], [0.75, 200.0], [1.0, 205.0]])
EFF = np.array([[0.25, 0.93], [0.5, 0.95], [0.75, 0.96], [1.0, 0.965]])
LOAD = np.array([100.0, 200.0, 300.0])


def genset(name, p, swb):
    eng = Engine(type_=TypeComponent.AUXILIARY_ENGINE, name="engine " + name, rated_power=p / 0.95,
                 rated_speed=900, bsfc_curve=BSFC)
    gen = ElectricMachine(type_=TypeComponent.GENERATOR, name="generator " + name, rated_power=p,
                          rated_speed=900, power_type=TypePower.POWER_SOURCE, switchboard_id=swb,
                          eff_curve=EFF)
    return Genset(name, eng, gen)


def load(name, p, swb):
    return ElectricComponent(type_=TypeComponent.OTHER_LOAD, name=name, rated_power=p,
                             eff_curve=np.array([1.0]), power_type=TypePower.POWER_CONSUMER,
                             switchboard_id=swb)


def imbalance(system):
    """one bus (all breakers closed / one switchboard): sources against consumers, per step"""
    delivered = sum(np.broadcast_to(c.power_output, LOAD.shape) for c in system.power_sources)
    drawn = sum(np.broadcast_to(c.power_input, LOAD.shape) for c in system.other_load)
    return float(np.max(np.abs(delivered - drawn)))


def case_a():
    g1, l1 = genset("g1", 1000.0, 1), load("l1", 1000.0, 1)
    system = ElectricPowerSystem("plant A", [g1, l1], [])
    system.set_time_interval(60.0, IntegrationMethod.sum_with_time)
    g1.status = np.ones(1, dtype=bool)  # on, for the whole series
    l1.set_power_input_from_output(LOAD)
    system.do_power_balance_calculation()
    return system


def case_b():
    g1, g2, l1 = genset("g1", 1000.0, 1), genset("g2", 1000.0, 1), load("l1", 1000.0, 1)
    system = ElectricPowerSystem("plant B", [g1, g2, l1], [])
    system.set_time_interval(60.0, IntegrationMethod.sum_with_time)
    g1.status = np.ones(1, dtype=bool)  # on, for the whole series
    system.switchboards[1].set_status_component_by_power_type_name(
        status=np.array([True, False, True]), name="g2"
    )
    l1.set_power_input_from_output(LOAD)
    system.do_power_balance_calculation()
    return system


def control():
    """accepted today: the single-value status sits on another switchboard than the series"""
    g1, g2, l1 = genset("g1", 1000.0, 1), genset("g2", 1000.0, 2), load("l1", 1000.0, 1)
    system = ElectricPowerSystem("control", [g1, g2, l1], [(1, 2)])
    system.set_time_interval(60.0, IntegrationMethod.sum_with_time)
    g1.status = np.ones(1, dtype=bool)
    g2.status = np.array([True, False, True])
    l1.set_power_input_from_output(LOAD)
    system.do_power_balance_calculation()
    return system


violated = False
for title, case in (("control (two switchboards)", control), ("A (no status series at all)", case_a),
                    ("B (single value and series on one switchboard)", case_b)):
    try:
        system = case()
    except Exception as e:  # noqa
        print(f"{title}: REFUSED with {type(e).__name__}: {e}")
        violated = True
        continue
    worst = imbalance(system)
    print(f"{title}: balanced, worst difference {worst:.3g} kW; outputs "
          f"{[np.round(c.power_output, 2).tolist() for c in system.power_sources]}")
    if worst > 1e-6:
        violated = True

if violated:
    print("VIOLATED: a valid plant with a running unit at every step is not balanced")
    sys.exit(1)
print("holds")
sys.exit(0)
