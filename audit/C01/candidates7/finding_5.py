"""C01 finding 5 (alternative entry point): feems.runsimulation.run_simulation with the
BatteryFuelCellDieselHybridSimulationInterface refuses a plant in which one switchboard feeds no
consumer.

Two switchboards joined by a closed bus-tie breaker, a genset on each, the only load on
switchboard 2, a series of three loads.  ElectricPowerSystem.
get_sum_consumption_kw_sources_switchboard reports a single value (0) for the switchboard without
consumers; the interface takes the series length from the first switchboard and asserts that all
the others have the same length -> AssertionError, no balance.  The other interface of the same
module (EqualEngineSizeAllClosedSimulationInterface) was repaired for exactly this layout and
balances the plant; doing the calculation by hand (status set directly) balances it too.

exit status 1: property violated (current code), 0: property holds
"""
import logging
import sys

import numpy as np

from feems.components_model.component_electric import ElectricComponent, ElectricMachine, Genset
from feems.components_model.component_mechanical import Engine
from feems.components_model.utility import IntegrationMethod
from feems.runsimulation import (
    BatteryFuelCellDieselHybridSimulationInterface,
    EqualEngineSizeAllClosedSimulationInterface,
    run_simulation,
)
from feems.simulation_interface import EnergySourceType
from feems.system_model import ElectricPowerSystem
from feems.types_for_feems import TypeComponent, TypePower

logging.disable(logging.CRITICAL)

BSFC = np.array([[0.25, 230.0], [0.5, 210.0], [0.75, 200.0], [1.0, 205.0]])
EFF = np.array([[0.25, 0.93], [0.5, 0.95], [0.75, 0.96], [1.0, 0.965]])
LOAD = np.array([100.0, 200.0, 300.0])


def genset(name, p, swb):
    eng = Engine(type_=TypeComponent.AUXILIARY_ENGINE, name="engine " + name, rated_power=p / 0.95,
                 rated_speed=900, bsfc_curve=BSFC)
    gen = ElectricMachine(type_=TypeComponent.GENERATOR, name="generator " + name, rated_power=p,
                          rated_speed=900, power_type=TypePower.POWER_SOURCE, switchboard_id=swb,
                          eff_curve=EFF)
    return Genset(name, eng, gen)


def plant():
    g1, g2 = genset("g1", 1000.0, 1), genset("g2", 1000.0, 2)
    l2 = ElectricComponent(type_=TypeComponent.OTHER_LOAD, name="l2", rated_power=1000.0,
                           eff_curve=np.array([1.0]), power_type=TypePower.POWER_CONSUMER,
                           switchboard_id=2)
    system = ElectricPowerSystem("plant", [g1, g2, l2], [(1, 2)])
    system.set_time_interval(60.0, IntegrationMethod.sum_with_time)
    l2.set_power_input_from_output(LOAD)
    return system


def imbalance(system):
    delivered = sum(np.broadcast_to(c.power_output, LOAD.shape) for c in system.power_sources)
    drawn = sum(np.broadcast_to(c.power_input, LOAD.shape) for c in system.other_load)
    return float(np.max(np.abs(delivered - drawn)))


violated = False
interfaces = (
    ("EqualEngineSizeAllClosedSimulationInterface (control)",
     EqualEngineSizeAllClosedSimulationInterface(
         swb2n_gensets={1: 1, 2: 1}, rated_power_gensets=1000.0, n_bus_ties=1,
         maximum_allowable_genset_load_percentage=0.8)),
    ("BatteryFuelCellDieselHybridSimulationInterface",
     BatteryFuelCellDieselHybridSimulationInterface()),
)
for title, interface in interfaces:
    system = plant()
    try:
        run_simulation(system, interface, EnergySourceType.LNG_DIESEL)
    except BaseException as e:  # noqa  (AssertionError)
        print(f"{title}: REFUSED with {type(e).__name__}: {e}")
        violated = True
        continue
    worst = imbalance(system)
    print(f"{title}: balanced, worst difference {worst:.3g} kW; outputs "
          f"{[np.round(c.power_output, 2).tolist() for c in system.power_sources]}")
    if worst > 1e-6:
        violated = True

if violated:
    print("VIOLATED: a valid plant with running gensets at every step is not balanced")
    sys.exit(1)
print("holds")
sys.exit(0)
