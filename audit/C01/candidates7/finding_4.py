"""C01 finding 4: a switchboard that is fed by a PTI/PTO (shaft generator) only is refused, although
the PTI/PTO is one of the units that can take the balancing load.

Layout: switchboard 1 with a genset and a load, switchboard 2 with a shaft generator (PTIPTO in
load sharing mode 0) and a load, one bus-tie breaker closed / open / closed.  Every connected group
has a running unit that shares the load at every step (the genset, and in island mode the PTO on
switchboard 2), so the layout is inside the property's domain ("any mix of gensets, ..., PTI/PTO,
drives, loads").  ElectricPowerSystem.__init__ raises ConfigurationError "Swb id=2 has no power
source or energy storage": the test looks at power sources and energy storage only, while the rest
of the code (available power, load sharing) treats a PTI/PTO exactly like an energy-storage unit.
With that one test relaxed the plant is balanced to 1e-14 kW at every step, islands included.

exit status 1: property violated (current code), 0: property holds
"""
import logging
import sys

import numpy as np

from feems.components_model.component_electric import (
    ElectricComponent, ElectricMachine, Genset, PTIPTO,
)
from feems.components_model.component_mechanical import Engine
from feems.components_model.utility import IntegrationMethod
from feems.system_model import ElectricPowerSystem
from feems.types_for_feems import TypeComponent, TypePower

logging.disable(logging.CRITICAL)

BSFC = np.array([[0.25, 230.0], [0.5, 210.0], [0.75, 200.0], [1.0, 205.0]])
EFF = np.array([[0.25, 0.93], [0.5, 0.95], [0.75, 0.96], [1.0, 0.965]])
N = 3


def genset(name, p, swb):
    eng = Engine(type_=TypeComponent.AUXILIARY_ENGINE, name="engine " + name, rated_power=p / 0.95,
                 rated_speed=900, bsfc_curve=BSFC)
    gen = ElectricMachine(type_=TypeComponent.GENERATOR, name="generator " + name, rated_power=p,
                          rated_speed=900, power_type=TypePower.POWER_SOURCE, switchboard_id=swb,
                          eff_curve=EFF)
    return Genset(name, eng, gen)


def load(name, p, swb):
    return ElectricComponent(type_=TypeComponent.OTHER_LOAD, name=name, rated_power=p,
                             eff_curve=np.array([1.0]), power_type=TypePower.POWER_CONSUMER,
                             switchboard_id=swb)


def pti_pto(name, p, swb):
    machine = ElectricMachine(type_=TypeComponent.SYNCHRONOUS_MACHINE, name="machine " + name,
                              rated_power=p, rated_speed=900, power_type=TypePower.PTI_PTO,
                              eff_curve=EFF)
    inverter = ElectricComponent(type_=TypeComponent.INVERTER, name="inverter " + name,
                                 rated_power=p, eff_curve=np.array([0.98]),
                                 power_type=TypePower.POWER_TRANSMISSION)
    return PTIPTO(name=name, components=[inverter, machine], switchboard_id=swb, rated_power=p,
                  rated_speed=900, shaft_line_id=1)


g1, p = genset("g1", 1000.0, 1), pti_pto("shaft generator", 500.0, 2)
l1, l2 = load("l1", 1000.0, 1), load("l2", 1000.0, 2)
breaker = np.array([[True], [False], [True]])
try:
    system = ElectricPowerSystem("plant", [g1, p, l1, l2], [(1, 2)])
    system.set_time_interval(60.0, IntegrationMethod.sum_with_time)
    system.set_bus_tie_status_all(breaker)
    g1.status = np.ones(N, dtype=bool)
    p.status = np.ones(N, dtype=bool)
    p.load_sharing_mode = np.zeros(N)
    l1.set_power_input_from_output(np.array([100.0, 200.0, 300.0]))
    l2.set_power_input_from_output(np.array([50.0, 60.0, 70.0]))
    system.do_power_balance_calculation()
except Exception as e:  # noqa
    print(f"REFUSED with {type(e).__name__}: {e}")
    print("VIOLATED: a layout in which every group has a load-sharing unit is not balanced")
    sys.exit(1)

worst = 0.0
for k in range(N):
    groups = [[1, 2]] if breaker[k, 0] else [[1], [2]]
    for group in groups:
        delivered = sum(g1.power_output[k] for s in group if s == 1)
        drawn = sum((l1.power_input[k] if s == 1 else l2.power_input[k] + p.power_input[k])
                    for s in group)
        print(f"step {k}, switchboards {group}: delivered {delivered:.3f} kW, drawn {drawn:.3f} kW")
        worst = max(worst, abs(delivered - drawn))
if worst > 1e-6:
    print("VIOLATED")
    sys.exit(1)
print("holds")
sys.exit(0)
