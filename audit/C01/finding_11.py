"""C01 finding 4: a constant given power of an energy-storage unit or PTI/PTO stated as a Python
float - which the setter's signature allows: set_power_output_from_input(power_input:
Union[float, np.ndarray]) - is refused by the validator of the electric power balance with
AttributeError: 'float' object has no attribute 'size'. The same float is accepted for a consumer,
and np.array([50.]) / np.float64(50.) are accepted for the battery.

Exit status 1: property violated (valid input refused / bus not balanced); 0: holds.
"""
import logging
import sys

import numpy as np

from feems.components_model.component_electric import (
    Battery,
    ElectricComponent,
    ElectricMachine,
    Genset,
    PTIPTO,
)
from feems.components_model.component_mechanical import Engine
from feems.components_model.utility import IntegrationMethod
from feems.system_model import ElectricPowerSystem
from feems.types_for_feems import NOxCalculationMethod, TypeComponent, TypePower

logging.disable(logging.CRITICAL)

EFF = np.array([[0.25, 0.90], [0.5, 0.93], [0.75, 0.95], [1.0, 0.96]])
BSFC = np.array([[0.25, 230.0], [0.5, 210.0], [0.75, 200.0], [1.0, 205.0]])
N = 4


def build():
    engine = Engine(
        type_=TypeComponent.AUXILIARY_ENGINE,
        name="engine",
        rated_power=1100.0,
        rated_speed=900.0,
        bsfc_curve=BSFC,
        nox_calculation_method=NOxCalculationMethod.TIER_2,
    )
    generator = ElectricMachine(
        type_=TypeComponent.GENERATOR,
        name="generator",
        rated_power=1000.0,
        rated_speed=900.0,
        power_type=TypePower.POWER_SOURCE,
        switchboard_id=1,
        eff_curve=EFF,
    )
    genset = Genset("genset", engine, generator)
    battery = Battery("battery", 500.0, 1.0, 1.0, switchboard_id=1)
    machine = ElectricMachine(
        type_=TypeComponent.SYNCHRONOUS_MACHINE,
        name="shaft machine",
        rated_power=300.0,
        rated_speed=900.0,
        power_type=TypePower.PTI_PTO,
        eff_curve=EFF,
    )
    converter = ElectricComponent(
        TypeComponent.POWER_CONVERTER,
        "converter",
        300.0,
        EFF,
        power_type=TypePower.POWER_TRANSMISSION,
        switchboard_id=1,
    )
    pti_pto = PTIPTO("pti/pto", [converter, machine], 1, 300.0, 900.0)
    load = ElectricComponent(
        TypeComponent.OTHER_LOAD,
        "hotel load",
        500.0,
        EFF,
        power_type=TypePower.POWER_CONSUMER,
        switchboard_id=1,
    )
    aux = ElectricComponent(
        TypeComponent.OTHER_LOAD,
        "constant load",
        100.0,
        EFF,
        power_type=TypePower.POWER_CONSUMER,
        switchboard_id=1,
    )
    system = ElectricPowerSystem("plant", [genset, battery, pti_pto, load, aux], [])
    system.set_time_interval(60.0, IntegrationMethod.simpson)
    genset.status = np.ones(N, dtype=bool)
    battery.status = np.ones(N, dtype=bool)
    pti_pto.status = np.ones(N, dtype=bool)
    battery.load_sharing_mode = np.ones(1)  # given power
    pti_pto.load_sharing_mode = np.ones(1)  # given power
    battery.set_power_output_from_input(np.array([0.0]))
    pti_pto.set_power_output_from_input(np.array([0.0]))
    load.set_power_input_from_output(np.array([100.0, 200.0, 300.0, 400.0]))
    aux.set_power_output_from_input(40.0)  # a Python float: fine for a consumer
    return system, genset, battery, pti_pto


def imbalance(system):
    worst = 0.0
    for t in range(N):
        at = lambda x: float(np.atleast_1d(x)[t] if np.size(x) > 1 else np.atleast_1d(x)[0])
        supplied = sum(at(c.power_output) for c in system.power_sources)
        drawn = sum(
            at(c.power_input)
            for c in system.other_load
            + system.propulsion_drives
            + system.pti_pto
            + system.energy_storage
        )
        worst = max(worst, abs(supplied - drawn) / max(1.0, abs(supplied), abs(drawn)))
    return worst


violated = False
cases = [
    ("battery charged with np.array([50.])", "battery", np.array([50.0])),
    ("battery charged with np.float64(50.)", "battery", np.float64(50.0)),
    ("battery charged with 50.0 (Python float)", "battery", 50.0),
    ("PTI/PTO motoring with np.array([50.])", "pti_pto", np.array([50.0])),
    ("PTI/PTO motoring with 50.0 (Python float)", "pti_pto", 50.0),
]
for text, which, value in cases:
    system, genset, battery, pti_pto = build()
    component = battery if which == "battery" else pti_pto
    component.set_power_output_from_input(value)
    try:
        system.do_power_balance_calculation()
    except Exception as error:  # noqa
        violated = True
        print("%-45s REFUSED with %s: %s" % (text, type(error).__name__, error))
    else:
        worst = imbalance(system)
        print("%-45s worst relative imbalance %.2e" % (text, worst))
        violated |= worst > 1e-9

if violated:
    print("PROPERTY VIOLATED: a plant inside the domain (one bus, a running genset that takes the")
    print("balancing load) gets no power balance when the constant is a Python float.")
    sys.exit(1)
print("property holds")
sys.exit(0)
