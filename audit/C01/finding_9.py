"""C01 finding 2: a second power balance on the same objects is refused because of the RESULT the
first balance left in a load-sharing (balancing) battery or PTI/PTO.

Run 1: 5 steps. Run 2: new inputs with 3 steps - a constant consumer (one value) and an on/off
series of 3 steps for the genset. The battery shares the load in both runs, so its power is an
output of the balance, not an input of the user. The validator takes the length of the series from
the battery's stale 5-step power_input (it does so only when every consumer is a constant), sizes
the battery to 5 steps and the balance then fails to broadcast 5 against 3.
The same second run is accepted (a) on fresh objects and (b) when the constant consumer is written
out as a 3-step series.

Exit status 1: property violated (valid input refused / bus not balanced); 0: holds.
"""
import logging
import sys

import numpy as np

from feems.components_model.component_electric import (
    Battery,
    ElectricComponent,
    ElectricMachine,
    Genset,
)
from feems.components_model.component_mechanical import Engine
from feems.components_model.utility import IntegrationMethod
from feems.system_model import ElectricPowerSystem
from feems.types_for_feems import NOxCalculationMethod, TypeComponent, TypePower

logging.disable(logging.CRITICAL)

EFF = np.array([[0.25, 0.90], [0.5, 0.93], [0.75, 0.95], [1.0, 0.96]])
BSFC = np.array([[0.25, 230.0], [0.5, 210.0], [0.75, 200.0], [1.0, 205.0]])


def build():
    engine = Engine(
        type_=TypeComponent.AUXILIARY_ENGINE,
        name="engine",
        rated_power=1100.0,
        rated_speed=900.0,
        bsfc_curve=BSFC,
        nox_calculation_method=NOxCalculationMethod.TIER_2,
    )
    generator = ElectricMachine(
        type_=TypeComponent.GENERATOR,
        name="generator",
        rated_power=1000.0,
        rated_speed=900.0,
        power_type=TypePower.POWER_SOURCE,
        switchboard_id=1,
        eff_curve=EFF,
    )
    genset = Genset("genset", engine, generator)
    battery = Battery("battery", 500.0, 1.0, 1.0, switchboard_id=1)
    load = ElectricComponent(
        TypeComponent.OTHER_LOAD,
        "hotel load",
        500.0,
        EFF,
        power_type=TypePower.POWER_CONSUMER,
        switchboard_id=1,
    )
    system = ElectricPowerSystem("plant", [genset, battery, load], [])
    system.set_time_interval(60.0, IntegrationMethod.simpson)
    return system, genset, battery, load


def imbalance(system, n):
    worst = 0.0
    for t in range(n):
        at = lambda x: float(np.atleast_1d(x)[t] if np.size(x) > 1 else np.atleast_1d(x)[0])
        supplied = sum(at(c.power_output) for c in system.power_sources)
        drawn = sum(
            at(c.power_input)
            for c in system.other_load
            + system.propulsion_drives
            + system.pti_pto
            + system.energy_storage
        )
        worst = max(worst, abs(supplied - drawn) / max(1.0, abs(supplied), abs(drawn)))
    return worst


def set_inputs_run_2(genset, battery, load, load_power):
    genset.status = np.array([True, False, True])  # the battery carries step 1 alone
    battery.status = np.ones(3, dtype=bool)
    battery.load_sharing_mode = np.zeros(1)  # shares the load (balancing mode), as before
    load.set_power_input_from_output(load_power)


violated = False

# (a) the inputs of run 2 on fresh objects: accepted and balanced
system, genset, battery, load = build()
set_inputs_run_2(genset, battery, load, np.array([250.0]))
system.do_power_balance_calculation()
print("run-2 inputs on fresh objects: worst relative imbalance %.2e" % imbalance(system, 3))
print("   genset ", genset.power_output, " battery ", battery.power_input)

# run 1 (5 steps), then run 2 on the same objects
system, genset, battery, load = build()
genset.status = np.ones(5, dtype=bool)
battery.status = np.ones(5, dtype=bool)
load.set_power_input_from_output(np.array([100.0, 200.0, 300.0, 400.0, 500.0]))
system.do_power_balance_calculation()
print("run 1 (5 steps): worst relative imbalance %.2e" % imbalance(system, 5))

set_inputs_run_2(genset, battery, load, np.array([250.0]))
try:
    system.do_power_balance_calculation()
except Exception as error:  # noqa
    violated = True
    print(
        "run 2 (3 steps, constant consumer) on the same objects: REFUSED with %s: %s"
        % (type(error).__name__, error)
    )
else:
    n = max(np.size(genset.power_output), 3)
    worst = imbalance(system, n)
    print("run 2 on the same objects: %d steps, worst relative imbalance %.2e" % (n, worst))
    violated = worst > 1e-9 or n != 3

# (b) run 2 with the constant written out: accepted (the validator then resets the battery)
set_inputs_run_2(genset, battery, load, np.array([250.0, 250.0, 250.0]))
system.do_power_balance_calculation()
print(
    "run 2 with the consumer as a 3-step series: worst relative imbalance %.2e"
    % imbalance(system, 3)
)

if violated:
    print("PROPERTY VIOLATED: inputs inside the domain (every step has a running balancing unit:")
    print("genset and/or battery) get no power balance on objects that were balanced before.")
    sys.exit(1)
print("property holds")
sys.exit(0)
