"""C01 finding 5: a plant with several switchboards and NO bus-tie breaker (independent islands)
is refused at construction ("There should be only one switchboard when there is no bus tie
breaker"), although the same islands are accepted as soon as one breaker is declared anywhere
(e.g. a breaker that is always open, or a breaker between two other switchboards).
Exit 1 = property violated (valid layout refused), 0 = holds."""
import logging
import sys

import numpy as np

logging.disable(logging.CRITICAL)

from feems.components_model.component_electric import (
    Battery, ElectricComponent, ElectricMachine, Genset, PTIPTO,
)
from feems.components_model.component_mechanical import Engine
from feems.components_model.utility import IntegrationMethod
from feems.system_model import ElectricPowerSystem
from feems.types_for_feems import TypeComponent, TypePower, NOxCalculationMethod

EFF = np.array([[0.25, 0.5, 0.75, 1.0], [0.90, 0.93, 0.95, 0.96]]).T
BSFC = np.array([[0.25, 0.5, 0.75, 1.0], [230.0, 210.0, 200.0, 205.0]]).T


def genset(name, p, swb):
    gen = ElectricMachine(type_=TypeComponent.GENERATOR, name="gen " + name, rated_power=p,
                          rated_speed=900, power_type=TypePower.POWER_SOURCE,
                          switchboard_id=swb, eff_curve=EFF)
    eng = Engine(type_=TypeComponent.AUXILIARY_ENGINE, name="eng " + name, rated_power=p / 0.95,
                 rated_speed=900, bsfc_curve=BSFC,
                 nox_calculation_method=NOxCalculationMethod.TIER_2)
    return Genset(name, eng, gen)


def load(name, swb):
    return ElectricComponent(type_=TypeComponent.OTHER_LOAD, name=name, rated_power=3000.0,
                             eff_curve=np.array([1.0]), power_type=TypePower.POWER_CONSUMER,
                             switchboard_id=swb)


def at(x, t):
    x = np.atleast_1d(x)
    return float(x[t] if x.size > 1 else x[0])


def group_residuals(system, groups_per_step):
    """groups_per_step[t] = list of lists of switchboard ids that are connected at step t
    (written down by hand from the breaker statuses, not taken from the system)."""
    worst = 0.0
    for t, groups in enumerate(groups_per_step):
        for group in groups:
            src = dem = 0.0
            for swb_id in group:
                swb = system.switchboards[swb_id]
                for c in swb.component_by_power_type[TypePower.POWER_SOURCE.value]:
                    src += at(c.power_output, t)
                for tp in (TypePower.POWER_CONSUMER, TypePower.PTI_PTO, TypePower.ENERGY_STORAGE):
                    for c in swb.component_by_power_type[tp.value]:
                        dem += at(c.power_input, t)
            print("   step %d group %s: sources %.6f kW, drawn %.6f kW" % (t, group, src, dem))
            r = abs(src - dem) / max(1.0, abs(src))
            worst = max(worst, r if np.isfinite(r) else np.inf)
    return worst

N = 3


def components():
    comps = [genset("g1", 1000.0, 1), genset("g2", 1000.0, 2), load("l1", 1), load("l2", 2)]
    for g in comps[:2]:
        g.status = np.ones(N, dtype=bool)
        g.load_sharing_mode = np.zeros(N)
    comps[2].power_input = np.array([100.0, 200.0, 300.0])
    comps[3].power_input = np.array([400.0, 500.0, 600.0])
    return comps


expected_groups = [[[1], [2]]] * N
violated = False
print("(a) two switchboards, bus_tie_connections=[] (two islands)")
try:
    system = ElectricPowerSystem("plant", components(), [])
    system.set_time_interval(60.0, IntegrationMethod.simpson)
    system.do_power_balance_calculation()
    w = group_residuals(system, expected_groups)
    print("   worst relative residual %.2e" % w)
    violated |= not (w <= 1e-9)
except Exception as e:  # noqa
    print("   REFUSED: %s: %s" % (type(e).__name__, e))
    violated = True

print("control 1: the same plant with a breaker that is declared and kept open")
system = ElectricPowerSystem("plant", components(), [(1, 2)])
system.set_time_interval(60.0, IntegrationMethod.simpson)
system.set_bus_tie_status_all(np.zeros((N, 1), dtype=bool))
system.do_power_balance_calculation()
print("   worst relative residual %.2e" % group_residuals(system, expected_groups))

print("control 2: three switchboards, one breaker 1-2, switchboard 3 is an island: accepted")
comps = components() + [genset("g3", 1000.0, 3), load("l3", 3)]
comps[4].status = np.ones(N, dtype=bool)
comps[4].load_sharing_mode = np.zeros(N)
comps[5].power_input = np.array([10.0, 20.0, 30.0])
system = ElectricPowerSystem("plant", comps, [(1, 2)])
system.set_time_interval(60.0, IntegrationMethod.simpson)
system.do_power_balance_calculation()
print("   worst relative residual %.2e" % group_residuals(system, [[[1, 2], [3]]] * N))

if violated:
    print("VIOLATED: a plant layout (N switchboards, no bus-tie breaker) is refused")
    sys.exit(1)
print("holds")
sys.exit(0)
