"""C01 finding 2: a plant whose power sources keep the load-sharing mode they are constructed with
(np.zeros(1) = "equal sharing", the documented default) cannot be balanced for a series longer
than one step: Switchboard.set_power_out_power_sources indexes the one-element mode array with an
N-element mask and raises IndexError.  The shipped EqualEngineSizeAllClosedSimulationInterface
sets the status series of the gensets but not their load-sharing mode, so run_simulation() with it
fails for every series with more than one point.
Exit 1 = property violated (valid input refused), 0 = holds."""
import logging
import sys

import numpy as np

logging.disable(logging.CRITICAL)

from feems.components_model.component_electric import ElectricComponent, ElectricMachine, Genset
from feems.components_model.component_mechanical import Engine
from feems.components_model.utility import IntegrationMethod
from feems.runsimulation import run_simulation, EqualEngineSizeAllClosedSimulationInterface
from feems.system_model import ElectricPowerSystem
from feems.types_for_feems import TypeComponent, TypePower, NOxCalculationMethod

EFF = np.array([[0.25, 0.5, 0.75, 1.0], [0.90, 0.93, 0.95, 0.96]]).T
BSFC = np.array([[0.25, 0.5, 0.75, 1.0], [230.0, 210.0, 200.0, 205.0]]).T


def genset(name, p, swb):
    gen = ElectricMachine(type_=TypeComponent.GENERATOR, name="gen " + name, rated_power=p,
                          rated_speed=900, power_type=TypePower.POWER_SOURCE,
                          switchboard_id=swb, eff_curve=EFF)
    eng = Engine(type_=TypeComponent.AUXILIARY_ENGINE, name="eng " + name, rated_power=p / 0.95,
                 rated_speed=900, bsfc_curve=BSFC,
                 nox_calculation_method=NOxCalculationMethod.TIER_2)
    return Genset(name, eng, gen)


def load(name, swb):
    return ElectricComponent(type_=TypeComponent.OTHER_LOAD, name=name, rated_power=3000.0,
                             eff_curve=np.array([1.0]), power_type=TypePower.POWER_CONSUMER,
                             switchboard_id=swb)


def plant():
    comps = [genset("g1", 1000.0, 1), genset("g2", 1000.0, 2), genset("g3", 1000.0, 2),
             load("l1", 1), load("l2", 2)]
    system = ElectricPowerSystem("plant", comps, [(1, 2)])
    system.set_time_interval(60.0, IntegrationMethod.simpson)
    comps[3].power_input = np.array([100.0, 700.0, 1200.0, 1500.0])
    comps[4].power_input = np.array([100.0, 100.0, 400.0, 800.0])
    return system, comps


def residual(comps):
    return (sum(c.power_output for c in comps[:3]) - comps[3].power_input - comps[4].power_input)


violated = False
N = 4

# (a) direct use: status series set, load-sharing mode left at its default
system, comps = plant()
for g in comps[:3]:
    g.status = np.ones(N, dtype=bool)
print("default load_sharing_mode of a genset:", comps[0].load_sharing_mode)
try:
    system.do_power_balance_calculation()
    r = residual(comps)
    print("(a) balanced, residual", r)
    violated |= bool(np.any(np.abs(r) > 1e-9 * 3000))
except Exception as e:  # noqa
    print("(a) REFUSED: %s: %s" % (type(e).__name__, e))
    violated = True

# (b) the public entry point run_simulation with the shipped interface
system, comps = plant()
interface = EqualEngineSizeAllClosedSimulationInterface(
    swb2n_gensets={1: 1, 2: 2}, rated_power_gensets=1000.0, n_bus_ties=1,
    maximum_allowable_genset_load_percentage=0.8)
try:
    run_simulation(system, interface)
    r = residual(comps)
    print("(b) balanced, residual", r)
    violated |= bool(np.any(np.abs(r) > 1e-9 * 3000))
except Exception as e:  # noqa
    print("(b) REFUSED: %s: %s" % (type(e).__name__, e))
    violated = True

# control: the same plant with the mode written out as zeros(N) is balanced,
# and the default works for a one-step series
system, comps = plant()
for g in comps[:3]:
    g.status = np.ones(N, dtype=bool)
    g.load_sharing_mode = np.zeros(N)
system.do_power_balance_calculation()
print("control zeros(N): residual", residual(comps))
system, comps = plant()
comps[3].power_input = np.array([700.0])
comps[4].power_input = np.array([100.0])
for g in comps[:3]:
    g.status = np.ones(1, dtype=bool)
system.do_power_balance_calculation()
print("control one step, default mode: residual", residual(comps))

if violated:
    print("VIOLATED: a valid plant / setting is refused, no balance is produced")
    sys.exit(1)
print("holds")
sys.exit(0)
