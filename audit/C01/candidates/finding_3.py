"""C01 finding 3: operating ONE bus-tie breaker during the series is refused.
ElectricPowerSystem.set_bus_tie_status takes a list of (breaker number, status series), i.e. it is
meant for setting some breakers.  The breakers that are not mentioned keep the one-element status
they are constructed with (closed), and get_bus_tie_status() then raises IndexError because the
lengths differ - although validate_inputs_before_power_balance_calculation explicitly accepts a
one-element breaker status next to N-step loads.
Exit 1 = property violated (valid input refused), 0 = holds."""
import logging
import sys

import numpy as np

logging.disable(logging.CRITICAL)

from feems.components_model.component_electric import (
    Battery, ElectricComponent, ElectricMachine, Genset, PTIPTO,
)
from feems.components_model.component_mechanical import Engine
from feems.components_model.utility import IntegrationMethod
from feems.system_model import ElectricPowerSystem
from feems.types_for_feems import TypeComponent, TypePower, NOxCalculationMethod

EFF = np.array([[0.25, 0.5, 0.75, 1.0], [0.90, 0.93, 0.95, 0.96]]).T
BSFC = np.array([[0.25, 0.5, 0.75, 1.0], [230.0, 210.0, 200.0, 205.0]]).T


def genset(name, p, swb):
    gen = ElectricMachine(type_=TypeComponent.GENERATOR, name="gen " + name, rated_power=p,
                          rated_speed=900, power_type=TypePower.POWER_SOURCE,
                          switchboard_id=swb, eff_curve=EFF)
    eng = Engine(type_=TypeComponent.AUXILIARY_ENGINE, name="eng " + name, rated_power=p / 0.95,
                 rated_speed=900, bsfc_curve=BSFC,
                 nox_calculation_method=NOxCalculationMethod.TIER_2)
    return Genset(name, eng, gen)


def load(name, swb):
    return ElectricComponent(type_=TypeComponent.OTHER_LOAD, name=name, rated_power=3000.0,
                             eff_curve=np.array([1.0]), power_type=TypePower.POWER_CONSUMER,
                             switchboard_id=swb)


def at(x, t):
    x = np.atleast_1d(x)
    return float(x[t] if x.size > 1 else x[0])


def group_residuals(system, groups_per_step):
    """groups_per_step[t] = list of lists of switchboard ids that are connected at step t
    (written down by hand from the breaker statuses, not taken from the system)."""
    worst = 0.0
    for t, groups in enumerate(groups_per_step):
        for group in groups:
            src = dem = 0.0
            for swb_id in group:
                swb = system.switchboards[swb_id]
                for c in swb.component_by_power_type[TypePower.POWER_SOURCE.value]:
                    src += at(c.power_output, t)
                for tp in (TypePower.POWER_CONSUMER, TypePower.PTI_PTO, TypePower.ENERGY_STORAGE):
                    for c in swb.component_by_power_type[tp.value]:
                        dem += at(c.power_input, t)
            print("   step %d group %s: sources %.6f kW, drawn %.6f kW" % (t, group, src, dem))
            r = abs(src - dem) / max(1.0, abs(src))
            worst = max(worst, r if np.isfinite(r) else np.inf)
    return worst

N = 4
LOADS = np.array([100.0, 200.0, 300.0, 400.0])


def plant():
    comps = [genset("g1", 1000.0, 1), genset("g2", 1000.0, 2), genset("g3", 1000.0, 3),
             load("l1", 1), load("l2", 2), load("l3", 3)]
    system = ElectricPowerSystem("plant", comps, [(1, 2), (2, 3)])   # chain 1-2-3
    system.set_time_interval(60.0, IntegrationMethod.simpson)
    for g in comps[:3]:
        g.status = np.ones(N, dtype=bool)
        g.load_sharing_mode = np.zeros(N)
    for k, c in enumerate(comps[3:]):
        c.power_input = LOADS * (k + 1)
    return system


# breaker 1 (between switchboards 1 and 2) is opened during steps 1 and 2; breaker 2 stays closed
breaker_1 = np.array([True, False, False, True])
expected_groups = [[[1, 2, 3]], [[1], [2, 3]], [[1], [2, 3]], [[1, 2, 3]]]
violated = False

print("(a) set_bus_tie_status([(1, series)]) - breaker 2 is not mentioned, it keeps its default")
system = plant()
try:
    system.set_bus_tie_status([(1, breaker_1)])
    system.do_power_balance_calculation()
    w = group_residuals(system, expected_groups)
    print("   worst relative residual %.2e" % w)
    violated |= not (w <= 1e-9)
except Exception as e:  # noqa
    print("   REFUSED: %s: %s" % (type(e).__name__, e))
    violated = True

print("(b) breaker 2 given as the one-element series [True] "
      "(one-element status series are accepted by the validation)")
system = plant()
try:
    system.set_bus_tie_status([(1, breaker_1), (2, np.array([True]))])
    system.do_power_balance_calculation()
    w = group_residuals(system, expected_groups)
    print("   worst relative residual %.2e" % w)
    violated |= not (w <= 1e-9)
except Exception as e:  # noqa
    print("   REFUSED: %s: %s" % (type(e).__name__, e))
    violated = True

print("control: both breakers given with full-length series")
system = plant()
system.set_bus_tie_status([(1, breaker_1), (2, np.ones(N, dtype=bool))])
system.do_power_balance_calculation()
print("   worst relative residual %.2e" % group_residuals(system, expected_groups))

if violated:
    print("VIOLATED: a legal breaker status sequence is refused, no balance is produced")
    sys.exit(1)
print("holds")
sys.exit(0)
