"""C01 finding 1: after HybridPropulsionSystem.do_power_balance_calculation the electric bus is
not balanced any more: the shaft balance that follows the electric balance recomputes the
electric power of the PTI/PTO from its shaft power with the interpolated inverse conversion, so the
PTI/PTO no longer draws / delivers the power the sources were balanced against.
All PTI/PTO loads are between 30 % and 95 % of the rated power (inside the efficiency curves).
Exit 1 = property violated, 0 = holds."""
import logging
import sys

import numpy as np

logging.disable(logging.CRITICAL)

from feems.components_model.component_electric import (
    ElectricComponent, ElectricMachine, Genset, PTIPTO,
)
from feems.components_model.component_mechanical import (
    Engine, MainEngineForMechanicalPropulsion, MechanicalPropulsionComponent,
)
from feems.components_model.utility import IntegrationMethod
from feems.system_model import (
    ElectricPowerSystem, MechanicalPropulsionSystem, HybridPropulsionSystem,
)
from feems.types_for_feems import TypeComponent, TypePower, NOxCalculationMethod

# curves of the project's own test utilities (feems/tests/utility.py)
MACHINE = np.array([[1.00, 0.75, 0.50, 0.25],
                    [0.9585018015, 0.9595580564, 0.9533974336, 0.9298900684]]).T
CONVERTER = np.array([[1.00, 0.75, 0.50, 0.25], [0.98, 0.972, 0.97, 0.96]]).T
BSFC = np.array([[0.25, 0.5, 0.75, 1.0], [230.0, 210.0, 200.0, 205.0]]).T
N = 8


def genset(name, p, swb):
    gen = ElectricMachine(type_=TypeComponent.GENERATOR, name="gen " + name, rated_power=p,
                          rated_speed=900, power_type=TypePower.POWER_SOURCE,
                          switchboard_id=swb, eff_curve=MACHINE)
    eng = Engine(type_=TypeComponent.AUXILIARY_ENGINE, name="eng " + name, rated_power=p / 0.95,
                 rated_speed=900, bsfc_curve=BSFC,
                 nox_calculation_method=NOxCalculationMethod.TIER_2)
    return Genset(name, eng, gen)


def pti_pto(name, p, swb, shaft_line_id):
    def part(type_, nm, curve, power_type=TypePower.POWER_TRANSMISSION):
        return ElectricComponent(type_=type_, power_type=power_type, name=nm, rated_power=p,
                                 eff_curve=curve)
    machine = ElectricMachine(type_=TypeComponent.SYNCHRONOUS_MACHINE,
                              power_type=TypePower.PTI_PTO, name="machine", rated_power=p,
                              rated_speed=900, eff_curve=MACHINE)
    return PTIPTO(name=name,
                  components=[part(TypeComponent.TRANSFORMER, "transformer", np.array([99.0])),
                              part(TypeComponent.INVERTER, "inverter", CONVERTER),
                              part(TypeComponent.RECTIFIER, "rectifier", np.array([99.5])),
                              machine],
                  switchboard_id=swb, rated_power=p, rated_speed=900,
                  shaft_line_id=shaft_line_id)


g1, g2 = genset("genset 1", 2500.0, 1), genset("genset 2", 2500.0, 1)
hotel = ElectricComponent(type_=TypeComponent.OTHER_LOAD, name="hotel", rated_power=3000.0,
                          eff_curve=np.array([1.0]), power_type=TypePower.POWER_CONSUMER,
                          switchboard_id=1)
pti = pti_pto("PTI/PTO", 2000.0, 1, 1)
electric = ElectricPowerSystem("electric", [g1, g2, hotel, pti], [])
electric.set_time_interval(60.0, IntegrationMethod.simpson)

main_engine = MainEngineForMechanicalPropulsion(
    "main engine",
    Engine(type_=TypeComponent.MAIN_ENGINE, name="me", rated_power=8000.0, rated_speed=500,
           bsfc_curve=BSFC, nox_calculation_method=NOxCalculationMethod.TIER_2),
    shaft_line_id=1)
propeller = MechanicalPropulsionComponent(TypeComponent.PROPELLER_LOAD, TypePower.POWER_CONSUMER,
                                          "propeller", 8000.0, np.array([1.0]), 500,
                                          shaft_line_id=1)
mechanical = MechanicalPropulsionSystem("mechanical", [main_engine, propeller, pti])
hybrid = HybridPropulsionSystem("hybrid", electric, mechanical)

on = np.ones(N, dtype=bool)
for c in (g1, g2):
    c.status = on
    c.load_sharing_mode = np.zeros(N)          # equal sharing
pti.status = on
pti.load_sharing_mode = np.ones(N)             # PTI/PTO power is given
pti.full_pti_mode = np.zeros(N, dtype=bool)
hotel.power_input = np.full(N, 2200.0)
# electric power of the PTI/PTO: PTO (negative, feeds the bus) and PTI (positive), 30..95 % load
given = np.array([-1893.0, -1387.0, -1013.0, -607.0, 607.0, 1013.0, 1387.0, 1893.0])
pti.set_power_output_from_input(given.copy())
propeller.power_input = np.full(N, 5000.0)
main_engine.status = on

hybrid.do_power_balance_calculation()

sources = g1.power_output + g2.power_output
drawn = hotel.power_input + pti.power_input
residual = sources - drawn
print("PTI/PTO electric power given     :", given)
print("PTI/PTO electric power afterwards:", pti.power_input)
print("sources [kW]                     :", sources)
print("consumers + PTI/PTO [kW]         :", drawn)
print("residual [kW]                    :", residual)
scale = np.maximum(1.0, np.abs(sources))
tol = 1e-9 * scale     # generous for 'floating-point rounding' (about 1e-13 kW here)
bad = np.abs(residual) > tol
print("largest residual %.3e kW (relative %.1e); steps out of balance: %d of %d"
      % (np.abs(residual).max(), (np.abs(residual) / scale).max(), bad.sum(), N))

# control: the electric system alone is balanced to rounding
pti.set_power_output_from_input(given.copy())
electric.do_power_balance_calculation()
r2 = g1.power_output + g2.power_output - hotel.power_input - pti.power_input
print("control, electric balance alone: largest residual %.3e kW" % np.abs(r2).max())

if bad.any():
    print("VIOLATED: electric bus not balanced after the hybrid power balance calculation")
    sys.exit(1)
print("holds")
sys.exit(0)
