"""C01 finding 1: an energy-storage unit (or PTI/PTO) that alternates between given-power mode and
balancing mode, with its given power stated as a single value (a constant), is refused by the
electric power balance with a numpy broadcasting error - although the validator of the balance
explicitly accepts a power input of size 1 - so no balance is established.

Exit status 1: property violated (valid input refused / bus not balanced); 0: holds.
"""
import logging
import sys

import numpy as np

from feems.components_model.component_electric import (
    Battery,
    ElectricComponent,
    ElectricMachine,
    Genset,
)
from feems.components_model.component_mechanical import Engine
from feems.components_model.utility import IntegrationMethod
from feems.system_model import ElectricPowerSystem
from feems.types_for_feems import NOxCalculationMethod, TypeComponent, TypePower

logging.disable(logging.CRITICAL)

EFF = np.array([[0.25, 0.90], [0.5, 0.93], [0.75, 0.95], [1.0, 0.96]])
BSFC = np.array([[0.25, 230.0], [0.5, 210.0], [0.75, 200.0], [1.0, 205.0]])
N = 4


def build(given_power):
    engine = Engine(
        type_=TypeComponent.AUXILIARY_ENGINE,
        name="engine",
        rated_power=1100.0,
        rated_speed=900.0,
        bsfc_curve=BSFC,
        nox_calculation_method=NOxCalculationMethod.TIER_2,
    )
    generator = ElectricMachine(
        type_=TypeComponent.GENERATOR,
        name="generator",
        rated_power=1000.0,
        rated_speed=900.0,
        power_type=TypePower.POWER_SOURCE,
        switchboard_id=1,
        eff_curve=EFF,
    )
    genset = Genset("genset", engine, generator)
    battery = Battery("battery", 500.0, 1.0, 1.0, switchboard_id=1)
    load = ElectricComponent(
        TypeComponent.OTHER_LOAD,
        "hotel load",
        500.0,
        EFF,
        power_type=TypePower.POWER_CONSUMER,
        switchboard_id=1,
    )
    system = ElectricPowerSystem("plant", [genset, battery, load], [])
    system.set_time_interval(60.0, IntegrationMethod.simpson)
    genset.status = np.ones(N, dtype=bool)
    battery.status = np.ones(N, dtype=bool)
    # steps 0, 1: the battery is charged with the given power; steps 2, 3: it shares the load
    battery.load_sharing_mode = np.array([1.0, 1.0, 0.0, 0.0])
    battery.set_power_output_from_input(given_power)
    load.set_power_input_from_output(np.array([100.0, 200.0, 300.0, 400.0]))
    return system, genset, battery, load


def imbalance(system):
    worst = 0.0
    for t in range(N):
        at = lambda x: float(np.atleast_1d(x)[t] if np.size(x) > 1 else np.atleast_1d(x)[0])
        supplied = sum(at(c.power_output) for c in system.power_sources)
        drawn = sum(
            at(c.power_input)
            for c in system.other_load
            + system.propulsion_drives
            + system.pti_pto
            + system.energy_storage
        )
        worst = max(worst, abs(supplied - drawn) / max(1.0, abs(supplied), abs(drawn)))
    return worst


violated = False

# Reference: the same operation with the constant written out as a series is balanced
system, genset, battery, load = build(np.array([50.0, 50.0, 50.0, 50.0]))
system.do_power_balance_calculation()
print("given power as a series of 4 equal values: worst relative imbalance %.2e" % imbalance(system))
print("   genset power  ", genset.power_output)
print("   battery power ", battery.power_input)

# The constant as one value (the size the validator of the balance lets through)
system, genset, battery, load = build(np.array([50.0]))
try:
    system.do_power_balance_calculation()
except Exception as error:  # noqa
    violated = True
    print(
        "given power as a single value np.array([50.]): REFUSED with %s: %s"
        % (type(error).__name__, error)
    )
else:
    worst = imbalance(system)
    print("given power as a single value: worst relative imbalance %.2e" % worst)
    violated = worst > 1e-9

if violated:
    print("PROPERTY VIOLATED: a plant inside the domain (one bus, a running genset that can")
    print("take the balancing load at every step) gets no power balance.")
    sys.exit(1)
print("property holds")
sys.exit(0)
