"""C01 finding 4: a plant WITHOUT a consumer component (e.g. gensets that charge a battery, or
gensets feeding a PTI/PTO) is refused for every series longer than one step.
validate_inputs_before_power_balance_calculation takes the number of time steps from the summed
consumer load of bus 1; without consumers that is np.zeros(1), and the N-step load-sharing series of
the storage unit / PTI/PTO is then rejected as "not the same dimension as that of consumers".
The group has a running genset in equal-sharing mode, so the precondition of the property holds.
Exit 1 = property violated (valid input refused), 0 = holds."""
import logging
import sys

import numpy as np

logging.disable(logging.CRITICAL)

from feems.components_model.component_electric import (
    Battery, ElectricComponent, ElectricMachine, Genset, PTIPTO,
)
from feems.components_model.component_mechanical import Engine
from feems.components_model.utility import IntegrationMethod
from feems.system_model import ElectricPowerSystem
from feems.types_for_feems import TypeComponent, TypePower, NOxCalculationMethod

EFF = np.array([[0.25, 0.5, 0.75, 1.0], [0.90, 0.93, 0.95, 0.96]]).T
BSFC = np.array([[0.25, 0.5, 0.75, 1.0], [230.0, 210.0, 200.0, 205.0]]).T


def genset(name, p, swb):
    gen = ElectricMachine(type_=TypeComponent.GENERATOR, name="gen " + name, rated_power=p,
                          rated_speed=900, power_type=TypePower.POWER_SOURCE,
                          switchboard_id=swb, eff_curve=EFF)
    eng = Engine(type_=TypeComponent.AUXILIARY_ENGINE, name="eng " + name, rated_power=p / 0.95,
                 rated_speed=900, bsfc_curve=BSFC,
                 nox_calculation_method=NOxCalculationMethod.TIER_2)
    return Genset(name, eng, gen)


def load(name, swb):
    return ElectricComponent(type_=TypeComponent.OTHER_LOAD, name=name, rated_power=3000.0,
                             eff_curve=np.array([1.0]), power_type=TypePower.POWER_CONSUMER,
                             switchboard_id=swb)


def at(x, t):
    x = np.atleast_1d(x)
    return float(x[t] if x.size > 1 else x[0])


def group_residuals(system, groups_per_step):
    """groups_per_step[t] = list of lists of switchboard ids that are connected at step t
    (written down by hand from the breaker statuses, not taken from the system)."""
    worst = 0.0
    for t, groups in enumerate(groups_per_step):
        for group in groups:
            src = dem = 0.0
            for swb_id in group:
                swb = system.switchboards[swb_id]
                for c in swb.component_by_power_type[TypePower.POWER_SOURCE.value]:
                    src += at(c.power_output, t)
                for tp in (TypePower.POWER_CONSUMER, TypePower.PTI_PTO, TypePower.ENERGY_STORAGE):
                    for c in swb.component_by_power_type[tp.value]:
                        dem += at(c.power_input, t)
            print("   step %d group %s: sources %.6f kW, drawn %.6f kW" % (t, group, src, dem))
            r = abs(src - dem) / max(1.0, abs(src))
            worst = max(worst, r if np.isfinite(r) else np.inf)
    return worst

N = 4


def pti_pto(name, p, swb):
    machine = ElectricMachine(type_=TypeComponent.SYNCHRONOUS_MACHINE,
                              power_type=TypePower.PTI_PTO, name="machine", rated_power=p,
                              rated_speed=900, eff_curve=EFF)
    inverter = ElectricComponent(type_=TypeComponent.INVERTER, name="inverter", rated_power=p,
                                 power_type=TypePower.POWER_TRANSMISSION,
                                 eff_curve=np.array([98.0]))
    return PTIPTO(name=name, components=[inverter, machine], switchboard_id=swb, rated_power=p,
                  rated_speed=900, shaft_line_id=1)


def run(label, unit, given, dummy_consumer):
    g = genset("g1", 1000.0, 1)
    comps = [g, unit] + ([load("dummy", 1)] if dummy_consumer else [])
    system = ElectricPowerSystem("plant", comps, [])
    system.set_time_interval(60.0, IntegrationMethod.simpson)
    g.status = np.ones(N, dtype=bool)
    g.load_sharing_mode = np.zeros(N)              # the genset balances the bus
    unit.status = np.ones(N, dtype=bool)
    unit.load_sharing_mode = np.ones(N)            # power of the unit is given
    unit.set_power_output_from_input(given.copy()) if isinstance(unit, PTIPTO) else \
        setattr(unit, "power_input", given.copy())
    if dummy_consumer:
        comps[2].power_input = np.zeros(N)
    print(label)
    try:
        system.do_power_balance_calculation()
    except Exception as e:  # noqa
        print("   REFUSED: %s: %s" % (type(e).__name__, e))
        return False
    w = group_residuals(system, [[[1]]] * N)
    print("   worst relative residual %.2e" % w)
    return w <= 1e-9


ok = True
ok &= run("(a) genset + battery that is charged with a given power, no consumer component",
          Battery("battery", 1000.0, 1.0, 1.0, switchboard_id=1),
          np.array([100.0, 300.0, 500.0, 200.0]), False)
ok &= run("(b) genset + PTI/PTO motoring with a given power, no consumer component",
          pti_pto("PTI/PTO", 800.0, 1), np.array([100.0, 300.0, 500.0, 200.0]), False)
print("controls: the same plants with an additional consumer that draws 0 kW")
run("(a')", Battery("battery", 1000.0, 1.0, 1.0, switchboard_id=1),
    np.array([100.0, 300.0, 500.0, 200.0]), True)
run("(b')", pti_pto("PTI/PTO", 800.0, 1), np.array([100.0, 300.0, 500.0, 200.0]), True)

if not ok:
    print("VIOLATED: a plant of the stated mix (sources, storage, PTI/PTO) is refused")
    sys.exit(1)
print("holds")
sys.exit(0)
