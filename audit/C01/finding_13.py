"""Observation on the UNCHANGED tree (not part of the seeded change).

A battery in fixed mode whose load sharing mode is a fraction (0.5) instead of 1: the net load of
the bus counts power_input * load_sharing_mode (node.py, get_sum_power_input_by_power_type), the
battery itself keeps the full power_input. Sources and draw differ by (1 - 0.5) * power_input.
Exit 1 when the bus is out of balance (which it is on the unchanged tree), 0 otherwise.
"""
import sys
import numpy as np
from feems.components_model.component_electric import Battery, ElectricComponent, ElectricMachine
from feems.components_model.utility import IntegrationMethod
from feems.system_model import ElectricPowerSystem
from feems.types_for_feems import TypeComponent, TypePower

gen = ElectricMachine(type_=TypeComponent.GENERATOR, name="g", rated_power=1000.0, rated_speed=900,
                      power_type=TypePower.POWER_SOURCE, switchboard_id=1, eff_curve=np.array([95.0]))
load = ElectricComponent(type_=TypeComponent.OTHER_LOAD, name="l", rated_power=2000.0,
                         power_type=TypePower.POWER_CONSUMER, switchboard_id=1, eff_curve=np.array([100.0]))
bat = Battery("b", 500.0, 1.0, 1.0, switchboard_id=1)
system = ElectricPowerSystem("s", [gen, load, bat], [])
system.set_time_interval(1.0, IntegrationMethod.simpson)
n = 3
gen.status = np.ones(n, dtype=bool)
gen.load_sharing_mode = np.zeros(n)
bat.status = np.ones(n, dtype=bool)
bat.load_sharing_mode = np.array([1.0, 0.5, 1.0])
bat.power_input = np.array([50.0, 50.0, -50.0])
load.power_input = np.array([300.0, 400.0, 500.0])
system.do_power_balance_calculation()
residual = np.asarray(gen.power_output) - np.asarray(load.power_input) - np.asarray(bat.power_input)
print("generator:", gen.power_output, "battery:", bat.power_input, "residual:", residual)
sys.exit(1 if np.max(np.abs(residual)) > 1e-9 else 0)
