"""C01 finding 5 (alternative entry point: the plant built from its protobuf message): the bus-tie
layout of an electric plant is not carried by the protobuf conversion. The writer
(MachSysS.convert_to_protobuf) stores no bus-tie connection and the reader
(MachSysS.convert_to_feems.convert_feems_switchboards_to_feems_electric_power_system) always
wires a chain (1, 2), (2, 3), ... by position.

(a) A star layout - breakers (1, 2) and (1, 3) - comes back as the chain (1, 2), (2, 3). With the
    breaker status table of the plant (breaker 1 open, breaker 2 closed) the plant read from the
    message balances {1} and {2, 3}, while in the plant that was written switchboards 1 and 3 are
    connected and 2 is an island: the group {1, 3} of the real layout is out of balance by
    hundreds of kW.
(b) Switchboards numbered 2 and 5 (one breaker (2, 5)): the reader raises KeyError: 1.

Exit status 1: property violated; 0: holds.
"""
import logging
import sys

import numpy as np

from feems.components_model.component_electric import ElectricComponent, ElectricMachine, Genset
from feems.components_model.component_mechanical import Engine
from feems.components_model.utility import IntegrationMethod
from feems.system_model import ElectricPowerSystem
from feems.types_for_feems import NOxCalculationMethod, TypeComponent, TypePower
from MachSysS.convert_to_feems import convert_proto_propulsion_system_to_feems
from MachSysS.convert_to_protobuf import convert_electric_system_to_protobuf_machinery_system

logging.disable(logging.CRITICAL)

EFF = np.array([[0.25, 0.90], [0.5, 0.93], [0.75, 0.95], [1.0, 0.96]])
BSFC = np.array([[0.25, 230.0], [0.5, 210.0], [0.75, 200.0], [1.0, 205.0]])
N = 3
LOAD_KW = {1: 100.0, 2: 400.0, 3: 700.0}


def build(switchboard_ids, bus_ties):
    components = []
    for swb in switchboard_ids:
        engine = Engine(
            type_=TypeComponent.AUXILIARY_ENGINE,
            name="engine %d" % swb,
            rated_power=1100.0,
            rated_speed=900.0,
            bsfc_curve=BSFC,
            nox_calculation_method=NOxCalculationMethod.TIER_2,
        )
        generator = ElectricMachine(
            type_=TypeComponent.GENERATOR,
            name="generator %d" % swb,
            rated_power=1000.0,
            rated_speed=900.0,
            power_type=TypePower.POWER_SOURCE,
            switchboard_id=swb,
            eff_curve=EFF,
        )
        components.append(Genset("genset %d" % swb, engine, generator))
        components.append(
            ElectricComponent(
                TypeComponent.OTHER_LOAD,
                "load %d" % swb,
                1000.0,
                EFF,
                power_type=TypePower.POWER_CONSUMER,
                switchboard_id=swb,
            )
        )
    return ElectricPowerSystem("plant", components, bus_ties)


def set_inputs_and_balance(system, breaker_table):
    system.set_time_interval(60.0, IntegrationMethod.simpson)
    for source in system.power_sources:
        source.status = np.ones(N, dtype=bool)
    for load in system.other_load:
        load.set_power_input_from_output(np.full(N, LOAD_KW.get(load.switchboard_id, 100.0)))
    system.set_bus_tie_status_all(breaker_table)
    system.do_power_balance_calculation()


def groups(bus_ties, closed, switchboard_ids):
    parent = {i: i for i in switchboard_ids}

    def find(a):
        while parent[a] != a:
            a = parent[a]
        return a

    for (a, b), is_closed in zip(bus_ties, closed):
        if is_closed:
            parent[find(b)] = find(a)
    result = {}
    for i in switchboard_ids:
        result.setdefault(find(i), []).append(i)
    return list(result.values())


def worst_imbalance(system, bus_ties, breaker_table, switchboard_ids, text):
    worst = 0.0
    for t in range(N):
        for group in groups(bus_ties, breaker_table[t], switchboard_ids):
            supplied = sum(
                c.power_output[t] for c in system.power_sources if c.switchboard_id in group
            )
            drawn = sum(c.power_input[t] for c in system.other_load if c.switchboard_id in group)
            if t == 0:
                print(
                    "   %s, connected group %s: supplied %.1f kW, drawn %.1f kW"
                    % (text, group, supplied, drawn)
                )
            worst = max(worst, abs(supplied - drawn) / max(1.0, abs(supplied), abs(drawn)))
    return worst


violated = False

# (a) star layout
ids = [1, 2, 3]
star = [(1, 2), (1, 3)]
table = np.array([[False, True]] * N)  # breaker 1 (1-2) open, breaker 2 (1-3) closed
plant = build(ids, star)
set_inputs_and_balance(plant, table)
w = worst_imbalance(plant, star, table, ids, "plant as built")
print("(a) plant as built: worst relative imbalance over its connected groups %.2e" % w)
violated |= w > 1e-9

message = convert_electric_system_to_protobuf_machinery_system(build(ids, star))
plant_read = convert_proto_propulsion_system_to_feems(message)
print(
    "    bus ties written:",
    star,
    " bus ties read back:",
    [tuple(breaker.switchboard_ids) for breaker in plant_read.bus_tie_breakers],
)
set_inputs_and_balance(plant_read, table)
w = worst_imbalance(plant_read, star, table, ids, "plant read from the message")
print(
    "(a) plant read from the message, same inputs: worst relative imbalance over the connected "
    "groups of the layout that was written %.2e" % w
)
violated |= w > 1e-9

# (b) switchboards not numbered 1..n
try:
    message = convert_electric_system_to_protobuf_machinery_system(build([2, 5], [(2, 5)]))
    plant_read = convert_proto_propulsion_system_to_feems(message)
    table_b = np.array([[True]] * N)
    set_inputs_and_balance(plant_read, table_b)
    w = worst_imbalance(plant_read, [(2, 5)], table_b, [2, 5], "plant read from the message")
    print("(b) switchboards 2 and 5: worst relative imbalance %.2e" % w)
    violated |= w > 1e-9
except Exception as error:  # noqa
    violated = True
    print(
        "(b) switchboards 2 and 5 with breaker (2, 5): reading the message is REFUSED with "
        "%s: %s" % (type(error).__name__, error)
    )

if violated:
    print("PROPERTY VIOLATED for the plant obtained through the protobuf entry point.")
    sys.exit(1)
print("property holds")
sys.exit(0)
