"""C01 finding 3: a PTI/PTO or an energy-storage unit whose on/off status is a single value (for a
PTI/PTO that is the constructor's default, np.ones(1)) cannot be balanced over a series.

For power sources a single-value status or sharing mode stands for the whole series
(Switchboard.set_power_out_power_sources broadcasts them). The second loop of the same method, for
PTI/PTO and energy storage, indexes component.status with a mask of the series length instead, so
  A. a PTI/PTO that shares the bus load (load sharing mode 0 for every step) and whose status was
     never touched,
  B. a battery in given-power mode (load sharing mode 1) that is on for the whole series
     (status = np.ones(1)),
are refused with ValueError although the user has sized everything the input validation asks for.
The bus has a running genset at every step, so the property demands a balanced result.
(The available power, Switchboard.get_power_avail_component_by_power_type, copes with the single
value; only the last step of the calculation does not.)

exit status 1: property violated (current code), 0: property holds
"""
import logging
import sys

import numpy as np

from feems.components_model.component_electric import (
    Battery, ElectricComponent, ElectricMachine, Genset, PTIPTO,
)
from feems.components_model.component_mechanical import Engine
from feems.components_model.utility import IntegrationMethod
from feems.system_model import ElectricPowerSystem
from feems.types_for_feems import TypeComponent, TypePower

logging.disable(logging.CRITICAL)

BSFC = np.array([[0.25, 230.0], [0.5, 210.0], [0.75, 200.0], [1.0, 205.0]])
EFF = np.array([[0.25, 0.93], [0.5, 0.95], [0.75, 0.96], [1.0, 0.965]])
LOAD = np.array([100.0, 200.0, 300.0])
N = LOAD.size


def genset(name, p, swb):
    eng = Engine(type_=TypeComponent.AUXILIARY_ENGINE, name="engine " + name, rated_power=p / 0.95,
                 rated_speed=900, bsfc_curve=BSFC)
    gen = ElectricMachine(type_=TypeComponent.GENERATOR, name="generator " + name, rated_power=p,
                          rated_speed=900, power_type=TypePower.POWER_SOURCE, switchboard_id=swb,
                          eff_curve=EFF)
    return Genset(name, eng, gen)


def load(name, p, swb):
    return ElectricComponent(type_=TypeComponent.OTHER_LOAD, name=name, rated_power=p,
                             eff_curve=np.array([1.0]), power_type=TypePower.POWER_CONSUMER,
                             switchboard_id=swb)


def pti_pto(name, p, swb):
    machine = ElectricMachine(type_=TypeComponent.SYNCHRONOUS_MACHINE, name="machine " + name,
                              rated_power=p, rated_speed=900, power_type=TypePower.PTI_PTO,
                              eff_curve=EFF)
    inverter = ElectricComponent(type_=TypeComponent.INVERTER, name="inverter " + name,
                                 rated_power=p, eff_curve=np.array([0.98]),
                                 power_type=TypePower.POWER_TRANSMISSION)
    return PTIPTO(name=name, components=[inverter, machine], switchboard_id=swb, rated_power=p,
                  rated_speed=900, shaft_line_id=1)


def imbalance(system):
    delivered = sum(np.broadcast_to(c.power_output, (N,)) for c in system.power_sources)
    drawn = sum(
        np.broadcast_to(c.power_input, (N,))
        for c in system.other_load + system.pti_pto + system.energy_storage
    )
    return float(np.max(np.abs(delivered - drawn)))


def plant_pti(status):
    g1, p, l1 = genset("g1", 1000.0, 1), pti_pto("pto", 500.0, 1), load("l1", 1000.0, 1)
    system = ElectricPowerSystem("plant", [g1, p, l1], [])
    system.set_time_interval(60.0, IntegrationMethod.sum_with_time)
    g1.status = np.ones(N, dtype=bool)
    p.load_sharing_mode = np.zeros(N)  # shares the load of the bus at every step
    if status is not None:
        p.status = status
    print(f"   PTI/PTO status = {p.status}")
    l1.set_power_input_from_output(LOAD)
    system.do_power_balance_calculation()
    return system


def plant_battery(status):
    g1, l1 = genset("g1", 1000.0, 1), load("l1", 1000.0, 1)
    b = Battery("battery", 500.0, 1.0, 1.0, switchboard_id=1)
    system = ElectricPowerSystem("plant", [g1, b, l1], [])
    system.set_time_interval(60.0, IntegrationMethod.sum_with_time)
    g1.status = np.ones(N, dtype=bool)
    b.status = status
    b.load_sharing_mode = np.ones(N)  # given power: charge 50 kW, discharge 80 kW, idle
    b.power_input = np.array([50.0, -80.0, 0.0])
    l1.set_power_input_from_output(LOAD)
    system.do_power_balance_calculation()
    return system


violated = False
for title, case in (
    ("control: PTI/PTO status written as a series of ones", lambda: plant_pti(np.ones(N, bool))),
    ("A: PTI/PTO status left at its default", lambda: plant_pti(None)),
    ("control: battery status written as a series of ones", lambda: plant_battery(np.ones(N, bool))),
    ("B: battery status = np.ones(1)", lambda: plant_battery(np.ones(1, bool))),
):
    print(title)
    try:
        system = case()
    except Exception as e:  # noqa
        print(f"   REFUSED with {type(e).__name__}: {e}")
        violated = True
        continue
    worst = imbalance(system)
    print(f"   balanced, worst difference {worst:.3g} kW")
    if worst > 1e-6:
        violated = True

if violated:
    print("VIOLATED: a valid plant with a running genset at every step is not balanced")
    sys.exit(1)
print("holds")
sys.exit(0)
