"""C01 finding 2 (minor, numerical) - the balance is met only to about 5e-11 kW / (available power),
not to floating-point rounding: Switchboard.get_sum_power_avail_for_power_sources_symmetric()
rounds the available power of the load-sharing units to 10 decimals (np.round(..., 10)), the bus
load ratio is the load divided by this ROUNDED figure, and every unit is then given
rated_power * ratio with its UNROUNDED rated power.

Plant: one switchboard, one battery that carries the bus alone (harbour mode), one consumer.
The rating of a Battery is rated_capacity_kwh * discharge_rate_c; with a C/3 discharge rate it is
a number with more than 10 decimals (3.3333333333333335 kW for 10 kWh).  The battery is on, in
load sharing mode 0, so the group has a running unit that takes the balancing load.

Property: sum(sources) == consumers + PTI/PTO + storage "to within floating-point rounding".
The script allows 1e-13 relative (about 450 ulp); without the np.round the same plants are
balanced to < 3e-16.  Exit 1 when a plant misses that, 0 otherwise.
"""
import logging
import sys

import numpy as np

logging.disable(logging.CRITICAL)

from feems.components_model.component_electric import Battery, ElectricComponent
from feems.components_model.utility import IntegrationMethod
from feems.system_model import ElectricPowerSystem
from feems.types_for_feems import TypeComponent, TypePower

TOLERANCE = 1e-13
violated = False
print("capacity kWh | rated kW            | drawn by consumer kW | delivered by battery kW | rel. imbalance")
for capacity_kwh in (1.0, 10.0, 100.0, 1000.0):
    battery = Battery("battery", capacity_kwh, charging_rate_c=1 / 3, discharge_rate_c=1 / 3, switchboard_id=1)
    load = ElectricComponent(
        TypeComponent.OTHER_LOAD,
        "hotel load",
        max(1.0, capacity_kwh),
        np.array([1.0]),
        power_type=TypePower.POWER_CONSUMER,
        switchboard_id=1,
    )
    system = ElectricPowerSystem("plant", [battery, load], [])
    system.set_time_interval(60.0, IntegrationMethod.sum_with_time)
    battery.status = np.ones(3, dtype=bool)
    load.set_power_input_from_output(battery.rated_power * np.array([0.2, 0.5, 0.9]))
    system.do_power_balance_calculation()
    drawn = load.power_input
    delivered = -battery.power_input  # no power source: the battery feeds the bus
    rel = np.max(np.abs(delivered - drawn) / np.abs(drawn))
    print(f"{capacity_kwh:12.0f} | {battery.rated_power!r:19} | {float(drawn[2])!r:20} | {float(delivered[2])!r:23} | {rel:.2e}")
    if not rel <= TOLERANCE:
        violated = True

print("PROPERTY VIOLATED (balance missed by more than 1e-13 relative)" if violated else "property holds")
sys.exit(1 if violated else 0)
