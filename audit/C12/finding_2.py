"""C12 finding 2: a calculation whose consumers are constants (single values, which the electric
side accepts as 'a constant over the series') is REFUSED on a system that was used before for a
LONGER series, although every input is supplied afresh.  Same root as finding 1, seen for series
longer than one step.

Run A: 5 steps.  Run B: 3 steps (statuses of the gensets are 3-step series, the hotel load is one
value, the battery shares the load).  Reference: run B on a fresh, identically built system.
Exit status 1 = property violated, 0 = holds.
"""
import logging
import sys

import numpy as np

logging.disable(logging.CRITICAL)

from feems.components_model.component_electric import (
    Battery,
    ElectricComponent,
    ElectricMachine,
    Genset,
)
from feems.components_model.component_mechanical import Engine
from feems.components_model.utility import IntegrationMethod
from feems.system_model import ElectricPowerSystem
from feems.types_for_feems import TypeComponent, TypePower

EFF = np.array([[0.0, 0.80], [0.25, 0.88], [0.5, 0.93], [0.75, 0.95], [1.0, 0.96]])
BSFC = np.array([[0.1, 260.0], [0.25, 230.0], [0.5, 205.0], [0.75, 195.0], [1.0, 200.0]])


def genset(name):
    engine = Engine(
        type_=TypeComponent.AUXILIARY_ENGINE, name=name + " engine", rated_power=1100.0,
        rated_speed=900.0, bsfc_curve=BSFC,
    )
    generator = ElectricMachine(
        type_=TypeComponent.GENERATOR, name=name + " generator", rated_power=1000.0,
        rated_speed=900.0, power_type=TypePower.POWER_SOURCE, switchboard_id=1, eff_curve=EFF,
    )
    return Genset(name, engine, generator)


def build():
    components = [
        genset("genset 1"),
        genset("genset 2"),
        Battery("battery", 1000.0, 1.0, 1.0, switchboard_id=1),
        ElectricComponent(
            type_=TypeComponent.OTHER_LOAD, name="hotel", rated_power=2000.0, eff_curve=EFF,
            power_type=TypePower.POWER_CONSUMER, switchboard_id=1,
        ),
    ]
    return ElectricPowerSystem("plant", components, []), components


def calculate(system, components, hotel_kw, gensets_on):
    """One complete calculation; every input is supplied afresh."""
    n = len(gensets_on)
    g1, g2, battery, hotel = components
    system.set_time_interval(60.0, IntegrationMethod.trapezoid)
    hotel.set_power_input_from_output(np.array([hotel_kw]))  # a constant, given as one value
    system.set_status_by_switchboard_id_power_type(
        1, TypePower.POWER_SOURCE, np.array(gensets_on, dtype=bool).reshape(n, 2)
    )
    system.set_load_sharing_mode_power_sources_by_switchboard_id_power_type(
        1, TypePower.POWER_SOURCE, np.zeros((n, 2))
    )
    battery.status = np.ones(n, dtype=bool)
    battery.load_sharing_mode = np.zeros(n)  # shares the load: its power is a result
    system.do_power_balance_calculation()
    result = system.get_fuel_energy_consumption_running_time()
    return {
        "genset 1 kW": np.round(g1.power_output, 6).tolist(),
        "genset 2 kW": np.round(g2.power_output, 6).tolist(),
        "battery kW": np.round(battery.power_input, 6).tolist(),
        "duration_s": float(result.duration_s),
        "fuel_kg": round(float(result.fuel_consumption_total_kg), 9),
    }


run_a = [[1, 1], [1, 0], [1, 1], [1, 0], [1, 1]]
run_b = [[1, 1], [1, 0], [1, 1]]

fresh_system, fresh_components = build()
reference = calculate(fresh_system, fresh_components, 600.0, run_b)
print("run B (3 steps) on a fresh system:", reference)

used_system, used_components = build()
calculate(used_system, used_components, 600.0, run_a)
try:
    after_history = calculate(used_system, used_components, 600.0, run_b)
except Exception as error:  # noqa: BLE001
    print("run B (3 steps) after run A (5 steps) is refused:")
    print("   ", type(error).__name__ + ":", error)
    print("VIOLATED: the length of the battery's power_input left by run A (5) is taken for the "
          "length of run B, whose own series have 3 steps.")
    sys.exit(1)
print("run B (3 steps) after run A (5 steps):", after_history)
if after_history != reference:
    print("VIOLATED: the results differ")
    sys.exit(1)
print("property holds")
sys.exit(0)
