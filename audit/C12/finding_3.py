"""C12 finding 3: through the RunFeemsSim front end.  A MachineryCalculation that has calculated a
profile of several intervals refuses a later profile of ONE interval (one operating mode given as
statistics, or a two-point time series) when the plant has a battery; a fresh MachineryCalculation
on an identically built plant calculates it.  Same root as finding 1.
Exit status 1 = property violated, 0 = holds.
"""
import logging
import sys

import numpy as np
import pandas as pd

logging.disable(logging.CRITICAL)

from feems.components_model.component_electric import (
    Battery,
    ElectricComponent,
    ElectricMachine,
    Genset,
    SerialSystemElectric,
)
from feems.components_model.component_mechanical import Engine
from feems.system_model import ElectricPowerSystem
from feems.types_for_feems import TypeComponent, TypePower
from RunFeemsSim.machinery_calculation import MachineryCalculation

EFF = np.array([[0.0, 0.80], [0.25, 0.88], [0.5, 0.93], [0.75, 0.95], [1.0, 0.96]])
BSFC = np.array([[0.1, 260.0], [0.25, 230.0], [0.5, 205.0], [0.75, 195.0], [1.0, 200.0]])


def genset(name, switchboard_id):
    engine = Engine(
        type_=TypeComponent.AUXILIARY_ENGINE, name=name + " engine", rated_power=1100.0,
        rated_speed=900.0, bsfc_curve=BSFC,
    )
    generator = ElectricMachine(
        type_=TypeComponent.GENERATOR, name=name + " generator", rated_power=1000.0,
        rated_speed=900.0, power_type=TypePower.POWER_SOURCE, switchboard_id=switchboard_id,
        eff_curve=EFF,
    )
    return Genset(name, engine, generator)


def drive(name, switchboard_id):
    members = [
        ElectricComponent(
            type_=TypeComponent.TRANSFORMER, name=name + " transformer", rated_power=1500.0,
            eff_curve=EFF, power_type=TypePower.POWER_CONSUMER, switchboard_id=switchboard_id,
        ),
        ElectricMachine(
            type_=TypeComponent.ELECTRIC_MOTOR, name=name + " motor", rated_power=1500.0,
            rated_speed=900.0, eff_curve=EFF, power_type=TypePower.POWER_CONSUMER,
            switchboard_id=switchboard_id,
        ),
    ]
    return SerialSystemElectric(
        TypeComponent.PROPULSION_DRIVE, name, TypePower.POWER_CONSUMER, members, switchboard_id,
        1500.0, 900.0,
    )


def build():
    components = [
        genset("genset 1", 1),
        genset("genset 2", 2),
        Battery("battery", 500.0, 1.0, 1.0, switchboard_id=1),
        drive("propulsion drive", 1),
        ElectricComponent(
            type_=TypeComponent.OTHER_LOAD, name="hotel", rated_power=500.0, eff_curve=EFF,
            power_type=TypePower.POWER_CONSUMER, switchboard_id=2,
        ),
    ]
    return MachineryCalculation(ElectricPowerSystem("plant", components, [(1, 2)]))


def long_profile(calculation):
    return calculation.calculate_machinery_system_output_from_propulsion_power_time_series(
        propulsion_power=pd.Series(
            [300.0, 500.0, 800.0, 600.0, 400.0, 400.0], index=[0.0, 60.0, 120.0, 180.0, 240.0, 300.0]
        ),
        auxiliary_power_kw=150.0,
    )


def one_mode(calculation):
    return calculation.calculate_machinery_system_output_from_statistics(
        propulsion_power=np.array([600.0]),
        frequency=np.array([3600.0]),
        auxiliary_power_kw=150.0,
    )


reference = one_mode(build())
print("one operating mode (600 kW for 3600 s) on a fresh MachineryCalculation: "
      f"duration {reference.duration_s} s, fuel {reference.fuel_consumption_total_kg:.4f} kg")

used = build()
long_profile(used)  # five intervals
try:
    after_history = one_mode(used)
except Exception as error:  # noqa: BLE001
    print("the same operating mode after a five-interval profile on the same object is refused:")
    print("   ", type(error).__name__ + ":", error)
    print("VIOLATED: the five-step series left in the battery by the earlier profile is taken "
          "for the length of the one-interval calculation.")
    sys.exit(1)
print(f"after a five-interval profile: duration {after_history.duration_s} s, "
      f"fuel {after_history.fuel_consumption_total_kg:.4f} kg")
if not (
    np.isclose(after_history.duration_s, reference.duration_s)
    and np.isclose(after_history.fuel_consumption_total_kg, reference.fuel_consumption_total_kg)
):
    print("VIOLATED: the results differ")
    sys.exit(1)
print("property holds")
sys.exit(0)
