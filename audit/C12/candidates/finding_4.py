"""C12 finding 4: calculations through the power-management entry points
(feems.runsimulation.run_simulation and RunFeemsSim.MachineryCalculation) take only the loads as
input; the interface object is to supply statuses, sharing modes and breaker positions.  The
interfaces do not supply all of them, so what an earlier calculation on the same system object set
stays in force:

 a) EqualEngineSizeAllClosedSimulationInterface sets status and breakers but not the load sharing
    mode of the power sources: a genset that ran on a fixed share in the earlier calculation keeps
    it (and on a fresh object a series of more than one point is refused with an IndexError).
 b) the same through the RunFeemsSim front end, MachineryCalculation(system, pms=that interface).
 c) the front end's default PmsLoadTableSimulationInterface leaves a PTI/PTO (shaft generator)
    untouched: its given power of the earlier calculation stays on the bus.

Exit status 1 = property violated, 0 = property holds.
"""
import logging
import sys

import numpy as np

logging.disable(logging.CRITICAL)

from feems.components_model.component_electric import (
    ElectricComponent, ElectricMachine, Genset, PTIPTO, SerialSystemElectric,
)
from feems.components_model.component_mechanical import Engine
from feems.components_model.utility import IntegrationMethod
from feems.runsimulation import EqualEngineSizeAllClosedSimulationInterface, run_simulation
from feems.system_model import ElectricPowerSystem
from feems.types_for_feems import TypeComponent, TypePower
from RunFeemsSim.machinery_calculation import MachineryCalculation

BSFC = np.array([[0.25, 0.5, 0.75, 1.0], [230.0, 205.0, 195.0, 200.0]]).T
EFF = np.array([[0.25, 0.5, 0.75, 1.0], [0.93, 0.95, 0.96, 0.958]]).T


def system(with_pto=False):
    def genset(name, swb):
        engine = Engine(type_=TypeComponent.AUXILIARY_ENGINE, name=name + " engine",
                        rated_power=1000 / 0.95, rated_speed=900, bsfc_curve=BSFC)
        generator = ElectricMachine(type_=TypeComponent.GENERATOR, name=name + " generator",
                                    rated_power=1000, rated_speed=900, eff_curve=EFF,
                                    power_type=TypePower.POWER_SOURCE, switchboard_id=swb)
        return Genset(name, engine, generator)

    def drive(name, swb):
        motor = ElectricComponent(type_=TypeComponent.ELECTRIC_MOTOR, name=name + " motor",
                                  rated_power=1800, eff_curve=EFF, power_type=TypePower.POWER_CONSUMER)
        return SerialSystemElectric(type_=TypeComponent.PROPULSION_DRIVE, name=name,
                                    power_type=TypePower.POWER_CONSUMER, components=[motor],
                                    switchboard_id=swb, rated_power=1800)

    def hotel(name, swb):
        return ElectricComponent(type_=TypeComponent.OTHER_LOAD, name=name, rated_power=500,
                                 eff_curve=np.array([1.0]), power_type=TypePower.POWER_CONSUMER,
                                 switchboard_id=swb)

    components = [genset("g1", 1), genset("g2", 1), drive("d1", 1), hotel("h1", 1),
                  genset("g3", 2), genset("g4", 2), drive("d2", 2), hotel("h2", 2)]
    if with_pto:
        machine = ElectricMachine(type_=TypeComponent.SYNCHRONOUS_MACHINE, name="pto machine",
                                  rated_power=700, rated_speed=900, eff_curve=EFF,
                                  power_type=TypePower.PTI_PTO)
        components.append(PTIPTO("pto", [machine], 1, 700, 900, shaft_line_id=1))
    return ElectricPowerSystem("el", components, [(1, 2)])


def direct_calculation(s, n, share_g2=0.0, pto_kw=None):
    """An ordinary calculation through the system API in which every input is given."""
    for consumer in s.propulsion_drives + s.other_load:
        consumer.set_power_input_from_output(np.full(n, 350.0))
    for swb in (1, 2):
        s.set_status_by_switchboard_id_power_type(swb, TypePower.POWER_SOURCE, np.ones((n, 2), dtype=bool))
        mode = np.zeros((n, 2))
        if swb == 1:
            mode[:, 1] = share_g2
        s.set_load_sharing_mode_power_sources_by_switchboard_id_power_type(swb, TypePower.POWER_SOURCE, mode)
    if s.pti_pto:
        s.set_status_by_switchboard_id_power_type(1, TypePower.PTI_PTO, np.ones((n, 1), dtype=bool))
        s.set_load_sharing_mode_power_sources_by_switchboard_id_power_type(1, TypePower.PTI_PTO, np.ones((n, 1)))
        s.pti_pto[0].set_power_output_from_input(np.full(n, pto_kw))
    s.set_bus_tie_status_all(np.ones((n, 1), dtype=bool))
    s.set_time_interval(10.0, IntegrationMethod.simpson)
    s.do_power_balance_calculation()
    return s.get_fuel_energy_consumption_running_time()


def equal_engine_pms():
    return EqualEngineSizeAllClosedSimulationInterface(
        swb2n_gensets={1: 2, 2: 2}, rated_power_gensets=1000.0, n_bus_ties=1,
        maximum_allowable_genset_load_percentage=0.8)


def run_simulation_calculation(s, n):
    """The later calculation: loads and time step given afresh, the rest is the interface's job."""
    for consumer in s.propulsion_drives + s.other_load:
        consumer.set_power_input_from_output(np.full(n, 380.0))   # 1.5 MW in total: two gensets
    s.set_time_interval(10.0, IntegrationMethod.simpson)
    run_simulation(s, equal_engine_pms())
    return s.get_fuel_energy_consumption_running_time()


def describe(result_or_error, s):
    if isinstance(result_or_error, Exception):
        return f"refused: {type(result_or_error).__name__}"
    outputs = ", ".join(f"{c.name}={np.round(c.power_output, 1).tolist()}" for c in s.power_sources)
    return f"fuel {float(result_or_error.fuel_consumption_total_kg):.6f} kg; {outputs}"


def attempt(function, *args):
    try:
        return function(*args)
    except Exception as error:  # noqa: BLE001 - the refusal is the observation
        return error


violated = False


def compare(title, with_history, s_history, fresh, s_fresh):
    global violated
    same = (not isinstance(with_history, Exception) and not isinstance(fresh, Exception)
            and np.isclose(with_history.fuel_consumption_total_kg, fresh.fuel_consumption_total_kg,
                           rtol=1e-9, atol=0))
    if isinstance(with_history, Exception) and isinstance(fresh, Exception):
        same = type(with_history) is type(fresh)
    violated |= not same
    print(title)
    print("   after the earlier calculation:", describe(with_history, s_history))
    print("   on a fresh object:            ", describe(fresh, s_fresh))
    print("   ->", "same" if same else "DIFFERENT")


# a) run_simulation + EqualEngineSizeAllClosedSimulationInterface, one point and three points
for n in (1, 3):
    used = system()
    direct_calculation(used, n, share_g2=0.6)       # earlier calculation: g2 on a fixed share of 60 %
    new = system()
    compare(f"a) run_simulation with the equal-engine-size interface, {n}-point series",
            attempt(run_simulation_calculation, used, n), used,
            attempt(run_simulation_calculation, new, n), new)


# b) the same interface through the RunFeemsSim front end
def front_end(mc, n):
    return mc.calculate_machinery_system_output_from_statistics(
        propulsion_power=np.full(n, 1300.0), frequency=np.full(n, 10.0), auxiliary_power_kw=200.0)


used = system()
mc_used = MachineryCalculation(used, pms=equal_engine_pms())
direct_calculation(used, 1, share_g2=0.6)
new = system()
mc_new = MachineryCalculation(new, pms=equal_engine_pms())
compare("b) MachineryCalculation(pms=equal-engine-size interface), 1-point series",
        attempt(front_end, mc_used, 1), used, attempt(front_end, mc_new, 1), new)

# c) default interface of the front end and a shaft generator (PTI/PTO) on the switchboard
used = system(with_pto=True)
mc_used = MachineryCalculation(used)
direct_calculation(used, 1, pto_kw=-400.0)          # earlier calculation: PTO feeds 400 kW into the bus
new = system(with_pto=True)
mc_new = MachineryCalculation(new)
compare("c) MachineryCalculation with its default interface, system with a PTI/PTO, 1-point series",
        attempt(front_end, mc_used, 1), used, attempt(front_end, mc_new, 1), new)

print("PROPERTY VIOLATED: sharing modes / PTO power of the earlier calculation act in the later one"
      if violated else "property holds")
sys.exit(1 if violated else 0)
