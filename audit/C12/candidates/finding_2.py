"""C12 finding 2: the shaft balance writes status = off into every main engine that delivers no
power.  A one-point calculation with zero propeller load therefore switches the engines off for
good: the next calculation on the same object, with a non-zero load given afresh, burns no fuel,
while a freshly built system burns about 425 kg.  (The engine status is never given by the caller in
either calculation: the constructor default "on", a one-element series, is used, which is a valid
input for one-point series.  The same happens with longer series when the status is given once and
only the loads are changed between calculations.)

Exit status 1 = property violated, 0 = property holds.
"""
import logging
import sys

import numpy as np

logging.disable(logging.CRITICAL)

from feems.components_model.component_mechanical import (
    Engine, MainEngineForMechanicalPropulsion, MechanicalPropulsionComponent,
)
from feems.components_model.utility import IntegrationMethod
from feems.system_model import MechanicalPropulsionSystem
from feems.types_for_feems import TypeComponent, TypePower

BSFC = np.array([[0.25, 0.5, 0.75, 1.0], [230.0, 205.0, 195.0, 200.0]]).T


def mechanical_system():
    def main_engine(name, power):
        engine = Engine(type_=TypeComponent.MAIN_ENGINE, name=name + " engine", rated_power=power,
                        rated_speed=700, bsfc_curve=BSFC)
        return MainEngineForMechanicalPropulsion(name, engine, shaft_line_id=1)

    propeller = MechanicalPropulsionComponent(
        TypeComponent.PROPELLER_LOAD, TypePower.POWER_CONSUMER, "propeller", 5000,
        np.array([1.0]), 150, shaft_line_id=1)
    return MechanicalPropulsionSystem(
        "mech", [main_engine("me1", 3000), main_engine("me2", 2000), propeller])


def calculate(system, load_kw):
    """One operating point of one hour; the only input is the propeller load."""
    system.set_power_consumer_load_by_value_for_given_name_shaft_line_id(
        "propeller", 1, np.array([load_kw]))
    system.set_time_interval(3600.0, IntegrationMethod.simpson)
    system.do_power_balance()
    return system.get_fuel_energy_consumption_running_time()


used = mechanical_system()
calculate(used, 0.0)                       # calculation 1: in port, no propeller load
after_history = calculate(used, 2000.0)    # calculation 2: 2000 kW
fresh = calculate(mechanical_system(), 2000.0)

print("calculation 2 (2000 kW for one hour)         after calc. 1 (0 kW)    fresh object")
rows = (
    ("fuel_consumption_total_kg", after_history.fuel_consumption_total_kg, fresh.fuel_consumption_total_kg),
    ("running_hours_main_engines_hr", after_history.running_hours_main_engines_hr, fresh.running_hours_main_engines_hr),
    ("CO2 tank-to-wake [kg]", after_history.co2_emission_total_kg.tank_to_wake_kg_or_gco2eq_per_gfuel,
     fresh.co2_emission_total_kg.tank_to_wake_kg_or_gco2eq_per_gfuel),
)
violated = False
for name, a, b in rows:
    differs = not np.allclose(a, b, rtol=1e-9, atol=0)
    violated |= differs
    print(f"  {name:40s} {float(a):16.4f} {float(b):16.4f} {'<-- differs' if differs else ''}")
print("status of the main engines of the used object:", [m.status.tolist() for m in used.main_engines])
print("power output of its main engines [kW]:       ", [m.power_output.tolist() for m in used.main_engines],
      "for a propeller load of", used.mechanical_loads[0].power_input.tolist())

print("PROPERTY VIOLATED: the zero-load calculation left the engines switched off" if violated
      else "property holds")
sys.exit(1 if violated else 0)
