"""C12 finding 1: a propeller / propulsion-drive load that is given by its POWER INPUT
(ShaftLine.set_power_input_load_by_name, or component.power_input = ... as the FEEMS tests do)
keeps the power_output series of the EARLIER calculation; the result query integrates that stale
series (energy_consumption_propulsion_total_mj) and takes the series length for duration_s from it.

Exit status 1 = property violated (result of the 2nd calculation differs from the same calculation
on a freshly built, identical system), 0 = property holds.
"""
import logging
import sys

import numpy as np

logging.disable(logging.CRITICAL)

from feems.components_model.component_electric import (
    ElectricComponent, ElectricMachine, Genset, SerialSystemElectric,
)
from feems.components_model.component_mechanical import (
    Engine, MainEngineForMechanicalPropulsion, MechanicalPropulsionComponent,
)
from feems.components_model.utility import IntegrationMethod
from feems.system_model import ElectricPowerSystem, MechanicalPropulsionSystem
from feems.types_for_feems import TypeComponent, TypePower

BSFC = np.array([[0.25, 0.5, 0.75, 1.0], [230.0, 205.0, 195.0, 200.0]]).T
EFF = np.array([[0.25, 0.5, 0.75, 1.0], [0.93, 0.95, 0.96, 0.958]]).T


# ---------------------------------------------------------------- mechanical system
def mechanical_system():
    def main_engine(name, power):
        engine = Engine(type_=TypeComponent.MAIN_ENGINE, name=name + " engine", rated_power=power,
                        rated_speed=700, bsfc_curve=BSFC)
        return MainEngineForMechanicalPropulsion(name, engine, shaft_line_id=1)

    propeller = MechanicalPropulsionComponent(
        TypeComponent.PROPELLER_LOAD, TypePower.POWER_CONSUMER, "propeller", 5000,
        np.array([1.0]), 150, shaft_line_id=1)
    return MechanicalPropulsionSystem(
        "mech", [main_engine("me1", 3000), main_engine("me2", 2000), propeller])


def mech_calc(system, load, by):
    n = len(load)
    if by == "system setter":  # sets power_input AND power_output
        system.set_power_consumer_load_by_value_for_given_name_shaft_line_id("propeller", 1, load.copy())
    else:  # public ShaftLine method, sets power_input only
        system.shaft_line[0].set_power_input_load_by_name("propeller", load.copy())
    for name in ("me1", "me2"):
        system.set_status_main_engine_for_name_shaft_line_id(name, 1, np.ones(n, dtype=bool))
    system.set_time_interval(10.0, IntegrationMethod.simpson)
    system.do_power_balance()
    return system.get_fuel_energy_consumption_running_time()


# ---------------------------------------------------------------- electric system
def electric_system():
    def genset(name, power):
        engine = Engine(type_=TypeComponent.AUXILIARY_ENGINE, name=name + " engine",
                        rated_power=power / 0.95, rated_speed=900, bsfc_curve=BSFC)
        generator = ElectricMachine(type_=TypeComponent.GENERATOR, name=name + " generator",
                                    rated_power=power, rated_speed=900, eff_curve=EFF,
                                    power_type=TypePower.POWER_SOURCE, switchboard_id=1)
        return Genset(name, engine, generator)

    motor = ElectricComponent(type_=TypeComponent.ELECTRIC_MOTOR, name="motor", rated_power=1800,
                              eff_curve=EFF, power_type=TypePower.POWER_CONSUMER)
    drive = SerialSystemElectric(type_=TypeComponent.PROPULSION_DRIVE, name="drive",
                                 power_type=TypePower.POWER_CONSUMER, components=[motor],
                                 switchboard_id=1, rated_power=1800)
    return ElectricPowerSystem("el", [genset("g1", 1000), genset("g2", 1000), drive], [])


def el_calc(system, load, by):
    n = len(load)
    if by == "system setter":
        system.set_power_input_from_power_output_by_switchboard_id_type_name(
            load.copy(), 1, TypePower.POWER_CONSUMER, "drive")
    else:  # the way feems/tests/utility.py gives the consumer loads
        system.propulsion_drives[0].power_input = load.copy()
    system.set_status_by_switchboard_id_power_type(1, TypePower.POWER_SOURCE, np.ones((n, 2), dtype=bool))
    system.set_load_sharing_mode_power_sources_by_switchboard_id_power_type(
        1, TypePower.POWER_SOURCE, np.zeros((n, 2)))
    system.set_time_interval(10.0, IntegrationMethod.simpson)
    system.do_power_balance_calculation()
    return system.get_fuel_energy_consumption_running_time()


FIELDS = ("duration_s", "energy_consumption_propulsion_total_mj", "fuel_consumption_total_kg",
          "running_hours_main_engines_hr", "running_hours_genset_total_hr")

violated = False
for title, build, calc, first, second in (
    ("mechanical system", mechanical_system, mech_calc,
     np.array([1000.0, 2000.0, 3000.0, 2500.0, 1500.0]), np.array([500.0, 800.0, 900.0])),
    ("electric system", electric_system, el_calc,
     np.array([300.0, 600.0, 900.0, 1200.0, 800.0]), np.array([500.0, 700.0, 400.0])),
):
    used = build()
    calc(used, first, "system setter")            # calculation 1: five samples
    after_history = calc(used, second, "power input")   # calculation 2: three samples, all inputs given again
    fresh = calc(build(), second, "power input")         # the same calculation 2 on a new object
    print(f"--- {title}: calculation 2 (3 samples of 10 s) after calculation 1 (5 samples) / on a fresh object")
    for field in FIELDS:
        a, b = getattr(after_history, field), getattr(fresh, field)
        differs = not np.allclose(a, b, rtol=1e-9, atol=0)
        violated |= differs
        print(f"    {field:42s} {float(a):14.6f} {float(b):14.6f} {'<-- differs' if differs else ''}")

print("PROPERTY VIOLATED: the later calculation carries the propulsion energy / duration of the earlier one"
      if violated else "property holds")
sys.exit(1 if violated else 0)
