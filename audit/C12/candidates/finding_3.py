"""C12 finding 3: "reading results does not change them" fails for the component run-point
queries.  Genset.get_fuel_cons_load_bsfc_from_power_out_generator_kw(power=...) and
FuelCellSystem.get_fuel_cell_run_point(power_out_kw=...) answer "what does this unit burn at the
power I ask about?" - and, as a side effect, overwrite the unit's power_output that the power
balance has just computed.  A result query after such a question returns other totals than the
same query before it.

Exit status 1 = property violated, 0 = property holds.
"""
import logging
import sys

import numpy as np

logging.disable(logging.CRITICAL)

from feems.components_model.component_electric import (
    ElectricComponent, ElectricMachine, FuelCell, FuelCellSystem, Genset,
)
from feems.components_model.component_mechanical import Engine
from feems.components_model.utility import IntegrationMethod
from feems.system_model import ElectricPowerSystem
from feems.types_for_feems import TypeComponent, TypePower

BSFC = np.array([[0.25, 0.5, 0.75, 1.0], [230.0, 205.0, 195.0, 200.0]]).T
EFF = np.array([[0.25, 0.5, 0.75, 1.0], [0.93, 0.95, 0.96, 0.958]]).T
CONV = np.array([[0.25, 0.5, 0.75, 1.0], [0.96, 0.97, 0.972, 0.98]]).T

engine = Engine(type_=TypeComponent.AUXILIARY_ENGINE, name="engine", rated_power=1000 / 0.95,
                rated_speed=900, bsfc_curve=BSFC)
generator = ElectricMachine(type_=TypeComponent.GENERATOR, name="generator", rated_power=1000,
                            rated_speed=900, eff_curve=EFF, power_type=TypePower.POWER_SOURCE,
                            switchboard_id=1)
genset = Genset("genset", engine, generator)
converter = ElectricComponent(type_=TypeComponent.POWER_CONVERTER, name="fc converter",
                              rated_power=400, eff_curve=CONV,
                              power_type=TypePower.POWER_TRANSMISSION, switchboard_id=1)
stack = FuelCell("fc stack", 400 / 0.96, np.array([[0.25, 0.5, 0.75, 1.0], [0.55, 0.52, 0.48, 0.45]]).T)
fuel_cell = FuelCellSystem("fuel cell", stack, converter, 1, number_modules=2)
load = ElectricComponent(type_=TypeComponent.OTHER_LOAD, name="hotel", rated_power=1500,
                         eff_curve=np.array([1.0]), power_type=TypePower.POWER_CONSUMER,
                         switchboard_id=1)
system = ElectricPowerSystem("el", [genset, fuel_cell, load], [])

n = 4
system.set_power_input_from_power_output_by_switchboard_id_type_name(
    np.array([400.0, 700.0, 1000.0, 800.0]), 1, TypePower.POWER_CONSUMER, "hotel")
system.set_status_by_switchboard_id_power_type(1, TypePower.POWER_SOURCE, np.ones((n, 2), dtype=bool))
system.set_load_sharing_mode_power_sources_by_switchboard_id_power_type(
    1, TypePower.POWER_SOURCE, np.zeros((n, 2)))
system.set_time_interval(10.0, IntegrationMethod.trapezoid)
system.do_power_balance_calculation()


def totals():
    r = system.get_fuel_energy_consumption_running_time()
    return {
        "diesel [kg]": float(r.multi_fuel_consumption_total_kg.diesel),
        "hydrogen [kg]": float(r.multi_fuel_consumption_total_kg.hydrogen),
        "CO2 tank-to-wake [kg]": float(r.co2_emission_total_kg.tank_to_wake_kg_or_gco2eq_per_gfuel),
        "genset running hours": float(r.running_hours_genset_total_hr),
    }


before = totals()
again = totals()
# Interleaved queries: specific consumption of the two units at a reference load, and at rest
bsfc = genset.get_fuel_cons_load_bsfc_from_power_out_generator_kw(power=np.full(n, 750.0)).engine.bsfc_g_per_kWh
after_genset_question = totals()
system.do_power_balance_calculation()          # (calculate once more, to separate the two effects)
fuel_cell.get_fuel_cell_run_point(power_out_kw=np.zeros(n))
after_fuel_cell_question = totals()

print(f"bsfc of the genset at 750 kW: {bsfc[0]:.2f} g/kWh (the question that was asked)")
print(f"{'':26s}{'first query':>14s}{'second query':>14s}{'after genset q.':>17s}{'after fuel cell q.':>20s}")
violated = False
for key in before:
    row = (before[key], again[key], after_genset_question[key], after_fuel_cell_question[key])
    differs = not np.allclose(row, row[0], rtol=1e-9, atol=0)
    violated |= differs
    print(f"{key:26s}{row[0]:14.6f}{row[1]:14.6f}{row[2]:17.6f}{row[3]:20.6f} {'<-- differs' if differs else ''}")
print("PROPERTY VIOLATED: a run-point query changed the totals of the same calculation" if violated
      else "property holds")
sys.exit(1 if violated else 0)
