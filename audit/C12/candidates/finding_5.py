"""C12 finding 5: the protobuf export keeps data of the earlier calculation when the
FEEMSResultConverter object is used again.  The converter has public attributes feems_result and
system_feems (the setter of system_feems empties the collected time series, so using it again is
foreseen), but the time axis is a functools.cached_property and the collected time series are
looked up "first match": after a second calculation with another series length the exported
component time series carry the time axis (or all series) of the first calculation.

Exit status 1 = property violated, 0 = property holds.
"""
import logging
import sys

import numpy as np

logging.disable(logging.CRITICAL)

from feems.components_model.component_electric import ElectricComponent, ElectricMachine, Genset
from feems.components_model.component_mechanical import Engine
from feems.components_model.utility import IntegrationMethod
from feems.system_model import ElectricPowerSystem
from feems.types_for_feems import TypeComponent, TypePower
from MachSysS.convert_feems_result_to_proto import FEEMSResultConverter

logging.disable(logging.CRITICAL)
BSFC = np.array([[0.25, 0.5, 0.75, 1.0], [230.0, 205.0, 195.0, 200.0]]).T
EFF = np.array([[0.25, 0.5, 0.75, 1.0], [0.93, 0.95, 0.96, 0.958]]).T


def genset(name):
    engine = Engine(type_=TypeComponent.AUXILIARY_ENGINE, name=name + " engine",
                    rated_power=1000 / 0.95, rated_speed=900, bsfc_curve=BSFC)
    generator = ElectricMachine(type_=TypeComponent.GENERATOR, name=name + " generator",
                                rated_power=1000, rated_speed=900, eff_curve=EFF,
                                power_type=TypePower.POWER_SOURCE, switchboard_id=1)
    return Genset(name, engine, generator)


hotel = ElectricComponent(type_=TypeComponent.OTHER_LOAD, name="hotel", rated_power=2000,
                          eff_curve=np.array([1.0]), power_type=TypePower.POWER_CONSUMER,
                          switchboard_id=1)
system = ElectricPowerSystem("el", [genset("g1"), genset("g2"), hotel], [])


def calculate(load):
    n = len(load)
    system.set_power_input_from_power_output_by_switchboard_id_type_name(
        load.copy(), 1, TypePower.POWER_CONSUMER, "hotel")
    system.set_status_by_switchboard_id_power_type(1, TypePower.POWER_SOURCE, np.ones((n, 2), dtype=bool))
    system.set_load_sharing_mode_power_sources_by_switchboard_id_power_type(
        1, TypePower.POWER_SOURCE, np.zeros((n, 2)))
    system.set_time_interval(10.0, IntegrationMethod.simpson)
    system.do_power_balance_calculation()
    return system.get_fuel_energy_consumption_running_time()


def series(message):
    return {c.component_name: (list(c.result_time_series.time), list(c.result_time_series.power_output_kw))
            for c in message.electric_system.detailed_result}


first = calculate(np.array([400.0, 800.0, 1200.0, 1600.0, 1000.0]))      # calculation 1: five samples
converter = FEEMSResultConverter(first, system)
export_1 = converter.get_feems_result_proto(include_time_series_for_components=True)
export_1_again = converter.get_feems_result_proto(include_time_series_for_components=True)
print("exporting calculation 1 twice gives the same message:", export_1 == export_1_again)

second = calculate(np.array([600.0, 900.0, 500.0]))                      # calculation 2: three samples
reference = FEEMSResultConverter(second, system).get_feems_result_proto(
    include_time_series_for_components=True)

converter.feems_result = second          # the converter is used again, result given afresh ...
export_2_result_only = converter.get_feems_result_proto(include_time_series_for_components=True)
converter.system_feems = system          # ... and also the system (this empties the collected series)
export_2_both = converter.get_feems_result_proto(include_time_series_for_components=True)

violated = False
for title, message in (("converter used again, feems_result set", export_2_result_only),
                       ("converter used again, feems_result and system_feems set", export_2_both)):
    same = message == reference
    violated |= not same
    print(f"{title}: export equals that of a new converter: {same}")
    for name, (time, power) in series(message).items():
        ref_time, ref_power = series(reference)[name]
        print(f"    {name}: time {time}  power {np.round(power, 1).tolist()}")
        print(f"    {'':{len(name)}s}  new converter: time {ref_time}  power {np.round(ref_power, 1).tolist()}")
print("totals of the message are those of calculation 2 in all cases:",
      export_2_both.electric_system.multi_fuel_consumption_total_kg
      == reference.electric_system.multi_fuel_consumption_total_kg)
print("PROPERTY VIOLATED: the export of calculation 2 carries the time axis / series of calculation 1"
      if violated else "property holds")
sys.exit(1 if violated else 0)
