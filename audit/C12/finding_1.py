"""C12 finding 1: a one-step calculation on an ElectricPowerSystem with a battery that shares the
load (load sharing mode 0) inherits the series length of the EARLIER calculation.

Run A: 5 steps.  Run B: 1 step, every input supplied afresh (load, status, sharing modes, time
interval).  The same run B on a fresh, identically built system is the reference.
Exit status 1 = property violated (results of run B depend on run A), 0 = holds.
"""
import logging
import sys

import numpy as np

logging.disable(logging.CRITICAL)

from feems.components_model.component_electric import (
    Battery,
    BatterySystem,
    ElectricComponent,
    ElectricMachine,
    Genset,
)
from feems.components_model.component_mechanical import Engine
from feems.components_model.utility import IntegrationMethod
from feems.system_model import ElectricPowerSystem
from feems.types_for_feems import TypeComponent, TypePower

EFF = np.array([[0.0, 0.80], [0.25, 0.88], [0.5, 0.93], [0.75, 0.95], [1.0, 0.96]])
BSFC = np.array([[0.1, 260.0], [0.25, 230.0], [0.5, 205.0], [0.75, 195.0], [1.0, 200.0]])


def genset(name):
    engine = Engine(
        type_=TypeComponent.AUXILIARY_ENGINE, name=name + " engine", rated_power=1100.0,
        rated_speed=900.0, bsfc_curve=BSFC,
    )
    generator = ElectricMachine(
        type_=TypeComponent.GENERATOR, name=name + " generator", rated_power=1000.0,
        rated_speed=900.0, power_type=TypePower.POWER_SOURCE, switchboard_id=1, eff_curve=EFF,
    )
    return Genset(name, engine, generator)


def build():
    battery = Battery("battery cells", 1000.0, 1.0, 1.0, switchboard_id=1)
    converter = ElectricComponent(
        type_=TypeComponent.POWER_CONVERTER, name="battery converter", rated_power=1000.0,
        eff_curve=EFF, power_type=TypePower.ENERGY_STORAGE, switchboard_id=1,
    )
    components = [
        genset("genset 1"),
        genset("genset 2"),
        BatterySystem("battery", battery, converter, 1),
        ElectricComponent(
            type_=TypeComponent.OTHER_LOAD, name="hotel", rated_power=2000.0, eff_curve=EFF,
            power_type=TypePower.POWER_CONSUMER, switchboard_id=1,
        ),
    ]
    return ElectricPowerSystem("plant", components, []), components


def calculate(system, components, load_kw):
    """One complete calculation; every input is supplied afresh."""
    n = len(load_kw)
    g1, g2, battery, hotel = components
    system.set_time_interval(60.0, IntegrationMethod.trapezoid)
    hotel.set_power_input_from_output(np.array(load_kw, dtype=float))
    system.set_status_by_switchboard_id_power_type(
        1, TypePower.POWER_SOURCE, np.ones((n, 2), dtype=bool)
    )
    system.set_load_sharing_mode_power_sources_by_switchboard_id_power_type(
        1, TypePower.POWER_SOURCE, np.zeros((n, 2))
    )
    battery.status = np.ones(n, dtype=bool)
    battery.load_sharing_mode = np.zeros(n)  # the battery shares the load: its power is a result
    system.do_power_balance_calculation()
    result = system.get_fuel_energy_consumption_running_time()
    return {
        "points genset 1": int(np.size(g1.power_output)),
        "duration_s": float(result.duration_s),
        "fuel_kg": float(result.fuel_consumption_total_kg),
        "co2_ttw_kg": float(result.co2_emission_total_kg.tank_to_wake_kg_or_gco2eq_per_gfuel),
        "nox_kg": float(sum(v for k, v in result.total_emission_kg.items() if k.name == "NOX")),
        "running_hours_genset_h": float(result.running_hours_genset_total_hr),
        "energy_stored_mj": float(result.energy_stored_total_mj),
    }


used_system, used_components = build()
calculate(used_system, used_components, [500.0, 600.0, 700.0, 800.0, 900.0])  # run A: 5 steps
after_history = calculate(used_system, used_components, [500.0])  # run B: 1 step
again = calculate(used_system, used_components, [500.0])  # run B repeated

fresh_system, fresh_components = build()
reference = calculate(fresh_system, fresh_components, [500.0])  # run B on a fresh system

violated = False
print("one-step calculation (500 kW, 60 s):  after a 5-step calculation  |  on a fresh system")
for key in reference:
    a, b = after_history[key], reference[key]
    flag = "" if np.isclose(a, b, rtol=1e-9, atol=1e-12) else "   <-- differs"
    violated |= bool(flag)
    print(f"  {key:24s} {a:16.6f} | {b:16.6f}{flag}")
if again != after_history:
    print("the repeated run B differs from run B:", again)
    violated = True
if violated:
    print("VIOLATED: the series length of the earlier calculation (the battery's left-over "
          "power_input) decides the length, duration and totals of the later one-step calculation.")
    sys.exit(1)
print("property holds")
sys.exit(0)
