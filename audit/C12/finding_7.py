"""C12 finding 3 (protobuf export clause): a FEEMSResultConverter that has exported one calculation
keeps that calculation's component series and time axis, and writes them into the export of a
later calculation of the same system.

FEEMSResultConverter offers re-use: feems_result is a plain attribute and the system_feems setter
empties the collected component series. Two things survive nevertheless:
  (a) _time_interval_to_time_array is a functools.cached_property: with per-interval time steps
      (IntegrationMethod.sum_with_time) the time axis of the FIRST export is written next to the
      power series of the later calculation (other length, other instants);
  (b) without going through the system_feems setter, _retrieve_time_series_data_from_components()
      appends to the lists of the first export and the lookup takes the first match: the later
      export carries the totals of the new result and the component series of the old calculation.
A converter made new for the later result exports the right series, so the export depends on what
was exported before.

Exit status 1 = property violated (current code), 0 = holds.
"""
import logging
import sys

import numpy as np

logging.disable(logging.CRITICAL)

from feems.components_model.component_electric import ElectricComponent, ElectricMachine, Genset
from feems.components_model.component_mechanical import Engine
from feems.components_model.utility import IntegrationMethod
from feems.system_model import ElectricPowerSystem
from feems.types_for_feems import TypeComponent, TypePower, Power_kW, Speed_rpm, SwbId
from MachSysS.convert_feems_result_to_proto import FEEMSResultConverter

EFF = np.array([[0.0, 0.85], [0.25, 0.9], [0.5, 0.94], [0.75, 0.96], [1.0, 0.97]])
BSFC = np.array([[0.25, 230.0], [0.5, 210.0], [0.75, 200.0], [1.0, 205.0]])


def genset(name):
    eng = Engine(
        type_=TypeComponent.AUXILIARY_ENGINE,
        name=name + " engine",
        rated_power=Power_kW(1050.0),
        rated_speed=Speed_rpm(900),
        bsfc_curve=BSFC,
    )
    gen = ElectricMachine(
        type_=TypeComponent.GENERATOR,
        name=name + " generator",
        rated_power=Power_kW(1000.0),
        rated_speed=Speed_rpm(900),
        power_type=TypePower.POWER_SOURCE,
        switchboard_id=SwbId(1),
        eff_curve=EFF,
    )
    return Genset(name, eng, gen)


system = ElectricPowerSystem(
    "two gensets, one load",
    [
        genset("g1"),
        genset("g2"),
        ElectricComponent(
            type_=TypeComponent.OTHER_LOAD,
            name="load",
            rated_power=Power_kW(1500.0),
            eff_curve=EFF,
            power_type=TypePower.POWER_CONSUMER,
            switchboard_id=SwbId(1),
        ),
    ],
    [],
)


def calculate(load_kw, interval_s):
    """A complete calculation: every input is supplied"""
    n = len(load_kw)
    system.other_load[0].set_power_input_from_output(np.array(load_kw, dtype=float))
    for source in system.power_sources:
        source.status = np.ones(n, dtype=bool)
        source.load_sharing_mode = np.zeros(1)
    system.set_time_interval(np.array(interval_s, dtype=float), IntegrationMethod.sum_with_time)
    system.do_power_balance_calculation()
    return system.get_fuel_energy_consumption_running_time()


def series_of_g1(message):
    item = next(x for x in message.electric_system.detailed_result if x.component_name == "g1")
    return list(item.result_time_series.time), [round(v, 3) for v in item.result_time_series.power_output_kw]


violations = 0

# first calculation (5 intervals of 10 s) and its export
result_1 = calculate([100, 200, 300, 400, 500], [10, 10, 10, 10, 10])
converter = FEEMSResultConverter(feems_result=result_1, system_feems=system)
converter.get_feems_result_proto(include_time_series_for_components=True)

# second calculation (3 intervals of 5 s)
result_2 = calculate([600, 700, 800], [5, 5, 5])
expected = series_of_g1(
    FEEMSResultConverter(feems_result=result_2, system_feems=system).get_feems_result_proto(
        include_time_series_for_components=True
    )
)
print("export of calculation 2 by a new converter      : time", expected[0], "power g1", expected[1])

# (a) the converter is handed the new result and the system again (the setter empties its lists)
converter.feems_result = result_2
converter.system_feems = system
got = series_of_g1(converter.get_feems_result_proto(include_time_series_for_components=True))
print("(a) same converter, result and system set again : time", got[0], "power g1", got[1])
if got != expected:
    print("    -> DIFFERENT: the time axis is the one of calculation 1")
    violations += 1

# (b) the converter is handed the new result only
result_3 = calculate([100, 200, 300], [5, 5, 5])
expected = series_of_g1(
    FEEMSResultConverter(feems_result=result_3, system_feems=system).get_feems_result_proto(
        include_time_series_for_components=True
    )
)
converter_b = FEEMSResultConverter(feems_result=result_2, system_feems=system)
calculate([600, 700, 800], [5, 5, 5])
converter_b.get_feems_result_proto(include_time_series_for_components=True)
calculate([100, 200, 300], [5, 5, 5])
converter_b.feems_result = result_3
message = converter_b.get_feems_result_proto(include_time_series_for_components=True)
got = series_of_g1(message)
print("export of calculation 3 by a new converter      : time", expected[0], "power g1", expected[1])
print("(b) same converter, new result set              : time", got[0], "power g1", got[1])
if got != expected:
    print("    -> DIFFERENT: the component series are those of the calculation exported before")
    violations += 1

print(f"\n{violations} violation(s) of C12")
sys.exit(1 if violations else 0)
