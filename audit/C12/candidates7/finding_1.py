"""C12 finding 1: reading the totals of a composite system (HybridPropulsionSystem or
MechanicalPropulsionSystemWithElectricPowerSystem) rewrites the time base (time interval AND
integration method) of its two sub-systems.  The totals that the sub-systems report for the SAME,
untouched calculation are different before and after that read.

Clause of the property that fails: "Reading results - totals ... - does not change them."

Run:  PYTHONPATH=<wt>/feems:<wt>/machinery-system-structure:<wt>/RunFEEMSSim python finding_1.py
exit status 1 = property violated, 0 = property holds.
"""
import logging
import sys

import numpy as np

logging.disable(logging.CRITICAL)

from feems.components_model.component_base import BasicComponent
from feems.components_model.component_electric import (
    ElectricComponent,
    ElectricMachine,
    Genset,
    PTIPTO,
)
from feems.components_model.component_mechanical import (
    Engine,
    MainEngineForMechanicalPropulsion,
    MechanicalPropulsionComponent,
)
from feems.components_model.utility import IntegrationMethod
from feems.system_model import (
    ElectricPowerSystem,
    HybridPropulsionSystem,
    MechanicalPropulsionSystem,
    MechanicalPropulsionSystemWithElectricPowerSystem,
)
from feems.types_for_feems import TypeComponent, TypePower

EFF = np.array([[0.0, 0.80], [0.25, 0.90], [0.5, 0.94], [0.75, 0.955], [1.0, 0.96]])
BSFC = np.array([[0.1, 260.0], [0.25, 230.0], [0.5, 205.0], [0.75, 195.0], [1.0, 200.0]])


def genset(name, swb):
    eng = Engine(
        type_=TypeComponent.AUXILIARY_ENGINE, name=name + " engine", rated_power=1000.0,
        rated_speed=900.0, bsfc_curve=BSFC,
    )
    gen = ElectricMachine(
        type_=TypeComponent.GENERATOR, name=name + " generator", rated_power=950.0,
        rated_speed=900.0, power_type=TypePower.POWER_SOURCE, switchboard_id=swb, eff_curve=EFF,
    )
    return Genset(name, eng, gen)


def build(hybrid: bool):
    engine = Engine(
        type_=TypeComponent.MAIN_ENGINE, name="ME engine", rated_power=3000.0, rated_speed=500.0,
        bsfc_curve=BSFC,
    )
    mech = [
        MainEngineForMechanicalPropulsion("ME", engine, shaft_line_id=1),
        MechanicalPropulsionComponent(
            TypeComponent.PROPELLER_LOAD, TypePower.POWER_CONSUMER, "propeller", 3500.0, EFF,
            shaft_line_id=1,
        ),
    ]
    elec = [
        genset("G1", 1),
        genset("G2", 1),
        ElectricComponent(
            type_=TypeComponent.OTHER_LOAD, name="hotel", rated_power=1500.0, eff_curve=EFF,
            power_type=TypePower.POWER_CONSUMER, switchboard_id=1,
        ),
    ]
    if hybrid:
        pto = PTIPTO(
            "PTO",
            [
                ElectricComponent(type_=TypeComponent.TRANSFORMER, name="tr", rated_power=800.0, eff_curve=EFF),
                ElectricMachine(type_=TypeComponent.SYNCHRONOUS_MACHINE, name="sm", rated_power=800.0, rated_speed=900.0, eff_curve=EFF),
                BasicComponent(type_=TypeComponent.GEARBOX, power_type=TypePower.PTI_PTO, name="gb", rated_power=800.0, eff_curve=EFF),
            ],
            1, 800.0, 900.0, 1,
        )
        mech.append(pto)
        elec.append(pto)
    es = ElectricPowerSystem("electric", elec, [])
    ms = MechanicalPropulsionSystem("mechanical", mech)
    if hybrid:
        return HybridPropulsionSystem("hybrid", es, ms)
    return MechanicalPropulsionSystemWithElectricPowerSystem("conventional", es, ms)


def calculate(system, n=7, dt=60.0):
    """One ordinary calculation: 7 samples, 60 s apart, integrated by the trapezoid rule."""
    rng = np.random.default_rng(3)
    es, ms = system.electric_system, system.mechanical_system
    es.other_load[0].set_power_input_from_output(rng.uniform(200.0, 1200.0, n))
    ms.mechanical_loads[0].set_power_input_from_output(rng.uniform(500.0, 2500.0, n))
    for source in es.power_sources:
        source.status = np.ones(n, dtype=bool)
        source.load_sharing_mode = np.zeros(n)
    for main_engine in ms.main_engines:
        main_engine.status = np.ones(n, dtype=bool)
    for pti_pto in es.pti_pto:  # shaft generator sharing the bus load
        pti_pto.status = np.ones(n, dtype=bool)
        pti_pto.load_sharing_mode = np.zeros(n)
        pti_pto.full_pti_mode = np.zeros(n, dtype=bool)
    system.set_time_interval(dt, IntegrationMethod.trapezoid)
    system.do_power_balance_calculation()
    return dt


violated = False
for hybrid in (True, False):
    system = build(hybrid)
    dt = calculate(system)
    es, ms = system.electric_system, system.mechanical_system

    # read the totals of the sub-systems
    fuel_el_before = es.get_fuel_energy_consumption_running_time().fuel_consumption_total_kg
    fuel_me_before = ms.get_fuel_energy_consumption_running_time().fuel_consumption_total_kg
    method_before = (system.integration_method, es.integration_method, ms.integration_method)

    # read the totals of the whole system (the call demands the time interval; it is the one set)
    system.get_fuel_energy_consumption_running_time(dt)

    # read the totals of the sub-systems again: nothing was calculated or set in between
    fuel_el_after = es.get_fuel_energy_consumption_running_time().fuel_consumption_total_kg
    fuel_me_after = ms.get_fuel_energy_consumption_running_time().fuel_consumption_total_kg
    method_after = (system.integration_method, es.integration_method, ms.integration_method)

    print(type(system).__name__)
    print("  integration method (system, electric, mechanical) before the read:", [m.name for m in method_before])
    print("  integration method (system, electric, mechanical) after the read: ", [m.name for m in method_after])
    print(f"  electric fuel total   before {fuel_el_before:.6f} kg   after {fuel_el_after:.6f} kg")
    print(f"  mechanical fuel total before {fuel_me_before:.6f} kg   after {fuel_me_after:.6f} kg")
    if fuel_el_before != fuel_el_after or fuel_me_before != fuel_me_after or method_before != method_after:
        violated = True

if violated:
    print("PROPERTY VIOLATED: reading the system totals changed what the sub-systems report")
    sys.exit(1)
print("property holds")
sys.exit(0)
