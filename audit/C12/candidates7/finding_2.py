"""C12 finding 2: through the RunFeemsSim front end, the load series of a shaft-driven auxiliary
(TypeComponent.OTHER_MECHANICAL_LOAD, e.g. a cargo pump on the shaft line) is KEPT from run to run
when the next profile has the same number of samples, but silently REPLACED BY ZEROS - for good -
as soon as one profile of another length is calculated.  Repeating a calculation with identical
arguments therefore gives another result after an interleaved calculation of another length.

Clause of the property that fails: "Repeating a calculation with the same inputs on the same
system object gives identical results, and an earlier calculation with different ... series
length leaves no trace in a later one".

Run:  PYTHONPATH=<wt>/feems:<wt>/machinery-system-structure:<wt>/RunFEEMSSim python finding_2.py
exit status 1 = property violated, 0 = property holds.
"""
import logging
import sys

import numpy as np
import pandas as pd

logging.disable(logging.CRITICAL)

from feems.components_model.component_electric import ElectricComponent, ElectricMachine, Genset
from feems.components_model.component_mechanical import (
    Engine,
    MainEngineForMechanicalPropulsion,
    MechanicalPropulsionComponent,
)
from feems.system_model import (
    ElectricPowerSystem,
    MechanicalPropulsionSystem,
    MechanicalPropulsionSystemWithElectricPowerSystem,
)
from feems.types_for_feems import TypeComponent, TypePower
from RunFeemsSim.machinery_calculation import MachineryCalculation

EFF = np.array([[0.0, 0.80], [0.25, 0.90], [0.5, 0.94], [0.75, 0.955], [1.0, 0.96]])
BSFC = np.array([[0.1, 260.0], [0.25, 230.0], [0.5, 205.0], [0.75, 195.0], [1.0, 200.0]])


def genset(name):
    eng = Engine(
        type_=TypeComponent.AUXILIARY_ENGINE, name=name + " engine", rated_power=1000.0,
        rated_speed=900.0, bsfc_curve=BSFC,
    )
    gen = ElectricMachine(
        type_=TypeComponent.GENERATOR, name=name + " generator", rated_power=950.0,
        rated_speed=900.0, power_type=TypePower.POWER_SOURCE, switchboard_id=1, eff_curve=EFF,
    )
    return Genset(name, eng, gen)


def build():
    engine = Engine(
        type_=TypeComponent.MAIN_ENGINE, name="ME engine", rated_power=5000.0, rated_speed=500.0,
        bsfc_curve=BSFC,
    )
    pump = MechanicalPropulsionComponent(
        TypeComponent.OTHER_MECHANICAL_LOAD, TypePower.POWER_CONSUMER, "cargo pump", 300.0, EFF,
        shaft_line_id=1,
    )
    mech = [
        MainEngineForMechanicalPropulsion("ME", engine, shaft_line_id=1),
        MechanicalPropulsionComponent(
            TypeComponent.PROPELLER_LOAD, TypePower.POWER_CONSUMER, "propeller", 5000.0, EFF,
            shaft_line_id=1,
        ),
        pump,
    ]
    elec = [
        genset("G1"),
        genset("G2"),
        ElectricComponent(
            type_=TypeComponent.OTHER_LOAD, name="hotel", rated_power=1500.0, eff_curve=EFF,
            power_type=TypePower.POWER_CONSUMER, switchboard_id=1,
        ),
    ]
    system = MechanicalPropulsionSystemWithElectricPowerSystem(
        "vessel", ElectricPowerSystem("electric", elec, []), MechanicalPropulsionSystem("mech", mech)
    )
    return system, pump


def profile(number_of_intervals, seed):
    rng = np.random.default_rng(seed)
    time = np.arange(number_of_intervals + 1) * 60.0
    return (
        pd.Series(rng.uniform(500.0, 4000.0, number_of_intervals + 1), index=time),
        rng.uniform(100.0, 400.0, number_of_intervals + 1),
    )


def run(calculation, prof):
    propulsion, auxiliary = prof
    result = calculation.calculate_machinery_system_output_from_propulsion_power_time_series(
        propulsion_power=propulsion, auxiliary_power_kw=auxiliary
    )
    mech = result.mechanical_system
    return float(mech.fuel_consumption_total_kg), float(mech.energy_consumption_auxiliary_total_mj)


profile_a = profile(5, seed=1)  # five intervals
profile_b = profile(5, seed=4)  # five intervals, other loads
profile_z = profile(3, seed=2)  # three intervals


def sequence(interleaved_profile):
    """pump load given once; calculate profile A, an interleaved profile, profile A again"""
    system, pump = build()
    calculation = MachineryCalculation(system)
    pump.set_power_input_from_output(np.full(5, 150.0))  # 150 kW on the shaft, five samples
    first = run(calculation, profile_a)
    run(calculation, interleaved_profile)
    again = run(calculation, profile_a)
    return first, again


first_b, again_b = sequence(profile_b)
first_z, again_z = sequence(profile_z)
print("(main engine fuel [kg], energy of the shaft-driven auxiliary [MJ])")
print("profile A, first calculation:                         ", first_b)
print("profile A again, after a profile of the SAME length:   ", again_b)
print("profile A again, after a profile of ANOTHER length:    ", again_z)

violated = False
if first_b != again_b or first_z != again_z:
    print("-> repeating the calculation with the same arguments gave another result")
    violated = True
if again_b != again_z:
    print("-> the result of the last calculation depends on the series length of the one before it")
    violated = True

if violated:
    print("PROPERTY VIOLATED")
    sys.exit(1)
print("property holds")
sys.exit(0)
