"""C12 finding 4: on a HybridPropulsionSystem a NaN left in the PTI/PTO by an earlier calculation
survives into a later calculation whose inputs are all supplied afresh and are valid, when that
later calculation uses full PTI mode at some step.

Run A: at step 1 nothing runs on the bus (both gensets and the PTI/PTO are off) although there is
       a hotel load: the known inf/NaN case.  It leaves NaN in the PTI/PTO's power_input[1].
Run B: all sources on, full PTI mode at step 0, PTI/PTO shares the load (mode 0) elsewhere.
Reference: run B on a fresh, identically built system.
Exit status 1 = property violated, 0 = holds.
"""
import logging
import sys
import warnings

import numpy as np

logging.disable(logging.CRITICAL)
warnings.filterwarnings("ignore")

from feems.components_model.component_electric import (
    ElectricComponent,
    ElectricMachine,
    Genset,
    PTIPTO,
)
from feems.components_model.component_mechanical import (
    Engine,
    MainEngineForMechanicalPropulsion,
    MechanicalPropulsionComponent,
)
from feems.components_model.utility import IntegrationMethod
from feems.system_model import (
    ElectricPowerSystem,
    HybridPropulsionSystem,
    MechanicalPropulsionSystem,
)
from feems.types_for_feems import TypeComponent, TypePower

EFF = np.array([[0.0, 0.80], [0.25, 0.88], [0.5, 0.93], [0.75, 0.95], [1.0, 0.96]])
BSFC = np.array([[0.1, 260.0], [0.25, 230.0], [0.5, 205.0], [0.75, 195.0], [1.0, 200.0]])


def genset(name):
    engine = Engine(
        type_=TypeComponent.AUXILIARY_ENGINE, name=name + " engine", rated_power=1100.0,
        rated_speed=900.0, bsfc_curve=BSFC,
    )
    generator = ElectricMachine(
        type_=TypeComponent.GENERATOR, name=name + " generator", rated_power=1000.0,
        rated_speed=900.0, power_type=TypePower.POWER_SOURCE, switchboard_id=1, eff_curve=EFF,
    )
    return Genset(name, engine, generator)


def build():
    pti_pto = PTIPTO(
        "pti/pto",
        [
            ElectricComponent(
                type_=TypeComponent.POWER_CONVERTER, name="converter", rated_power=800.0,
                eff_curve=EFF, power_type=TypePower.PTI_PTO, switchboard_id=1,
            ),
            ElectricMachine(
                type_=TypeComponent.SYNCHRONOUS_MACHINE, name="shaft machine", rated_power=800.0,
                rated_speed=900.0, eff_curve=EFF, power_type=TypePower.PTI_PTO, switchboard_id=1,
            ),
        ],
        1, 800.0, 900.0, 1,
    )
    hotel = ElectricComponent(
        type_=TypeComponent.OTHER_LOAD, name="hotel", rated_power=2000.0, eff_curve=EFF,
        power_type=TypePower.POWER_CONSUMER, switchboard_id=1,
    )
    g1, g2 = genset("genset 1"), genset("genset 2")
    main_engine = MainEngineForMechanicalPropulsion(
        "main engine",
        Engine(type_=TypeComponent.MAIN_ENGINE, name="me", rated_power=3000.0, rated_speed=500.0,
               bsfc_curve=BSFC),
        1,
    )
    propeller = MechanicalPropulsionComponent(
        TypeComponent.PROPELLER_LOAD, TypePower.POWER_CONSUMER, "propeller", 4000.0, EFF, 150.0, 1
    )
    system = HybridPropulsionSystem(
        "hybrid",
        ElectricPowerSystem("electric", [g1, g2, pti_pto, hotel], []),
        MechanicalPropulsionSystem("mechanical", [main_engine, propeller, pti_pto]),
    )
    return system, dict(g1=g1, g2=g2, pti_pto=pti_pto, hotel=hotel, me=main_engine, prop=propeller)


def calculate(system, c, propeller_kw, hotel_kw, gensets_on, pti_pto_on, full_pti):
    """One complete calculation; every input is supplied afresh."""
    n = len(propeller_kw)
    system.set_time_interval(60.0, IntegrationMethod.trapezoid)
    c["prop"].set_power_input_from_output(np.array(propeller_kw, dtype=float))
    c["hotel"].set_power_input_from_output(np.array(hotel_kw, dtype=float))
    for genset_, on in zip((c["g1"], c["g2"]), np.array(gensets_on, dtype=bool).T):
        genset_.status = on
        genset_.load_sharing_mode = np.zeros(n)
    c["me"].status = np.ones(n, dtype=bool)
    c["pti_pto"].status = np.array(pti_pto_on, dtype=bool)
    c["pti_pto"].load_sharing_mode = np.zeros(n)
    c["pti_pto"].full_pti_mode = np.array(full_pti, dtype=bool)
    system.do_power_balance_calculation()
    result = system.get_fuel_energy_consumption_running_time(60.0, IntegrationMethod.trapezoid)
    return {
        "genset 1 kW": np.round(c["g1"].power_output, 6).tolist(),
        "pti/pto electric kW": np.round(c["pti_pto"].power_input, 6).tolist(),
        "main engine kW": np.round(c["me"].power_output, 6).tolist(),
        "fuel electric kg": float(result.electric_system.fuel_consumption_total_kg),
        "fuel mechanical kg": float(result.mechanical_system.fuel_consumption_total_kg),
    }


run_b = dict(
    propeller_kw=[500.0, 600.0, 700.0], hotel_kw=[100.0, 100.0, 100.0],
    gensets_on=[[1, 1], [1, 1], [1, 1]], pti_pto_on=[1, 1, 1], full_pti=[1, 0, 0],
)

fresh_system, fresh_c = build()
reference = calculate(fresh_system, fresh_c, **run_b)

used_system, used_c = build()
calculate(  # run A: nothing runs on the bus at step 1
    used_system, used_c, propeller_kw=[500.0, 600.0, 700.0], hotel_kw=[100.0, 100.0, 100.0],
    gensets_on=[[1, 1], [0, 0], [1, 1]], pti_pto_on=[1, 0, 1], full_pti=[0, 0, 0],
)
print("left in the PTI/PTO by run A: power_input =", used_c["pti_pto"].power_input)
after_history = calculate(used_system, used_c, **run_b)
third = calculate(used_system, used_c, **run_b)

print("run B on a fresh system :", reference)
print("run B after run A       :", after_history)
print("run B once more         :", third)


def same(a, b):
    return all(np.allclose(a[k], b[k], rtol=1e-6, atol=1e-9, equal_nan=False) for k in a)


if not same(after_history, reference) or not same(third, reference):
    print("VIOLATED: the NaN of the earlier calculation stays in the later ones "
          "(NaN * load sharing mode 0 = NaN in the sum of the bus load).")
    sys.exit(1)
print("property holds")
sys.exit(0)
