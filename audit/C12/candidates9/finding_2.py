"""C12 finding 2: feems.runsimulation.run_simulation with EqualEngineSizeAllClosedSimulationInterface
keeps the load sharing modes that an earlier calculation left on the power sources.

The interface decides, for every sample, how many (equal) gensets run, closes all bus-tie breakers and
puts the energy storage units into equal load sharing (status and sharing mode are written for
them). The sharing modes of the POWER SOURCES are not written - the two other interfaces
(PmsLoadTableSimulationInterface, BatteryFuelCellDieselHybridSimulationInterface) do write them.
So a fixed share (sharing mode != 0) that an earlier calculation on the same system object used
stays in force: with the same series length the result is silently another one than on a new
object (a genset keeps its old fixed load), with another series length the calculation is refused.

Exit status 1 = property violated (current code), 0 = holds.
"""
import logging
import sys

import numpy as np

logging.disable(logging.CRITICAL)

from feems.components_model.component_electric import ElectricComponent, ElectricMachine, Genset
from feems.components_model.component_mechanical import Engine
from feems.components_model.utility import IntegrationMethod
from feems.runsimulation import (
    run_simulation,
    EqualEngineSizeAllClosedSimulationInterface,
    BatteryFuelCellDieselHybridSimulationInterface,
)
from feems.simulation_interface import EnergySourceType
from feems.system_model import ElectricPowerSystem
from feems.types_for_feems import TypeComponent, TypePower, Power_kW, Speed_rpm, SwbId

EFF = np.array([[0.0, 0.85], [0.25, 0.9], [0.5, 0.94], [0.75, 0.96], [1.0, 0.97]])
BSFC = np.array([[0.25, 230.0], [0.5, 210.0], [0.75, 200.0], [1.0, 205.0]])


def genset(name, swb):
    eng = Engine(
        type_=TypeComponent.AUXILIARY_ENGINE,
        name=name + " engine",
        rated_power=Power_kW(1050.0),
        rated_speed=Speed_rpm(900),
        bsfc_curve=BSFC,
    )
    gen = ElectricMachine(
        type_=TypeComponent.GENERATOR,
        name=name + " generator",
        rated_power=Power_kW(1000.0),
        rated_speed=Speed_rpm(900),
        power_type=TypePower.POWER_SOURCE,
        switchboard_id=SwbId(swb),
        eff_curve=EFF,
    )
    return Genset(name, eng, gen)


def load(name, swb):
    return ElectricComponent(
        type_=TypeComponent.OTHER_LOAD,
        name=name,
        rated_power=Power_kW(1500.0),
        eff_curve=EFF,
        power_type=TypePower.POWER_CONSUMER,
        switchboard_id=SwbId(swb),
    )


def plant():
    return ElectricPowerSystem(
        "four equal gensets on two switchboards",
        [genset("g1", 1), genset("g2", 1), genset("g3", 2), genset("g4", 2), load("load 1", 1), load("load 2", 2)],
        [(SwbId(1), SwbId(2))],
    )


INTERFACE = EqualEngineSizeAllClosedSimulationInterface(
    swb2n_gensets={SwbId(1): 2, SwbId(2): 2},
    rated_power_gensets=1000.0,
    n_bus_ties=1,
    maximum_allowable_genset_load_percentage=0.8,
)


def later_calculation(system, n):
    """The later calculation: every input it has is supplied - the loads, the time step, and the
    interface that decides the state of the plant."""
    for consumer in system.other_load:
        consumer.set_power_input_from_output(np.linspace(300.0, 1200.0, n))
    system.set_time_interval(60.0, IntegrationMethod.trapezoid)
    try:
        run_simulation(system, INTERFACE)
    except Exception as e:  # noqa
        return f"REFUSED ({type(e).__name__}: {str(e)[:70]})", None
    res = system.get_fuel_energy_consumption_running_time()
    return float(res.fuel_consumption_total_kg), [g.power_output.round(1).tolist() for g in system.power_sources]


violations = 0

# --- (a) earlier calculation through the plain API with a fixed share on genset g2, same length ---
used = plant()
for consumer in used.other_load:
    consumer.set_power_input_from_output(np.array([500.0, 600.0, 700.0]))
for source in used.power_sources:
    source.status = np.ones(3, dtype=bool)
    source.load_sharing_mode = np.zeros(3)
used.power_sources[1].load_sharing_mode = np.full(3, 0.9)  # g2 runs at a fixed 90 % load
used.set_time_interval(60.0, IntegrationMethod.trapezoid)
used.do_power_balance_calculation()

fuel_new, power_new = later_calculation(plant(), 3)
fuel_used, power_used = later_calculation(used, 3)
print("(a) earlier calculation: g2 at a fixed share of 0.9; later: run_simulation, equal-size interface, 3 samples")
print("    new object : fuel", fuel_new, "kg, genset power", power_new)
print("    used object: fuel", fuel_used, "kg, genset power", power_used)
if fuel_new != fuel_used or power_new != power_used:
    print("    -> DIFFERENT: g2 still delivers 0.9 x 1000 kW where the interface runs it")
    violations += 1

# --- (b) earlier calculation through another interface (it writes sharing-mode series of its own
#         length on the sources), other series length ------------------------------------------
used = plant()
for consumer in used.other_load:
    consumer.set_power_input_from_output(np.linspace(200.0, 700.0, 5))
used.set_time_interval(60.0, IntegrationMethod.trapezoid)
run_simulation(used, BatteryFuelCellDieselHybridSimulationInterface(), EnergySourceType.LNG_DIESEL)

fuel_new, _ = later_calculation(plant(), 3)
fuel_used, _ = later_calculation(used, 3)
print("(b) earlier calculation: 5 samples through BatteryFuelCellDieselHybridSimulationInterface; later: 3 samples")
print("    new object :", fuel_new)
print("    used object:", fuel_used)
if fuel_new != fuel_used:
    print("    -> DIFFERENT")
    violations += 1

print(f"\n{violations} violation(s) of C12")
sys.exit(1 if violations else 0)
