"""C12 finding 1: through the front ends (RunFeemsSim.MachineryCalculation and
feems.runsimulation.run_simulation) the series a PTI/PTO was left with by an earlier balance decides
whether the next request is accepted.

The front ends ask ElectricPowerSystem.get_sum_consumption_kw_sources_switchboard() for the load per
switchboard BEFORE the power balance (and its input validation, which is what resets a load-sharing
PTI/PTO) has run. That sum is built over the power_input series of the PTI/PTOs, also of those that
share the load (sharing mode 0), whose power_input is a RESULT of the previous balance. After a
request with n1 intervals, a request with n2 != n1 intervals is refused (or, for n2 = 1, spoilt) on
the same object, although a new object accepts it.

Exit status 1 = property violated (current code), 0 = holds.
"""
import logging
import sys

import numpy as np
import pandas as pd

logging.disable(logging.CRITICAL)

from feems.components_model.component_electric import (
    ElectricComponent,
    ElectricMachine,
    Genset,
    PTIPTO,
)
from feems.components_model.component_mechanical import (
    Engine,
    MainEngineForMechanicalPropulsion,
    MechanicalPropulsionComponent,
)
from feems.components_model.utility import IntegrationMethod
from feems.runsimulation import run_simulation, EqualEngineSizeAllClosedSimulationInterface
from feems.system_model import (
    ElectricPowerSystem,
    HybridPropulsionSystem,
    MechanicalPropulsionSystem,
)
from feems.types_for_feems import TypeComponent, TypePower, Power_kW, Speed_rpm, SwbId
from RunFeemsSim.machinery_calculation import MachineryCalculation

EFF = np.array([[0.0, 0.85], [0.25, 0.9], [0.5, 0.94], [0.75, 0.96], [1.0, 0.97]])
BSFC = np.array([[0.25, 230.0], [0.5, 210.0], [0.75, 200.0], [1.0, 205.0]])


def genset(name, swb, p=1000.0):
    eng = Engine(
        type_=TypeComponent.AUXILIARY_ENGINE,
        name=name + " engine",
        rated_power=Power_kW(p * 1.05),
        rated_speed=Speed_rpm(900),
        bsfc_curve=BSFC,
    )
    gen = ElectricMachine(
        type_=TypeComponent.GENERATOR,
        name=name + " generator",
        rated_power=Power_kW(p),
        rated_speed=Speed_rpm(900),
        power_type=TypePower.POWER_SOURCE,
        switchboard_id=SwbId(swb),
        eff_curve=EFF,
    )
    return Genset(name, eng, gen)


def consumer(name, swb, p, type_):
    return ElectricComponent(
        type_=type_,
        name=name,
        rated_power=Power_kW(p),
        eff_curve=EFF,
        power_type=TypePower.POWER_CONSUMER,
        switchboard_id=SwbId(swb),
    )


def pti_pto(name, swb, shaft=1, p=800.0):
    conv = ElectricComponent(
        type_=TypeComponent.POWER_CONVERTER,
        name=name + " converter",
        rated_power=Power_kW(p),
        eff_curve=np.array([[0.0, 0.95], [0.5, 0.97], [1.0, 0.98]]),
        power_type=TypePower.PTI_PTO,
        switchboard_id=SwbId(swb),
    )
    mach = ElectricMachine(
        type_=TypeComponent.SYNCHRONOUS_MACHINE,
        name=name + " machine",
        rated_power=Power_kW(p),
        rated_speed=Speed_rpm(1000),
        power_type=TypePower.PTI_PTO,
        switchboard_id=SwbId(swb),
        eff_curve=EFF,
    )
    return PTIPTO(name, [conv, mach], SwbId(swb), Power_kW(p), Speed_rpm(1000), shaft_line_id=shaft)


def electric_plant_with_pto():
    return ElectricPowerSystem(
        "electric plant with a PTI/PTO on the bus",
        [
            genset("genset 1", 1),
            genset("genset 2", 1),
            consumer("drive", 1, 1500.0, TypeComponent.PROPULSION_DRIVE),
            consumer("hotel", 1, 500.0, TypeComponent.OTHER_LOAD),
            pti_pto("pti/pto", 1),
        ],
        [],
    )


def hybrid_plant():
    pti = pti_pto("pti/pto", 1)
    electric = ElectricPowerSystem(
        "el", [genset("genset 1", 1), genset("genset 2", 1), consumer("hotel", 1, 500.0, TypeComponent.OTHER_LOAD), pti], []
    )
    engine = Engine(
        type_=TypeComponent.MAIN_ENGINE,
        name="main engine 1 engine",
        rated_power=Power_kW(3000.0),
        rated_speed=Speed_rpm(600),
        bsfc_curve=BSFC,
    )
    mechanical = MechanicalPropulsionSystem(
        "mech",
        [
            MainEngineForMechanicalPropulsion("main engine 1", engine, shaft_line_id=1),
            MechanicalPropulsionComponent(
                TypeComponent.PROPELLER_LOAD,
                TypePower.POWER_CONSUMER,
                "propeller",
                Power_kW(3500.0),
                np.array([0.99]),
                Speed_rpm(150),
                shaft_line_id=1,
            ),
            pti,
        ],
    )
    return HybridPropulsionSystem("hybrid", electric, mechanical)


def request(calculation: MachineryCalculation, n: int):
    """One request to the front end: n intervals of 60 s, propulsion power rising 300 -> 900 kW"""
    series = pd.Series(np.linspace(300.0, 900.0, n + 1), index=np.arange(n + 1) * 60.0)
    try:
        res = calculation.calculate_machinery_system_output_from_propulsion_power_time_series(
            propulsion_power=series, auxiliary_power_kw=100.0
        )
    except Exception as e:  # noqa
        return f"REFUSED ({type(e).__name__}: {str(e)[:70]})"
    if hasattr(res, "electric_system"):
        return (
            float(res.electric_system.fuel_consumption_total_kg),
            float(res.mechanical_system.fuel_consumption_total_kg),
            float(res.electric_system.duration_s),
        )
    return float(res.fuel_consumption_total_kg), float(res.duration_s)


violations = 0


def check(title, fresh, used):
    global violations
    same = fresh == used
    print(f"{title}\n    new object : {fresh}\n    used object: {used}\n    -> {'same' if same else 'DIFFERENT'}")
    if not same:
        violations += 1


# --- (a) RunFeemsSim front end, electric plant with a PTI/PTO on the bus -------------------------
for n1, n2 in [(5, 3), (5, 1), (2, 4)]:
    used = MachineryCalculation(electric_plant_with_pto())
    first = request(used, n1)
    assert not isinstance(first, str), first  # the first request is accepted
    check(
        f"(a) MachineryCalculation, electric plant + PTI/PTO: request of {n2} intervals after one of {n1}",
        request(MachineryCalculation(electric_plant_with_pto()), n2),
        request(used, n2),
    )

# --- (b) RunFeemsSim front end, hybrid plant: a request that is refused (more than one interval:
#         known limitation) makes the object refuse single-interval requests afterwards -----------
used = MachineryCalculation(hybrid_plant())
print("(b) hybrid plant, first request (4 intervals):", request(used, 4))
check(
    "(b) MachineryCalculation, hybrid plant: request of 1 interval after a refused one of 4",
    request(MachineryCalculation(hybrid_plant()), 1),
    request(used, 1),
)


# --- (c) feems.runsimulation.run_simulation, same root ------------------------------------------
def run_sim(plant, n):
    for load in plant.propulsion_drives + plant.other_load:
        load.set_power_input_from_output(np.linspace(200.0, 600.0, n))
    plant.set_time_interval(60.0, IntegrationMethod.sum_with_time if n == 1 else IntegrationMethod.trapezoid)
    interface = EqualEngineSizeAllClosedSimulationInterface(
        swb2n_gensets={SwbId(1): 2},
        rated_power_gensets=1000.0,
        n_bus_ties=0,
        maximum_allowable_genset_load_percentage=0.8,
    )
    try:
        run_simulation(plant, interface)
        return float(plant.get_fuel_energy_consumption_running_time().fuel_consumption_total_kg)
    except Exception as e:  # noqa
        return f"REFUSED ({type(e).__name__}: {str(e)[:70]})"


used_plant = electric_plant_with_pto()
assert not isinstance(run_sim(used_plant, 5), str)
check(
    "(c) run_simulation, electric plant + PTI/PTO: 3 samples after 5",
    run_sim(electric_plant_with_pto(), 3),
    run_sim(used_plant, 3),
)

print(f"\n{violations} violation(s) of C12")
sys.exit(1 if violations else 0)
