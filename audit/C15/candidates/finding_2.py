"""C15 finding 2: the start/stop table is asked with the load of the WHOLE plant and picks its
set without looking at which switchboards can exchange power.  On a plant whose bus-tie
connections do not join all switchboards, a running source is loaded above the allowed
fraction although a stopped source on the same bus could have been started.

Plant: three 100 kW gensets, one per switchboard; bus tie 1-2 only (switchboard 3 is a
separate island, e.g. an emergency / hotel board).  Allowed load 80 %.
Load: 90 kW on switchboard 2 (auxiliary), 10 kW on switchboard 3 (propulsion drive).
Total 100 kW -> the table starts two gensets (160 kW > 100 kW): (off, on, on).
Every bus has a running source (no inf / NaN case), but G2 alone carries the 90 kW of bus 1+2
(90 % > 80 %) while G1, tied to the same bus, stays off.

Exit status 1 = property violated (current code), 0 = property holds.
"""
import sys

import numpy as np

from feems.components_model.component_electric import (
    ElectricComponent,
    ElectricMachine,
    Genset,
)
from feems.components_model.component_mechanical import Engine
from feems.system_model import ElectricPowerSystem
from feems.types_for_feems import NOxCalculationMethod, TypeComponent, TypePower
from RunFeemsSim.machinery_calculation import MachineryCalculation

F_PERCENT = 80.0
F = F_PERCENT / 100
BSFC = np.array([[0.25, 220.0], [0.5, 200.0], [0.75, 190.0], [1.0, 195.0]])
EFF = np.array([[0.25, 0.93], [0.5, 0.95], [0.75, 0.96], [1.0, 0.96]])


def genset(name: str, rated_kw: float, swb: int) -> Genset:
    engine = Engine(
        type_=TypeComponent.AUXILIARY_ENGINE,
        name="engine " + name,
        rated_power=rated_kw / 0.9,
        rated_speed=1000,
        bsfc_curve=BSFC,
        nox_calculation_method=NOxCalculationMethod.TIER_2,
    )
    generator = ElectricMachine(
        type_=TypeComponent.GENERATOR,
        name="generator " + name,
        rated_power=rated_kw,
        rated_speed=1000,
        power_type=TypePower.POWER_SOURCE,
        switchboard_id=swb,
        eff_curve=EFF,
    )
    return Genset(name, engine, generator)


def consumer(name: str, type_: TypeComponent, swb: int) -> ElectricComponent:
    return ElectricComponent(
        type_=type_,
        name=name,
        rated_power=1000.0,
        eff_curve=np.array([1.0]),
        power_type=TypePower.POWER_CONSUMER,
        switchboard_id=swb,
    )


if __name__ == "__main__":
    plant = ElectricPowerSystem(
        "plant",
        [
            genset("G1", 100.0, 1),
            genset("G2", 100.0, 2),
            genset("G3", 100.0, 3),
            consumer("aux", TypeComponent.OTHER_LOAD, 2),
            consumer("drive", TypeComponent.PROPULSION_DRIVE, 3),
        ],
        bus_tie_connections=[(1, 2)],
    )
    calculation = MachineryCalculation(
        plant, maximum_allowed_power_source_load_percentage=F_PERCENT
    )
    aux = np.array([90.0, 40.0])
    propulsion = np.array([10.0, 60.0])
    calculation.calculate_machinery_system_output_from_statistics(
        propulsion_power=propulsion, frequency=np.ones(2), auxiliary_power_kw=aux
    )
    print("switchboard -> bus:", plant.switchboard2bus)
    violations = 0
    for j in range(len(aux)):
        bus_of = plant.switchboard2bus[0]
        print(f"point {j}: total load {aux[j] + propulsion[j]:g} kW")
        for source in plant.power_sources:
            print(
                f"   {source.name} swb {source.switchboard_id} bus {bus_of[source.switchboard_id]}: "
                f"on={bool(source.status[j])}  {source.power_output[j]:6.1f} kW  "
                f"load {source.power_output[j] / source.rated_power:.3f}"
            )
        if not any(bool(s.status[j]) for s in plant.power_sources):
            violations += 1
            print("   no source runs")
        # could the plant avoid the overload?  per bus: all its sources on
        for bus in sorted(set(bus_of.values())):
            sources = [s for s in plant.power_sources if bus_of[s.switchboard_id] == bus]
            bus_load = sum(s.power_output[j] for s in sources)
            capacity_all = sum(s.rated_power for s in sources)
            avoidable = F * capacity_all > bus_load
            worst = max(
                (s.power_output[j] / s.rated_power for s in sources if s.status[j]),
                default=0.0,
            )
            if avoidable and worst > F * (1 + 1e-9):
                violations += 1
                print(
                    f"   bus {bus}: load {bus_load:g} kW, a running source is at {worst:.3f} > {F} "
                    f"although the sources of this bus together allow {F * capacity_all:g} kW"
                )
    if violations:
        print("PROPERTY VIOLATED")
        sys.exit(1)
    print("property holds")
    sys.exit(0)
