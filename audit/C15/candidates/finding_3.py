"""C15 finding 3: a start/stop table made for part of the power sources
(get_min_load_table_dict_from_feems_system(..., component_types=[...]), a documented public
argument) is refused by the only class that applies a table: PmsLoadTableSimulationInterface
.set_status asserts that the table has one column per power source of the plant.

Plant: gensets 100 kW and 200 kW plus a 300 kW fuel cell system on one switchboard, allowed
load 80 %.  The table is requested for the gensets only (ratings [100, 200], inside the
property's domain: 2 ratings, fraction 0.8).  The table itself is right; the calculation
driven by it stops with AssertionError for every load, so "after a calculation driven by this
table ... at least one source runs" cannot be had for this valid input.

Exit status 1 = property violated / valid input refused (current code), 0 = property holds.
"""
import itertools
import sys

import numpy as np

from feems.components_model.component_electric import (
    ElectricComponent,
    ElectricMachine,
    FuelCell,
    FuelCellSystem,
    Genset,
)
from feems.components_model.component_mechanical import Engine
from feems.components_model.utility import IntegrationMethod
from feems.fuel import TypeFuel
from feems.runsimulation import run_simulation
from feems.system_model import ElectricPowerSystem
from feems.types_for_feems import NOxCalculationMethod, TypeComponent, TypePower
from RunFeemsSim.pms_basic import (
    PmsLoadTable,
    PmsLoadTableSimulationInterface,
    get_min_load_table_dict_from_feems_system,
)

F_PERCENT = 80.0
F = F_PERCENT / 100
BSFC = np.array([[0.25, 220.0], [0.5, 200.0], [0.75, 190.0], [1.0, 195.0]])
EFF = np.array([[0.25, 0.93], [0.5, 0.95], [0.75, 0.96], [1.0, 0.96]])


def genset(name: str, rated_kw: float) -> Genset:
    engine = Engine(
        type_=TypeComponent.AUXILIARY_ENGINE,
        name="engine " + name,
        rated_power=rated_kw / 0.9,
        rated_speed=1000,
        bsfc_curve=BSFC,
        nox_calculation_method=NOxCalculationMethod.TIER_2,
    )
    generator = ElectricMachine(
        type_=TypeComponent.GENERATOR,
        name="generator " + name,
        rated_power=rated_kw,
        rated_speed=1000,
        power_type=TypePower.POWER_SOURCE,
        switchboard_id=1,
        eff_curve=EFF,
    )
    return Genset(name, engine, generator)


if __name__ == "__main__":
    converter = ElectricComponent(
        type_=TypeComponent.POWER_CONVERTER,
        name="converter",
        rated_power=300.0,
        eff_curve=np.array([0.98]),
        power_type=TypePower.POWER_SOURCE,
        switchboard_id=1,
    )
    module = FuelCell(
        name="module",
        rated_power=320.0,
        eff_curve=np.array([[0.25, 0.5], [1.0, 0.45]]),
        fuel_type=TypeFuel.HYDROGEN,
    )
    aux = ElectricComponent(
        type_=TypeComponent.OTHER_LOAD,
        name="aux",
        rated_power=1000.0,
        eff_curve=np.array([1.0]),
        power_type=TypePower.POWER_CONSUMER,
        switchboard_id=1,
    )
    plant = ElectricPowerSystem(
        "plant",
        [genset("G1", 100.0), genset("G2", 200.0), FuelCellSystem("FC", module, converter, 1), aux],
        [],
    )
    ratings = [100.0, 200.0]
    table = get_min_load_table_dict_from_feems_system(
        plant, F_PERCENT, component_types=[TypeComponent.GENSET]
    )
    print("table for the gensets only:", table)

    # clause 1-3 on the table itself
    violations = 0
    pms_table = PmsLoadTable(table)
    loads = np.array([-5.0, 0.0, 50.0, 80.0, 100.0, 160.0, 200.0, 240.0, 500.0])
    previous = -1.0
    for load, pattern in zip(loads, pms_table.on_pattern(loads)):
        capacity = sum(r for r, on in zip(ratings, pattern) if on)
        sufficient = [
            sum(c)
            for k in range(1, 3)
            for c in itertools.combinations(ratings, k)
            if F * sum(c) > load
        ]
        expected = min(sufficient) if sufficient else sum(ratings)
        if capacity != expected or capacity < previous:
            violations += 1
            print(f"table wrong at {load}: {pattern}")
        previous = capacity
    print("table clauses (sufficient, minimal, monotone):", "ok" if not violations else "VIOLATED")

    # the calculation driven by this table
    pms = PmsLoadTableSimulationInterface(n_bus_ties=0, pms_load_table=pms_table)
    aux.set_power_input_from_output(np.array([50.0, 150.0]))
    plant.set_time_interval(np.ones(2), integration_method=IntegrationMethod.sum_with_time)
    # the fuel cell is not under start/stop control: it is off for this run
    plant.power_sources[2].status = np.zeros(2, dtype=bool)
    plant.power_sources[2].load_sharing_mode = np.zeros(2)
    try:
        run_simulation(plant, pms)
        for source in plant.power_sources:
            print(source.name, np.asarray(source.status).astype(int), source.power_output)
        if not all(
            any(bool(s.status[j]) for s in plant.power_sources) for j in range(2)
        ):
            violations += 1
    except AssertionError as error:
        violations += 1
        print("calculation driven by the table refused: AssertionError:", error)
    if violations:
        print("PROPERTY VIOLATED (valid input refused)")
        sys.exit(1)
    print("property holds")
    sys.exit(0)
