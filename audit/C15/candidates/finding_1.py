"""C15 finding 1: the start/stop table built from the protobuf message
(get_min_load_table_dict_from_proto_system) is computed from other ratings than the ones
the converted FEEMS plant shares the load with, so the set it switches on is not sufficient.

Plant: two identical DC gensets (generator 1000 kW, rectifier 1250 kW) on one switchboard,
allowed load 80 %.  Genset.rated_power (what the power balance uses, and what
get_min_load_table_dict_from_feems_system uses) is the generator rating, 1000 kW.
The protobuf table takes `subsystem.rated_power_kw` if it is > 0 and otherwise the rating of
the FIRST electric component seen from the switchboard - for a DC genset that is the rectifier.

Exit status 1 = property violated (current code), 0 = property holds.
"""
import itertools
import sys

import numpy as np

from feems.components_model.component_electric import (
    ElectricComponent,
    ElectricMachine,
    Genset,
)
from feems.components_model.component_mechanical import Engine
from feems.system_model import ElectricPowerSystem
from feems.types_for_feems import NOxCalculationMethod, TypeComponent, TypePower

import MachSysS.system_structure_pb2 as proto
from MachSysS.convert_to_feems import convert_proto_propulsion_system_to_feems
from MachSysS.convert_to_protobuf import (
    convert_electric_system_to_protobuf_machinery_system,
)
from RunFeemsSim.machinery_calculation import MachineryCalculation
from RunFeemsSim.pms_basic import (
    PmsLoadTable,
    PmsLoadTableSimulationInterface,
    get_min_load_table_dict_from_feems_system,
    get_min_load_table_dict_from_proto_system,
)

F_PERCENT = 80.0
F = F_PERCENT / 100
BSFC = np.array([[0.25, 220.0], [0.5, 200.0], [0.75, 190.0], [1.0, 195.0]])
EFF = np.array([[0.25, 0.93], [0.5, 0.95], [0.75, 0.96], [1.0, 0.96]])


def genset(name: str, rated_kw: float) -> Genset:
    engine = Engine(
        type_=TypeComponent.AUXILIARY_ENGINE,
        name="engine " + name,
        rated_power=rated_kw / 0.9,
        rated_speed=1000,
        bsfc_curve=BSFC,
        nox_calculation_method=NOxCalculationMethod.TIER_2,
    )
    generator = ElectricMachine(
        type_=TypeComponent.GENERATOR,
        name="generator " + name,
        rated_power=rated_kw,
        rated_speed=1000,
        power_type=TypePower.POWER_SOURCE,
        switchboard_id=1,
        eff_curve=EFF,
    )
    return Genset(name, engine, generator)


def base_proto() -> proto.MachinerySystem:
    """A two-genset plant written to protobuf with the project's own converter."""
    aux = ElectricComponent(
        type_=TypeComponent.OTHER_LOAD,
        name="aux",
        rated_power=5000.0,
        eff_curve=np.array([1.0]),
        power_type=TypePower.POWER_CONSUMER,
        switchboard_id=1,
    )
    system = ElectricPowerSystem(
        "plant", [genset("G1", 1000.0), genset("G2", 1000.0), aux], []
    )
    return convert_electric_system_to_protobuf_machinery_system(
        system, maximum_allowed_genset_load_percentage=F_PERCENT
    )


def variant_a() -> proto.MachinerySystem:
    """DC gensets: rectifier (1250 kW) first from the switchboard, generator (1000 kW) second,
    no rating on the subsystem itself (the conversion to FEEMS does not read it for a genset)."""
    message = base_proto()
    for sub in message.electric_system.switchboards[0].subsystems:
        if sub.component_type == proto.Subsystem.ComponentType.GENSET:
            sub.ClearField("rated_power_kw")
            sub.converter1.CopyFrom(
                proto.ElectricComponent(
                    name="rectifier " + sub.name,
                    rated_power_kw=1250.0,
                    order_from_switchboard_or_shaftline=1,
                    efficiency=proto.Efficiency(value=0.98),
                )
            )
            sub.electric_machine.order_from_switchboard_or_shaftline = 2
            sub.engine.order_from_switchboard_or_shaftline = 3
    return message


def variant_b() -> proto.MachinerySystem:
    """AC gensets whose subsystem carries the engine rating (1111 kW), generator 1000 kW."""
    message = base_proto()
    for sub in message.electric_system.switchboards[0].subsystems:
        if sub.component_type == proto.Subsystem.ComponentType.GENSET:
            sub.rated_power_kw = sub.engine.rated_power_kw
    return message


def check(label: str, message: proto.MachinerySystem) -> int:
    print(f"--- {label}")
    plant = convert_proto_propulsion_system_to_feems(message)
    ratings = [source.rated_power for source in plant.power_sources]
    table_proto = get_min_load_table_dict_from_proto_system(message)
    table_feems = get_min_load_table_dict_from_feems_system(
        plant, message.maximum_allowed_genset_load_percentage
    )
    print("ratings of the converted plant (Genset.rated_power):", ratings)
    print("table from the protobuf message:", table_proto)
    print("table from the converted plant :", table_feems)

    pms = PmsLoadTableSimulationInterface(
        n_bus_ties=len(plant.bus_tie_breakers),
        pms_load_table=PmsLoadTable(table_proto),
    )
    calculation = MachineryCalculation(plant, pms=pms)
    loads = np.array([-10.0, 0.0, 500.0, 799.0, 800.0, 850.0, 950.0, 999.0, 1000.0, 1500.0, 1700.0])
    calculation.calculate_machinery_system_output_from_statistics(
        propulsion_power=np.zeros(len(loads)),
        frequency=np.ones(len(loads)),
        auxiliary_power_kw=loads,
    )
    status = np.array([np.asarray(s.status, dtype=bool) for s in plant.power_sources])
    power = np.array([s.power_output for s in plant.power_sources])
    rated = np.array(ratings)[:, None]
    violations = 0
    for j, load in enumerate(loads):
        on_capacity = float((rated[:, 0] * status[:, j]).sum())
        sufficient_sets = [
            sum(c)
            for k in range(1, len(ratings) + 1)
            for c in itertools.combinations(ratings, k)
            if F * sum(c) > load
        ]
        load_fraction = power[:, j] / rated[:, 0]
        problems = []
        if not status[:, j].any():
            problems.append("no source runs")
        if sufficient_sets and not F * on_capacity > load:
            problems.append(
                f"selected capacity {on_capacity:g} kW x {F} = {F * on_capacity:g} kW "
                f"does not exceed the load although {min(sufficient_sets):g} kW would"
            )
        if sufficient_sets and (load_fraction[status[:, j]] > F * (1 + 1e-9)).any():
            problems.append(
                f"running source loaded at {load_fraction[status[:, j]].max():.3f} > {F}"
            )
        if problems:
            violations += 1
            print(f"load {load:7.1f} kW: on={status[:, j].astype(int)}  " + "; ".join(problems))
    print(f"{violations} violating loads")
    return violations


if __name__ == "__main__":
    total = check("A: DC genset, rectifier rated above the generator, no subsystem rating", variant_a())
    total += check("B: subsystem.rated_power_kw differs from the generator rating", variant_b())
    if total:
        print("PROPERTY VIOLATED")
        sys.exit(1)
    print("property holds")
    sys.exit(0)
