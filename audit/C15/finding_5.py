"""C15 finding 1: the load the start/stop table is consulted with leaves out the power a
PTI/PTO takes from the bus, so after the calculation a single generator set runs above the
allowed load fraction although a second, idle set would have avoided it.

(a) HybridPropulsionSystem + MachineryCalculation (default PMS = load table), one interval,
    PTI/PTO in full PTI mode (shaft driven electrically).
(b) the same plant, PTI/PTO in given-power mode (booster, 400 kW).
(c) ElectricPowerSystem with a PTI/PTO + run_simulation with PmsLoadTableSimulationInterface,
    four steps, PTI/PTO motoring with 500 kW.

Exit status 1 = property violated (expected on the current code), 0 = holds.
"""
import itertools
import sys

import numpy as np

from feems.components_model.component_electric import (
    ElectricComponent,
    ElectricMachine,
    Genset,
    PTIPTO,
)
from feems.components_model.component_mechanical import (
    Engine,
    MainEngineForMechanicalPropulsion,
    MechanicalPropulsionComponent,
)
from feems.components_model.utility import IntegrationMethod
from feems.runsimulation import run_simulation
from feems.system_model import (
    ElectricPowerSystem,
    HybridPropulsionSystem,
    MechanicalPropulsionSystem,
)
from feems.types_for_feems import NOxCalculationMethod, TypeComponent, TypePower
from RunFeemsSim.machinery_calculation import MachineryCalculation
from RunFeemsSim.pms_basic import (
    PmsLoadTable,
    PmsLoadTableSimulationInterface,
    get_min_load_table_dict_from_feems_system,
)

BSFC = np.array([[0.25, 210.0], [0.5, 200.0], [0.75, 190.0], [1.0, 195.0]])
ALLOWED_PERCENT = 80
F = ALLOWED_PERCENT / 100


def genset(name, rated_kw, swb):
    generator = ElectricMachine(
        type_=TypeComponent.GENERATOR,
        name="generator " + name,
        rated_power=rated_kw,
        rated_speed=900,
        power_type=TypePower.POWER_SOURCE,
        switchboard_id=swb,
        eff_curve=np.array([96.0]),
    )
    engine = Engine(
        type_=TypeComponent.AUXILIARY_ENGINE,
        name="engine " + name,
        rated_power=rated_kw / 0.96,
        rated_speed=900,
        bsfc_curve=BSFC,
        nox_calculation_method=NOxCalculationMethod.TIER_2,
    )
    return Genset(name, engine, generator)


def other_load(name, rated_kw, swb):
    return ElectricComponent(
        type_=TypeComponent.OTHER_LOAD,
        name=name,
        rated_power=rated_kw,
        eff_curve=np.array([100.0]),
        power_type=TypePower.POWER_CONSUMER,
        switchboard_id=swb,
    )


def pti_pto(name, rated_kw, swb):
    machine = ElectricMachine(
        type_=TypeComponent.SYNCHRONOUS_MACHINE,
        power_type=TypePower.PTI_PTO,
        name="machine of " + name,
        rated_power=rated_kw,
        rated_speed=900,
        eff_curve=np.array([100.0]),
    )
    return PTIPTO(
        name=name,
        components=[machine],
        switchboard_id=swb,
        rated_power=rated_kw,
        rated_speed=900,
        shaft_line_id=1,
    )


def hybrid_plant():
    pti = pti_pto("pti/pto", 1000, 1)
    electric = ElectricPowerSystem(
        "electric",
        [genset("genset 1", 1000, 1), genset("genset 2", 1000, 1), other_load("aux", 5000, 1), pti],
        [],
    )
    engine = Engine(
        type_=TypeComponent.MAIN_ENGINE,
        name="main engine",
        rated_power=3000,
        rated_speed=900,
        bsfc_curve=BSFC,
        nox_calculation_method=NOxCalculationMethod.TIER_2,
    )
    main_engine = MainEngineForMechanicalPropulsion("main engine 1", engine, shaft_line_id=1)
    propeller = MechanicalPropulsionComponent(
        type_=TypeComponent.PROPELLER_LOAD,
        power_type=TypePower.POWER_CONSUMER,
        name="propeller",
        rated_power=3000,
        eff_curve=np.array([100.0]),
        rated_speed=150,
        shaft_line_id=1,
    )
    mechanical = MechanicalPropulsionSystem("mechanical", [main_engine, propeller, pti])
    return HybridPropulsionSystem("hybrid", electric, mechanical), pti


def violations(electric, label):
    """The consequence clause of C15, checked on the state left by the calculation."""
    sources = electric.power_sources
    n = max(np.size(s.power_output) for s in sources)
    ratings = [s.rated_power for s in sources]
    found = 0
    for k in range(n):
        on = [bool(np.broadcast_to(s.status, (n,))[k]) for s in sources]
        out = [float(np.broadcast_to(s.power_output, (n,))[k]) for s in sources]
        load_on_sources = sum(out)
        fractions = [p / r for p, r in zip(out, ratings)]
        # could the plant avoid it? some set of sources with F * rating > load carried
        avoidable = any(
            F * sum(r for r, o in zip(ratings, pat) if o) > load_on_sources
            for pat in itertools.product([False, True], repeat=len(ratings))
        )
        over = max(fractions) > F * (1 + 1e-9)
        print(
            f"  [{label}] step {k}: load on the sources {load_on_sources:8.1f} kW, running {on}, "
            f"load fractions {np.round(fractions, 4)}"
            + ("   <-- above the allowed %.2f although avoidable" % F if over and avoidable else "")
        )
        if not any(on):
            print("     no source runs")
            found += 1
        if over and avoidable:
            found += 1
    return found


total = 0

# (a) hybrid plant, full PTI mode, MachineryCalculation with its default load table
plant, pti = hybrid_plant()
calc = MachineryCalculation(plant, maximum_allowed_power_source_load_percentage=ALLOWED_PERCENT)
pti.full_pti_mode = np.array([True])
pti.status = np.array([True])
calc.calculate_machinery_system_output_from_statistics(
    propulsion_power=np.array([600.0]), frequency=np.array([3600.0]), auxiliary_power_kw=500.0
)
print("(a) hybrid, full PTI, propeller 600 kW + auxiliaries 500 kW, 2 x 1000 kW gensets, 80 %")
print("    PTI/PTO takes", pti.power_input, "kW from the bus")
total += violations(plant.electric_system, "a")

# (b) hybrid plant, PTI/PTO boosting with a given 400 kW
plant, pti = hybrid_plant()
calc = MachineryCalculation(plant, maximum_allowed_power_source_load_percentage=ALLOWED_PERCENT)
pti.load_sharing_mode = np.array([1.0])
pti.set_power_input_from_output(np.array([400.0]))
calc.calculate_machinery_system_output_from_statistics(
    propulsion_power=np.array([600.0]), frequency=np.array([3600.0]), auxiliary_power_kw=500.0
)
print("(b) hybrid, PTI/PTO given 400 kW (motor) + auxiliaries 500 kW")
total += violations(plant.electric_system, "b")

# (c) electric plant with a PTI/PTO, run_simulation + PmsLoadTableSimulationInterface
pti = pti_pto("pti/pto", 600, 1)
electric = ElectricPowerSystem(
    "electric",
    [genset("genset 1", 1000, 1), genset("genset 2", 1000, 1), other_load("aux", 5000, 1), pti],
    [],
)
table = PmsLoadTable(get_min_load_table_dict_from_feems_system(electric, ALLOWED_PERCENT))
pms = PmsLoadTableSimulationInterface(n_bus_ties=0, pms_load_table=table)
consumer_kw = np.array([100.0, 300.0, 500.0, 700.0])
electric.other_load[0].set_power_input_from_output(consumer_kw)
pti.status = np.ones(4, dtype=bool)
pti.load_sharing_mode = np.ones(4)
pti.set_power_input_from_output(np.full(4, 500.0))
electric.set_time_interval(np.full(4, 60.0), IntegrationMethod.sum_with_time)
run_simulation(electric, pms)
print("(c) electric plant, consumers", consumer_kw, "kW + PTI/PTO motoring 500 kW")
total += violations(electric, "c")

if total:
    print(f"C15 VIOLATED: {total} step(s) with a source above the allowed fraction "
          f"while an idle source could have avoided it")
    sys.exit(1)
print("C15 holds on these inputs")
sys.exit(0)
