"""C15 finding 1

A hybrid plant whose PTI/PTO runs in full PTI mode with load sharing mode 1 (given power) instead
of the default 0.  HybridPropulsionSystem.do_power_balance_calculation treats both alike ("at those
steps it is not one of the machines that share the load on the bus, whatever its load sharing mode
says"), but MachineryCalculation reads the load for the start/stop table BEFORE the shaft line has
decided the PTI power: with mode 1 the table sees the PTI/PTO's stale power_input (0 kW on the first
call, the value of the previous call later) and starts too few generating sets.

Run:  PYTHONPATH=<wt>/feems:<wt>/machinery-system-structure:<wt>/RunFEEMSSim python finding_1.py
Exit status 1 = property violated (current code), 0 = property holds.
"""
import itertools
import logging
import sys

import numpy as np

logging.disable(logging.CRITICAL)

from feems.components_model.component_electric import (
    ElectricComponent,
    ElectricMachine,
    Genset,
    PTIPTO,
)
from feems.components_model.component_mechanical import (
    Engine,
    MainEngineForMechanicalPropulsion,
    MechanicalPropulsionComponent,
)
from feems.system_model import (
    ElectricPowerSystem,
    HybridPropulsionSystem,
    MechanicalPropulsionSystem,
)
from feems.types_for_feems import TypeComponent, TypePower
from RunFeemsSim.machinery_calculation import MachineryCalculation
from RunFeemsSim.pms_basic import PmsLoadTable, get_min_load_table_dict_from_feems_system

BSFC = np.array([[0.25, 0.5, 0.75, 1.0], [280.0, 220.0, 200.0, 210.0]]).T
EFF_GEN = np.array([[0.25, 0.5, 0.75, 1.0], [0.93, 0.95, 0.96, 0.958]]).T
ALLOWED = 0.8  # allowed load fraction
RATINGS = [500.0, 500.0, 500.0]


def build_plant():
    gensets = []
    for i, rating in enumerate(RATINGS):
        generator = ElectricMachine(
            type_=TypeComponent.GENERATOR,
            name=f"generator {i + 1}",
            rated_power=rating,
            rated_speed=900,
            power_type=TypePower.POWER_SOURCE,
            switchboard_id=1,
            eff_curve=EFF_GEN,
        )
        engine = Engine(
            type_=TypeComponent.AUXILIARY_ENGINE,
            name=f"aux engine {i + 1}",
            rated_power=rating / 0.93,
            rated_speed=900,
            bsfc_curve=BSFC,
        )
        gensets.append(Genset(f"genset {i + 1}", engine, generator))
    hotel = ElectricComponent(
        type_=TypeComponent.OTHER_LOAD,
        name="hotel load",
        rated_power=2000.0,
        power_type=TypePower.POWER_CONSUMER,
        switchboard_id=1,
        eff_curve=np.array([1.0]),
    )
    machine = ElectricMachine(
        type_=TypeComponent.SYNCHRONOUS_MACHINE,
        power_type=TypePower.PTI_PTO,
        name="shaft machine",
        rated_power=1000.0,
        rated_speed=900,
        eff_curve=np.array([0.96]),
    )
    converter = ElectricComponent(
        type_=TypeComponent.POWER_CONVERTER,
        power_type=TypePower.POWER_TRANSMISSION,
        name="converter",
        rated_power=1000.0,
        eff_curve=np.array([0.98]),
    )
    pti_pto = PTIPTO(
        name="PTI/PTO",
        components=[converter, machine],
        switchboard_id=1,
        rated_power=1000.0,
        rated_speed=900,
        shaft_line_id=1,
    )
    main_engine = MainEngineForMechanicalPropulsion(
        "main engine",
        Engine(
            type_=TypeComponent.MAIN_ENGINE,
            name="engine of main engine",
            rated_power=3000.0,
            rated_speed=900,
            bsfc_curve=BSFC,
        ),
        shaft_line_id=1,
    )
    propeller = MechanicalPropulsionComponent(
        type_=TypeComponent.PROPELLER_LOAD,
        power_type=TypePower.POWER_CONSUMER,
        name="propeller",
        rated_power=3000.0,
        rated_speed=150,
        eff_curve=np.array([1.0]),
        shaft_line_id=1,
    )
    electric = ElectricPowerSystem("electric", gensets + [hotel, pti_pto], [])
    mechanical = MechanicalPropulsionSystem("mechanical", [main_engine, pti_pto, propeller])
    return HybridPropulsionSystem("hybrid", electric, mechanical), gensets, pti_pto


def run(load_sharing_mode, propulsion_kw_calls, auxiliary_kw=100.0):
    """Returns one list of per-step records for every call of the calculation."""
    plant, gensets, pti_pto = build_plant()
    n = len(propulsion_kw_calls[0])
    pti_pto.full_pti_mode = np.ones(n, dtype=bool)
    pti_pto.load_sharing_mode = np.full(n, float(load_sharing_mode))
    pti_pto.status = np.ones(n, dtype=bool)
    pti_pto.power_input = np.zeros(n)
    pti_pto.power_output = np.zeros(n)
    calculation = MachineryCalculation(
        plant, maximum_allowed_power_source_load_percentage=ALLOWED * 100
    )
    table = PmsLoadTable(get_min_load_table_dict_from_feems_system(plant, ALLOWED * 100))
    records = []
    for propulsion_kw in propulsion_kw_calls:
        calculation.calculate_machinery_system_output_from_statistics(
            propulsion_power=np.asarray(propulsion_kw, dtype=float),
            frequency=np.full(n, 3600.0),
            auxiliary_power_kw=auxiliary_kw,
        )
        steps = []
        for k in range(n):
            on = [bool(np.broadcast_to(g.status, (n,))[k]) for g in gensets]
            power = [float(g.power_output[k]) for g in gensets]
            total = sum(power)
            steps.append(
                dict(
                    propulsion=float(propulsion_kw[k]),
                    on=on,
                    load_fraction=[p / r for p, r in zip(power, RATINGS)],
                    total=total,
                    table_pattern_for_total=list(table.on_pattern([total])[0]),
                )
            )
        records.append(steps)
    return records


def violations(records, label):
    found = []
    subsets = [q for q in itertools.product([False, True], repeat=len(RATINGS)) if any(q)]
    for call, steps in enumerate(records):
        for k, step in enumerate(steps):
            total = step["total"]
            capacity_on = sum(r for r, o in zip(RATINGS, step["on"]) if o)
            sufficient = [
                sum(r for r, o in zip(RATINGS, q) if o)
                for q in subsets
                if ALLOWED * sum(r for r, o in zip(RATINGS, q) if o) > total * (1 + 1e-9)
            ]
            worst = max(step["load_fraction"])
            line = (
                f"  {label} call {call + 1} step {k + 1}: propulsion {step['propulsion']:.0f} kW, "
                f"bus load {total:.1f} kW, running {step['on']}, "
                f"highest load fraction {worst:.3f}"
            )
            print(line)
            if not any(step["on"]):
                found.append(f"{label} call {call + 1} step {k + 1}: no source runs")
            if sufficient and worst > ALLOWED * (1 + 1e-9):
                found.append(
                    f"{label} call {call + 1} step {k + 1}: a running source is loaded at "
                    f"{worst:.3f} > {ALLOWED} although a set with {min(sufficient):.0f} kW rating "
                    f"({ALLOWED} x {min(sufficient):.0f} = {ALLOWED * min(sufficient):.0f} kW > "
                    f"{total:.1f} kW) exists; the table's own pattern for this load is "
                    f"{step['table_pattern_for_total']}, switched on were {step['on']} "
                    f"({capacity_on:.0f} kW)"
                )
    return found


def main():
    print(f"ratings {RATINGS} kW, allowed load fraction {ALLOWED}, hotel load 100 kW")
    print("control: full PTI mode, load sharing mode 0 (default)")
    control = violations(run(0, [[600.0], [900.0]]), "mode 0")
    print("case A: full PTI mode, load sharing mode 1, one interval, two successive calls")
    case_a = violations(run(1, [[600.0], [900.0]]), "mode 1")
    print("case B: full PTI mode, load sharing mode 1, three intervals")
    case_b = violations(run(1, [[100.0, 600.0, 900.0]]), "mode 1 series")
    found = control + case_a + case_b
    if control:
        print("UNEXPECTED: the control case violates the property as well")
    if found:
        print("PROPERTY C15 VIOLATED:")
        for item in found:
            print("  - " + item)
        return 1
    print("property C15 holds on these inputs")
    return 0


if __name__ == "__main__":
    sys.exit(main())
