"""C15 finding 1: the load the start/stop table is looked up with leaves out the power a PTI/PTO
draws from the bus as a motor (PTI).  The table then keeps generators stopped that it needs, and the
running one is loaded far above the allowed fraction (above its rating, even) although the plant
has idle generators that would avoid it.

Part A: HybridPropulsionSystem in full PTI mode, through RunFeemsSim.MachineryCalculation.
Part B: ElectricPowerSystem with a PTI/PTO in given-power mode over a series, through
        feems.runsimulation.run_simulation with the PmsLoadTableSimulationInterface.

Exit status 1 = property violated (current code), 0 = property holds.
"""
import itertools
import logging
import sys

import numpy as np

logging.disable(logging.CRITICAL)

from feems.components_model.component_electric import (
    ElectricComponent,
    ElectricMachine,
    Genset,
    PTIPTO,
)
from feems.components_model.component_mechanical import (
    Engine,
    MainEngineForMechanicalPropulsion,
    MechanicalPropulsionComponent,
)
from feems.components_model.utility import IntegrationMethod
from feems.runsimulation import run_simulation
from feems.system_model import (
    ElectricPowerSystem,
    HybridPropulsionSystem,
    MechanicalPropulsionSystem,
)
from feems.types_for_feems import Power_kW, Speed_rpm, TypeComponent, TypePower
from RunFeemsSim.machinery_calculation import MachineryCalculation
from RunFeemsSim.pms_basic import (
    PmsLoadTable,
    PmsLoadTableSimulationInterface,
    get_min_load_table_dict_from_feems_system,
)

BSFC = np.array([[0.25, 220.0], [0.5, 200.0], [0.75, 190.0], [1.0, 195.0]])
PERCENT = 80.0
F = PERCENT / 100


def genset(name, rated, swb):
    generator = ElectricMachine(
        type_=TypeComponent.GENERATOR,
        name="generator " + name,
        rated_power=Power_kW(rated),
        rated_speed=Speed_rpm(900),
        power_type=TypePower.POWER_SOURCE,
        switchboard_id=swb,
        eff_curve=np.array([0.96]),
    )
    engine = Engine(
        type_=TypeComponent.AUXILIARY_ENGINE,
        name="engine " + name,
        rated_power=Power_kW(rated / 0.96),
        rated_speed=Speed_rpm(900),
        bsfc_curve=BSFC,
    )
    return Genset(name, engine, generator)


def other_load(name, swb):
    return ElectricComponent(
        type_=TypeComponent.OTHER_LOAD,
        name=name,
        rated_power=Power_kW(1000),
        power_type=TypePower.POWER_CONSUMER,
        switchboard_id=swb,
        eff_curve=np.array([1.0]),
    )


def pti_pto(swb):
    machine = ElectricMachine(
        type_=TypeComponent.SYNCHRONOUS_MACHINE,
        power_type=TypePower.PTI_PTO,
        name="shaft machine",
        rated_power=Power_kW(1500),
        rated_speed=Speed_rpm(900),
        eff_curve=np.array([0.97]),
    )
    return PTIPTO(
        name="PTI/PTO",
        components=[machine],
        switchboard_id=swb,
        rated_power=Power_kW(1500),
        rated_speed=Speed_rpm(900),
        shaft_line_id=1,
    )


def check(label, electric_system):
    """The consequence clause of C15 on the balanced plant. Returns the number of violations."""
    sources = electric_system.power_sources
    ratings = [s.rated_power for s in sources]
    power = np.array([np.atleast_1d(s.power_output) for s in sources])  # [source, step]
    status = np.array([np.atleast_1d(s.status) for s in sources]).astype(bool)
    capacities = [
        F * sum(r for r, on in zip(ratings, pattern) if on)
        for pattern in itertools.product([False, True], repeat=len(ratings))
    ]
    n_violations = 0
    for k in range(power.shape[1]):
        load_on_sources = power[:, k].sum()  # what the running sources deliver to the bus
        load_fraction = power[:, k] / np.array(ratings)
        avoidable = any(c > load_on_sources for c in capacities)
        overloaded = bool((load_fraction[status[:, k]] > F * (1 + 1e-9)).any())
        verdict = "VIOLATION" if (avoidable and overloaded) or not status[:, k].any() else "ok"
        print(
            f"  {label} step {k}: load on the sources {load_on_sources:8.1f} kW, running "
            f"{status[:, k].astype(int)}, load fractions {np.round(load_fraction, 3)}, "
            f"allowed {F}, a sufficient set exists: {avoidable} -> {verdict}"
        )
        n_violations += verdict == "VIOLATION"
    return n_violations


def part_a():
    print("Part A: hybrid plant, full PTI mode, MachineryCalculation (one interval)")
    machine = pti_pto(1)
    electric = ElectricPowerSystem(
        "electric",
        [genset("G1", 1000, 1), genset("G2", 1000, 1), genset("G3", 1000, 1),
         other_load("hotel", 1), machine],
        [],
    )
    main_engine = MainEngineForMechanicalPropulsion(
        "main engine",
        Engine(
            type_=TypeComponent.MAIN_ENGINE,
            name="main engine",
            rated_power=Power_kW(4000),
            rated_speed=Speed_rpm(500),
            bsfc_curve=BSFC,
        ),
        shaft_line_id=1,
    )
    propeller = MechanicalPropulsionComponent(
        type_=TypeComponent.PROPELLER_LOAD,
        power_type=TypePower.POWER_CONSUMER,
        name="propeller",
        rated_power=Power_kW(4000),
        eff_curve=np.array([1.0]),
        shaft_line_id=1,
    )
    mechanical = MechanicalPropulsionSystem("mechanical", [main_engine, propeller, machine])
    hybrid = HybridPropulsionSystem("hybrid", electric, mechanical)
    # The vessel sails on the electric motor alone
    mechanical.set_full_pti_mode_for_name_shaft_line_id("PTI/PTO", 1, np.array([True]))
    calculation = MachineryCalculation(
        hybrid, maximum_allowed_power_source_load_percentage=PERCENT
    )
    calculation.calculate_machinery_system_output_from_statistics(
        propulsion_power=np.array([1200.0]),
        frequency=np.array([3600.0]),
        auxiliary_power_kw=100.0,
    )
    print(
        f"  PTI takes {machine.power_input} kW from the bus, main engine delivers "
        f"{main_engine.power_output} kW; the table was looked up with the hotel load (100 kW) only"
    )
    return check("A", electric)


def part_b():
    print("Part B: electric plant, PTI/PTO with given motoring power, run_simulation + table")
    n = 3
    machine = pti_pto(1)
    hotel = other_load("hotel", 1)
    electric = ElectricPowerSystem(
        "electric",
        [genset("G1", 1000, 1), genset("G2", 500, 1), genset("G3", 2000, 1), hotel, machine],
        [],
    )
    hotel.set_power_input_from_output(np.array([100.0, 300.0, 390.0]))
    machine.status = np.ones(n, dtype=bool)
    machine.load_sharing_mode = np.ones(n)  # given power, not sharing the bus load
    machine.set_power_output_from_input(np.array([0.0, 600.0, 1400.0]))  # kW taken from the bus
    electric.set_time_interval(np.full(n, 60.0), IntegrationMethod.sum_with_time)
    table = PmsLoadTable(get_min_load_table_dict_from_feems_system(electric, PERCENT))
    interface = PmsLoadTableSimulationInterface(n_bus_ties=0, pms_load_table=table)
    run_simulation(electric, interface)
    return check("B", electric)


if __name__ == "__main__":
    violations = part_a() + part_b()
    if violations:
        print(
            f"C15 VIOLATED in {violations} case(s): a running source is loaded above the allowed "
            "fraction although a sufficient set of sources exists"
        )
        sys.exit(1)
    print("C15 holds on these inputs")
    sys.exit(0)
