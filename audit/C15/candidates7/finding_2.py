"""C15 finding 2 (alternative entry points): the on/off patterns of a start/stop table are bound
to the POSITION of a source in a list, and the two public table builders list the sources of one
and the same plant in different orders.

get_min_load_table_dict_from_feems_system lists the sources in the order the plant was built with
(ElectricPowerSystem.power_sources, which is also the order in which
PmsLoadTableSimulationInterface.set_status hands out the pattern);
get_min_load_table_dict_from_proto_system lists them switchboard by switchboard.  For a plant whose
components are not listed switchboard by switchboard (ascending), the table made from the plant's
own protobuf description switches on the wrong units: an insufficient set runs although a
sufficient one exists.

Exit status 1 = property violated (current code), 0 = property holds.
"""
import itertools
import logging
import sys

import numpy as np

logging.disable(logging.CRITICAL)

from feems.components_model.component_electric import ElectricComponent, ElectricMachine, Genset
from feems.components_model.component_mechanical import Engine
from feems.components_model.utility import IntegrationMethod
from feems.runsimulation import run_simulation
from feems.system_model import ElectricPowerSystem
from feems.types_for_feems import Power_kW, Speed_rpm, TypeComponent, TypePower
from MachSysS.convert_to_protobuf import convert_electric_system_to_protobuf_machinery_system
from RunFeemsSim.pms_basic import (
    PmsLoadTable,
    PmsLoadTableSimulationInterface,
    get_min_load_table_dict_from_feems_system,
    get_min_load_table_dict_from_proto_system,
)

BSFC = np.array([[0.25, 220.0], [0.5, 200.0], [0.75, 190.0], [1.0, 195.0]])
PERCENT = 80.0
F = PERCENT / 100


def genset(name, rated, swb):
    generator = ElectricMachine(
        type_=TypeComponent.GENERATOR, name="generator " + name, rated_power=Power_kW(rated),
        rated_speed=Speed_rpm(900), power_type=TypePower.POWER_SOURCE, switchboard_id=swb,
        eff_curve=np.array([0.96]),
    )
    engine = Engine(
        type_=TypeComponent.AUXILIARY_ENGINE, name="engine " + name,
        rated_power=Power_kW(rated / 0.96), rated_speed=Speed_rpm(900), bsfc_curve=BSFC,
    )
    return Genset(name, engine, generator)


def consumer(name, swb):
    return ElectricComponent(
        type_=TypeComponent.OTHER_LOAD, name=name, rated_power=Power_kW(2000),
        power_type=TypePower.POWER_CONSUMER, switchboard_id=swb, eff_curve=np.array([1.0]),
    )


# The large generator (on switchboard 2) is listed before the small one (on switchboard 1)
hotel_1, hotel_2 = consumer("hotel 1", 1), consumer("hotel 2", 2)
plant = ElectricPowerSystem(
    "plant", [genset("large", 1000, 2), genset("small", 200, 1), hotel_1, hotel_2], [(1, 2)]
)
message = convert_electric_system_to_protobuf_machinery_system(
    plant, maximum_allowed_genset_load_percentage=PERCENT
)
table_plant = get_min_load_table_dict_from_feems_system(plant, PERCENT)
table_message = get_min_load_table_dict_from_proto_system(message)
print("sources of the plant      :", [(s.name, s.rated_power) for s in plant.power_sources])
print("table made from the plant  :", table_plant)
print("table made from its message:", table_message)

loads = np.array([100.0, 500.0, 700.0, 900.0])
hotel_1.set_power_input_from_output(loads / 2)
hotel_2.set_power_input_from_output(loads / 2)
plant.set_time_interval(np.full(len(loads), 60.0), IntegrationMethod.sum_with_time)
run_simulation(
    plant,
    PmsLoadTableSimulationInterface(n_bus_ties=1, pms_load_table=PmsLoadTable(table_message)),
)

ratings = [s.rated_power for s in plant.power_sources]
capacities = [F * sum(r for r, on in zip(ratings, p) if on)
              for p in itertools.product([False, True], repeat=len(ratings))]
violations = 0
for k, load in enumerate(loads):
    running = np.array([bool(s.status[k]) for s in plant.power_sources])
    fraction = np.array([s.power_output[k] / s.rated_power for s in plant.power_sources])
    selected = F * sum(r for r, on in zip(ratings, running) if on)
    sufficient = [c for c in capacities if c > load]
    wanted = min(sufficient) if sufficient else max(capacities)
    bad = selected != wanted or (sufficient and (fraction[running] > F * (1 + 1e-9)).any())
    violations += bool(bad)
    print(f"load {load:6.1f} kW: running {running.astype(int)}, load fractions "
          f"{np.round(fraction, 3)}, selected capacity {selected:.0f}, minimal sufficient "
          f"capacity {wanted:.0f} -> {'VIOLATION' if bad else 'ok'}")

if table_plant != table_message:
    print("(the two table builders give different tables for one and the same plant)")
if violations:
    print(f"C15 VIOLATED at {violations} loads")
    sys.exit(1)
print("C15 holds on these inputs")
sys.exit(0)
