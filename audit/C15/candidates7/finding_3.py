"""C15 finding 3 (literal reading, threshold case): the two public load-dependent start/stop
interfaces disagree for a load exactly at a switching threshold.

For equal generator sizes the table (RunFeemsSim.pms_basic) starts the next generator AT the
threshold k*f*R (capacity must EXCEED the load, as C15 says), whereas
feems.runsimulation.EqualEngineSizeAllClosedSimulationInterface still runs k generators there
(ceil(load / (f*R)) == k): the selected capacity equals the load and does not exceed it although a
larger set exists.  The equal-size interface also takes the "percentage" as a fraction (0.8),
unlike every other *_percentage parameter of the start/stop code (80).

Exit status 1 = the two entry points disagree / the strict clause fails, 0 = they agree.
"""
import logging
import sys

import numpy as np

logging.disable(logging.CRITICAL)

from feems.components_model.component_electric import ElectricComponent, ElectricMachine, Genset
from feems.components_model.component_mechanical import Engine
from feems.components_model.utility import IntegrationMethod
from feems.runsimulation import EqualEngineSizeAllClosedSimulationInterface, run_simulation
from feems.system_model import ElectricPowerSystem
from feems.types_for_feems import Power_kW, Speed_rpm, TypeComponent, TypePower
from RunFeemsSim.pms_basic import (
    PmsLoadTable,
    PmsLoadTableSimulationInterface,
    get_min_load_table_dict_from_feems_system,
)

BSFC = np.array([[0.25, 220.0], [0.5, 200.0], [0.75, 190.0], [1.0, 195.0]])
RATED, F = 1000.0, 0.8


def genset(name, swb):
    generator = ElectricMachine(
        type_=TypeComponent.GENERATOR, name="generator " + name, rated_power=Power_kW(RATED),
        rated_speed=Speed_rpm(900), power_type=TypePower.POWER_SOURCE, switchboard_id=swb,
        eff_curve=np.array([0.96]),
    )
    engine = Engine(
        type_=TypeComponent.AUXILIARY_ENGINE, name="engine " + name,
        rated_power=Power_kW(RATED / 0.96), rated_speed=Speed_rpm(900), bsfc_curve=BSFC,
    )
    return Genset(name, engine, generator)


hotel = ElectricComponent(
    type_=TypeComponent.OTHER_LOAD, name="hotel", rated_power=Power_kW(5000),
    power_type=TypePower.POWER_CONSUMER, switchboard_id=1, eff_curve=np.array([1.0]),
)
plant = ElectricPowerSystem("plant", [genset("G1", 1), genset("G2", 1), genset("G3", 1), hotel], [])
# below, exactly at and above the first two thresholds f*R = 800 kW and 2*f*R = 1600 kW
loads = np.array([799.0, 800.0, 801.0, 1599.0, 1600.0, 1601.0])
hotel.set_power_input_from_output(loads)
plant.set_time_interval(np.full(len(loads), 60.0), IntegrationMethod.sum_with_time)


def capacity_selected():
    return np.array([F * sum(s.rated_power * s.status[k] for s in plant.power_sources)
                     for k in range(len(loads))])


table = PmsLoadTableSimulationInterface(
    n_bus_ties=0,
    pms_load_table=PmsLoadTable(get_min_load_table_dict_from_feems_system(plant, 100 * F)),
)
run_simulation(plant, table)
capacity_table = capacity_selected()

equal_size = EqualEngineSizeAllClosedSimulationInterface(
    swb2n_gensets={1: 3}, rated_power_gensets=RATED, n_bus_ties=0,
    maximum_allowable_genset_load_percentage=F,
)
run_simulation(plant, equal_size)
capacity_equal_size = capacity_selected()

plant_capacity = 3 * F * RATED
violations = 0
print("load kW | capacity selected by the table | by the equal-size interface")
for load, c_table, c_equal in zip(loads, capacity_table, capacity_equal_size):
    bad = []
    for name, c in (("table", c_table), ("equal-size", c_equal)):
        if load < plant_capacity and not c > load:
            bad.append(f"{name}: capacity {c:.0f} does not exceed the load")
    if c_table != c_equal:
        bad.append("the two interfaces disagree")
    violations += bool(bad)
    print(f"{load:7.1f} | {c_table:7.0f} | {c_equal:7.0f} | {'; '.join(bad) if bad else 'ok'}")

if violations:
    print(f"C15 (strict 'exceeds' clause / agreement of entry points) fails at {violations} loads")
    sys.exit(1)
print("C15 holds on these inputs")
sys.exit(0)
