"""C15 finding 4 (borderline - concerns the second load-dependent start/stop rule of
feems/runsimulation.py, EqualEngineSizeAllClosedSimulationInterface, not the table class):
for equal ratings it should give a sufficient set and at least one running source for every
load, but it refuses a valid plant whenever the FIRST switchboard has no consumer.

Plant: three equal 100 kW gensets, two on switchboard 1 (no consumer there), one on
switchboard 2 together with the only load; bus tie 1-2; allowed fraction 0.8.
ElectricPowerSystem.get_sum_consumption_kw_sources_switchboard() reports a consumer-free
switchboard as np.zeros(1) ("Allow scalars"); the rule takes the number of points from the
first dictionary entry and then adds the longer series in place -> ValueError.
The same plant with the load moved to switchboard 1 (control) is calculated and satisfies the
property, and PmsLoadTableSimulationInterface handles both layouts.

Exit status 1 = valid input refused / property violated (current code), 0 = property holds.
"""
import sys

import numpy as np

from feems.components_model.component_electric import (
    ElectricComponent,
    ElectricMachine,
    Genset,
)
from feems.components_model.component_mechanical import Engine
from feems.components_model.utility import IntegrationMethod
from feems.runsimulation import (
    EqualEngineSizeAllClosedSimulationInterface,
    run_simulation,
)
from feems.system_model import ElectricPowerSystem
from feems.types_for_feems import NOxCalculationMethod, TypeComponent, TypePower

F = 0.8
RATED = 100.0
BSFC = np.array([[0.25, 220.0], [0.5, 200.0], [0.75, 190.0], [1.0, 195.0]])
EFF = np.array([[0.25, 0.93], [0.5, 0.95], [0.75, 0.96], [1.0, 0.96]])
LOADS = np.array([-5.0, 0.0, 50.0, 79.0, 81.0, 150.0, 170.0, 239.0, 300.0])


def genset(name: str, swb: int) -> Genset:
    engine = Engine(
        type_=TypeComponent.AUXILIARY_ENGINE,
        name="engine " + name,
        rated_power=RATED / 0.9,
        rated_speed=1000,
        bsfc_curve=BSFC,
        nox_calculation_method=NOxCalculationMethod.TIER_2,
    )
    generator = ElectricMachine(
        type_=TypeComponent.GENERATOR,
        name="generator " + name,
        rated_power=RATED,
        rated_speed=1000,
        power_type=TypePower.POWER_SOURCE,
        switchboard_id=swb,
        eff_curve=EFF,
    )
    return Genset(name, engine, generator)


def run(load_on_swb: int) -> int:
    aux = ElectricComponent(
        type_=TypeComponent.OTHER_LOAD,
        name="aux",
        rated_power=1000.0,
        eff_curve=np.array([1.0]),
        power_type=TypePower.POWER_CONSUMER,
        switchboard_id=load_on_swb,
    )
    plant = ElectricPowerSystem(
        "plant", [genset("G1", 1), genset("G2", 1), genset("G3", 2), aux], [(1, 2)]
    )
    aux.set_power_input_from_output(LOADS)
    plant.set_time_interval(np.ones(len(LOADS)), integration_method=IntegrationMethod.sum_with_time)
    for source in plant.power_sources:  # this rule leaves the sharing mode to the caller
        source.load_sharing_mode = np.zeros(len(LOADS))
    pms = EqualEngineSizeAllClosedSimulationInterface(
        swb2n_gensets={1: 2, 2: 1},
        rated_power_gensets=RATED,
        n_bus_ties=1,
        maximum_allowable_genset_load_percentage=F,
    )
    print(f"--- load on switchboard {load_on_swb}; lengths reported per switchboard:",
          {k: len(v) for k, v in plant.get_sum_consumption_kw_sources_switchboard().items()})
    try:
        run_simulation(plant, pms)
    except ValueError as error:
        print("refused: ValueError:", error)
        return 1
    violations = 0
    status = np.array([np.asarray(s.status, dtype=bool) for s in plant.power_sources])
    power = np.array([s.power_output for s in plant.power_sources])
    for j, load in enumerate(LOADS):
        n_on = int(status[:, j].sum())
        avoidable = F * 3 * RATED > load
        worst = (power[:, j] / RATED)[status[:, j]].max() if n_on else 0.0
        bad = n_on == 0 or (avoidable and worst > F * (1 + 1e-9))
        violations += bad
        print(f"load {load:6.1f}: {n_on} running, highest load {worst:.3f}" + ("  VIOLATION" if bad else ""))
    return violations


if __name__ == "__main__":
    control = run(load_on_swb=1)
    finding = run(load_on_swb=2)
    if control or finding:
        print("PROPERTY VIOLATED (valid input refused)")
        sys.exit(1)
    print("property holds")
    sys.exit(0)
