"""C15 finding 3 (interface disagreement, lower rank): the two load-dependent start/stop entry
points take the allowed load under the same word "percentage" but in different units.

  MachineryCalculation(maximum_allowed_power_source_load_percentage=80)        -> 80 % (divides by 100)
  get_min_load_table_dict_from_feems_system(system, 80)                       -> 80 % (divides by 100)
  EqualEngineSizeAllClosedSimulationInterface(
      maximum_allowable_genset_load_percentage=80)                            -> factor 80 (= 8000 %)

With the value 80 the equal-size interface never starts a second generator set: three equal
1000 kW sets, 2000 kW load -> one set at 200 % while the table-driven entry point, given the
same 80, runs all three at 66.7 %.

Exit status 1 = property violated for the equal-size entry point, 0 = holds.
"""
import itertools
import sys

import numpy as np

from feems.components_model import SwbId
from feems.components_model.component_electric import ElectricComponent, ElectricMachine, Genset
from feems.components_model.component_mechanical import Engine
from feems.components_model.utility import IntegrationMethod
from feems.runsimulation import EqualEngineSizeAllClosedSimulationInterface, run_simulation
from feems.system_model import ElectricPowerSystem
from feems.types_for_feems import NOxCalculationMethod, TypeComponent, TypePower
from RunFeemsSim.pms_basic import (
    PmsLoadTable,
    PmsLoadTableSimulationInterface,
    get_min_load_table_dict_from_feems_system,
)

BSFC = np.array([[0.25, 210.0], [0.5, 200.0], [0.75, 190.0], [1.0, 195.0]])
PERCENT = 80
F = PERCENT / 100


def genset(name, rated_kw, swb):
    generator = ElectricMachine(
        type_=TypeComponent.GENERATOR,
        name="generator " + name,
        rated_power=rated_kw,
        rated_speed=900,
        power_type=TypePower.POWER_SOURCE,
        switchboard_id=swb,
        eff_curve=np.array([96.0]),
    )
    engine = Engine(
        type_=TypeComponent.AUXILIARY_ENGINE,
        name="engine " + name,
        rated_power=rated_kw / 0.96,
        rated_speed=900,
        bsfc_curve=BSFC,
        nox_calculation_method=NOxCalculationMethod.TIER_2,
    )
    return Genset(name, engine, generator)


def plant():
    consumer = ElectricComponent(
        type_=TypeComponent.OTHER_LOAD,
        name="hotel load",
        rated_power=5000,
        eff_curve=np.array([100.0]),
        power_type=TypePower.POWER_CONSUMER,
        switchboard_id=1,
    )
    system = ElectricPowerSystem(
        "plant",
        [genset("genset 1", 1000, 1), genset("genset 2", 1000, 2), genset("genset 3", 1000, 2), consumer],
        [(1, 2)],
    )
    return system, consumer


LOADS = np.array([500.0, 900.0, 1700.0, 2000.0])


def run(system, consumer, pms):
    consumer.set_power_input_from_output(LOADS)
    system.set_time_interval(np.full(LOADS.size, 60.0), IntegrationMethod.sum_with_time)
    run_simulation(system, pms)


def violations(system, label):
    ratings = [s.rated_power for s in system.power_sources]
    found = 0
    for k, load in enumerate(LOADS):
        on = [bool(s.status[k]) for s in system.power_sources]
        fractions = [s.power_output[k] / s.rated_power for s in system.power_sources]
        avoidable = any(
            F * sum(r for r, o in zip(ratings, pat) if o) > load
            for pat in itertools.product([False, True], repeat=len(ratings))
        )
        over = max(fractions) > F * (1 + 1e-9)
        flag = "   <-- above 0.80 although avoidable" if over and avoidable else ""
        print(f"  [{label}] load {load:6.0f} kW running {on} fractions {np.round(fractions, 4)}{flag}")
        found += int(over and avoidable)
    return found


system, consumer = plant()
table = PmsLoadTable(get_min_load_table_dict_from_feems_system(system, PERCENT))
run(system, consumer, PmsLoadTableSimulationInterface(n_bus_ties=1, pms_load_table=table))
print("load table, percentage = 80")
bad_table = violations(system, "table")

system, consumer = plant()
pms = EqualEngineSizeAllClosedSimulationInterface(
    swb2n_gensets={SwbId(1): 1, SwbId(2): 2},
    rated_power_gensets=1000.0,
    n_bus_ties=1,
    maximum_allowable_genset_load_percentage=PERCENT,
)
run(system, consumer, pms)
print("equal-size interface, maximum_allowable_genset_load_percentage = 80")
bad_equal = violations(system, "equal-size")

if bad_table or bad_equal:
    print(f"C15 VIOLATED: table {bad_table} step(s), equal-size interface {bad_equal} step(s)")
    sys.exit(1)
print("C15 holds on these inputs")
sys.exit(0)
