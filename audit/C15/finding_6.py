"""C15 finding 2: a one-step calculation driven by the start/stop table is refused when the same
plant objects were used for a longer series before and the plant contains an energy storage
(which this PMS switches off).  The same call on a fresh plant, or on a plant without the
battery, succeeds.

(a) MachineryCalculation (default PMS = load table): statistics with 2 modes, then with 1 mode.
(b) run_simulation + PmsLoadTableSimulationInterface: 3 steps, then 1 step (interval given as a
    one-element array and as a plain float).

Exit status 1 = a valid input was refused / gave a different answer than the fresh plant
(expected on the current code), 0 = every repeated call agrees with the fresh plant.
"""
import sys

import numpy as np

from feems.components_model.component_electric import (
    Battery,
    ElectricComponent,
    ElectricMachine,
    Genset,
)
from feems.components_model.component_mechanical import Engine
from feems.components_model.utility import IntegrationMethod
from feems.runsimulation import run_simulation
from feems.system_model import ElectricPowerSystem
from feems.types_for_feems import NOxCalculationMethod, TypeComponent, TypePower
from RunFeemsSim.machinery_calculation import MachineryCalculation
from RunFeemsSim.pms_basic import (
    PmsLoadTable,
    PmsLoadTableSimulationInterface,
    get_min_load_table_dict_from_feems_system,
)

BSFC = np.array([[0.25, 210.0], [0.5, 200.0], [0.75, 190.0], [1.0, 195.0]])
PERCENT = 80


def genset(name, rated_kw, swb):
    generator = ElectricMachine(
        type_=TypeComponent.GENERATOR,
        name="generator " + name,
        rated_power=rated_kw,
        rated_speed=900,
        power_type=TypePower.POWER_SOURCE,
        switchboard_id=swb,
        eff_curve=np.array([96.0]),
    )
    engine = Engine(
        type_=TypeComponent.AUXILIARY_ENGINE,
        name="engine " + name,
        rated_power=rated_kw / 0.96,
        rated_speed=900,
        bsfc_curve=BSFC,
        nox_calculation_method=NOxCalculationMethod.TIER_2,
    )
    return Genset(name, engine, generator)


def consumer(name, type_, swb):
    return ElectricComponent(
        type_=type_,
        name=name,
        rated_power=5000,
        eff_curve=np.array([100.0]),
        power_type=TypePower.POWER_CONSUMER,
        switchboard_id=swb,
    )


def plant(with_battery=True):
    components = [
        genset("genset 1", 1000, 1),
        genset("genset 2", 1000, 1),
        consumer("drive", TypeComponent.PROPULSION_DRIVE, 1),
        consumer("hotel", TypeComponent.OTHER_LOAD, 1),
    ]
    if with_battery:
        components.append(
            Battery(
                name="battery",
                rated_capacity_kwh=1000,
                charging_rate_c=1,
                discharge_rate_c=1,
                switchboard_id=1,
            )
        )
    return ElectricPowerSystem("plant", components, [])


def describe(system):
    return (
        "running "
        + str([bool(np.any(s.status)) for s in system.power_sources])
        + " output "
        + str([np.round(s.power_output, 1).tolist() for s in system.power_sources])
    )


failures = 0

# ---------------------------------------------------------------- (a) MachineryCalculation
def one_mode(calc):
    return calc.calculate_machinery_system_output_from_statistics(
        propulsion_power=np.array([500.0]), frequency=np.array([3600.0]), auxiliary_power_kw=50.0
    )


fresh = plant()
reference = one_mode(MachineryCalculation(fresh, maximum_allowed_power_source_load_percentage=PERCENT))
print(f"(a) fresh plant, one mode 550 kW: fuel {reference.fuel_consumption_total_kg:.3f} kg, "
      f"{describe(fresh)}")

for with_battery in (False, True):
    system = plant(with_battery)
    calc = MachineryCalculation(system, maximum_allowed_power_source_load_percentage=PERCENT)
    calc.calculate_machinery_system_output_from_statistics(
        propulsion_power=np.array([500.0, 1200.0]),
        frequency=np.array([3600.0, 3600.0]),
        auxiliary_power_kw=50.0,
    )
    label = "with battery" if with_battery else "without battery"
    try:
        again = one_mode(calc)
        same = np.isclose(again.fuel_consumption_total_kg, reference.fuel_consumption_total_kg)
        print(f"(a) {label}: two modes, then one mode: fuel {again.fuel_consumption_total_kg:.3f} kg"
              f" ({'agrees' if same else 'DIFFERS'}), {describe(system)}")
        failures += int(not same)
    except Exception as error:  # noqa: BLE001 - any refusal of this valid input is the finding
        print(f"(a) {label}: two modes, then one mode: REFUSED with {type(error).__name__}: {error}")
        print(f"      state left behind: {describe(system)}; battery power_input "
              f"{[c.power_input.tolist() for c in system.energy_storage]}")
        failures += 1

# ---------------------------------------------------------------- (b) run_simulation
for interval in (np.array([3600.0]), 3600.0):
    system = plant()
    table = PmsLoadTable(get_min_load_table_dict_from_feems_system(system, PERCENT))
    pms = PmsLoadTableSimulationInterface(n_bus_ties=0, pms_load_table=table)
    system.propulsion_drives[0].set_power_input_from_output(np.zeros(3))
    system.other_load[0].set_power_input_from_output(np.array([550.0, 1200.0, 700.0]))
    system.set_time_interval(np.full(3, 3600.0), IntegrationMethod.sum_with_time)
    run_simulation(system, pms)
    system.get_fuel_energy_consumption_running_time()
    system.propulsion_drives[0].set_power_input_from_output(np.zeros(1))
    system.other_load[0].set_power_input_from_output(np.array([550.0]))
    system.set_time_interval(interval, IntegrationMethod.sum_with_time)
    kind = type(interval).__name__
    try:
        run_simulation(system, pms)
        again = system.get_fuel_energy_consumption_running_time()
        same = np.isclose(again.fuel_consumption_total_kg, reference.fuel_consumption_total_kg)
        print(f"(b) three steps, then one step (interval as {kind}): fuel "
              f"{again.fuel_consumption_total_kg:.3f} kg ({'agrees' if same else 'DIFFERS'})")
        failures += int(not same)
    except Exception as error:  # noqa: BLE001
        print(f"(b) three steps, then one step (interval as {kind}): REFUSED with "
              f"{type(error).__name__}: {str(error)[:90]}")
        print(f"      state left behind: {describe(system)}")
        failures += 1

if failures:
    print(f"C15 VIOLATED: {failures} repeated one-step calculation(s) refused or different")
    sys.exit(1)
print("C15 holds on these inputs")
sys.exit(0)
