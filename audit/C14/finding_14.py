"""C14 finding 3: the series table has one fuel-rate column per fuel TYPE and ORIGIN of a component
(the repair 'one column per fuel of the component'). A dual-fuel engine whose pilot fuel is of the
same kind as its main fuel (diesel main, diesel pilot: the record and the record's series keep the
two entries apart, 1.85 kg and 0.022 kg) gets ONE column, and it holds the pilot fuel only: the
main fuel rate is overwritten."""
import sys, logging
import numpy as np
logging.disable(logging.CRITICAL)
from feems.components_model.component_electric import ElectricComponent, ElectricMachine, Genset
from feems.components_model.component_mechanical import EngineDualFuel
from feems.components_model.utility import IntegrationMethod
from feems.fuel import TypeFuel, FuelOrigin
from feems.system_model import ElectricPowerSystem
from feems.types_for_feems import TypeComponent, TypePower
from MachSysS.convert_feems_result_to_proto import FEEMSResultConverter

EFF = np.array([[0.0, 0.25, 0.5, 0.75, 1.0], [0.88, 0.92, 0.95, 0.96, 0.965]]).T
BSFC = np.array([[0.0, 0.25, 0.5, 0.75, 1.0], [260.0, 220.0, 200.0, 195.0, 198.0]]).T
eng = EngineDualFuel(type_=TypeComponent.AUXILIARY_ENGINE, name="G1 eng", rated_power=1000 / 0.965,
                     rated_speed=900, bsfc_curve=BSFC, fuel_type=TypeFuel.DIESEL,
                     fuel_origin=FuelOrigin.FOSSIL, bspfc_curve=np.array([[0.0, 1.0], [3.0, 1.5]]).T,
                     pilot_fuel_type=TypeFuel.DIESEL, pilot_fuel_origin=FuelOrigin.FOSSIL)
gen = ElectricMachine(type_=TypeComponent.GENERATOR, name="G1 gen", rated_power=1000.0,
                      rated_speed=900, power_type=TypePower.POWER_SOURCE, switchboard_id=1,
                      eff_curve=EFF)
consumer = ElectricComponent(type_=TypeComponent.OTHER_LOAD, name="L1", rated_power=2000.0,
                             eff_curve=np.array([100.0]), power_type=TypePower.POWER_CONSUMER,
                             switchboard_id=1)
system = ElectricPowerSystem("plant", [Genset("G1", eng, gen), consumer], [])
n = 4
dt = np.array([60.0, 30.0, 30.0, 10.0])
system.set_time_interval(dt, IntegrationMethod.sum_with_time)
consumer.power_input = np.linspace(300.0, 700.0, n)
for source in system.power_sources:
    source.status = np.ones(n).astype(bool)
    source.load_sharing_mode = np.zeros(n)
system.do_power_balance_calculation()
result = system.get_fuel_energy_consumption_running_time()
converter = FEEMSResultConverter(result, system)
message = converter.get_feems_result_proto(include_time_series_for_components=True)
table = converter.get_timeseries_for_power_sources_and_energy_storage()

record = message.electric_system.detailed_result[0]
fuels_of_record = [f.mass_or_mass_fraction for f in record.multi_fuel_consumption_kg.fuels]
fuel_series = record.result_time_series.fuel_consumption_kg_per_s.fuels
fuel_columns = [c for c in table.columns if "fuel_consumption_kg_per_s" in c]
print("fuel masses of the record G1 [kg]       :", fuels_of_record)
print("fuel-rate series in the record          :", len(fuel_series))
print("fuel-rate columns of G1 in the table    :", fuel_columns)
mass_from_table = sum(float(np.sum(table[c].to_numpy() * dt)) for c in fuel_columns)
print("fuel mass integrated from the table [kg]:", mass_from_table)
print("fuel mass of the record [kg]            :", sum(fuels_of_record))
violated = len(fuel_columns) != len(fuel_series) or not np.isclose(mass_from_table, sum(fuels_of_record), rtol=1e-9)
print("VIOLATED" if violated else "holds")
sys.exit(1 if violated else 0)
