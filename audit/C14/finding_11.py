"""C14 finding 4 (entry point next to the protobuf export): the converter's own tabular view of the
exported component series, FEEMSResultConverter.get_timeseries_for_power_sources_and_energy_storage(),
cannot be produced for any plant: it asks a protobuf message for its len().  The series that the
protobuf records carry can therefore not be read back through the second public entry point that
should agree with them.

Run: PYTHONPATH=<worktree>/feems:<worktree>/machinery-system-structure:<worktree>/RunFEEMSSim python finding_4.py
Exit status 1 = property violated, 0 = property holds.
"""
import logging
import sys

import numpy as np

logging.disable(logging.CRITICAL)

from feems.components_model.component_electric import ElectricComponent, ElectricMachine, Genset
from feems.components_model.component_mechanical import Engine
from feems.components_model.utility import IntegrationMethod
from feems.system_model import ElectricPowerSystem
from feems.types_for_feems import TypeComponent, TypePower
from MachSysS.convert_feems_result_to_proto import FEEMSResultConverter

BSFC = np.array([[0.25, 230.0], [0.5, 210.0], [0.75, 200.0], [1.0, 205.0]])
EFF = np.array([[0.25, 0.90], [0.5, 0.93], [0.75, 0.95], [1.0, 0.96]])

engine = Engine(
    type_=TypeComponent.AUXILIARY_ENGINE, name="engine", rated_power=1000.0, rated_speed=900.0,
    bsfc_curve=BSFC,
)
generator = ElectricMachine(
    type_=TypeComponent.GENERATOR, name="generator", rated_power=950.0, rated_speed=900.0,
    power_type=TypePower.POWER_SOURCE, switchboard_id=1, eff_curve=EFF,
)
genset = Genset("G1", engine, generator)
load = ElectricComponent(
    TypeComponent.OTHER_LOAD, "hotel", 2000.0, EFF, TypePower.POWER_CONSUMER, switchboard_id=1
)
plant = ElectricPowerSystem("plant", [genset, load], [])
load.set_power_input_from_output(np.array([300.0, 400.0, 500.0]))
genset.status = np.ones(3, dtype=bool)
plant.set_time_interval(60.0, IntegrationMethod.simpson)
plant.do_power_balance_calculation()
result = plant.get_fuel_energy_consumption_running_time()

converter = FEEMSResultConverter(feems_result=result, system_feems=plant)
record = converter.get_feems_result_proto(
    include_time_series_for_components=True
).electric_system.detailed_result[0]
assert np.allclose(record.result_time_series.power_output_kw, genset.power_output)

try:
    table = converter.get_timeseries_for_power_sources_and_energy_storage()
except Exception as error:  # noqa: BLE001
    print(
        "PROPERTY VIOLATED: the table of the exported series cannot be made: "
        f"{type(error).__name__}: {error}"
    )
    sys.exit(1)

ok = (
    np.allclose(table.index.to_numpy(), record.result_time_series.time)
    and np.allclose(table["G1-power_output_kw"].to_numpy(), record.result_time_series.power_output_kw)
    and any("fuel_consumption" in str(column) for column in table.columns)
)
if not ok:
    print("PROPERTY VIOLATED: the table does not carry the exported series")
    print(table)
    sys.exit(1)
print("property holds: the table carries the exported series")
sys.exit(0)
