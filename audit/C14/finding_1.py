"""C14 finding 1: under FuelEU Maritime the exported fuel-rate series of a fuel cell system is not
the fuel rate of the result (it is recomputed with the IMO heating value and tagged IMO).

Run:  PYTHONPATH=<wt>/feems:<wt>/machinery-system-structure:<wt>/RunFEEMSSim python finding_1.py
Exit status 1 = property violated, 0 = property holds.
"""
import logging
import sys

import numpy as np

logging.disable(logging.CRITICAL)

from feems.components_model.component_electric import (
    ElectricComponent,
    ElectricMachine,
    FuelCell,
    FuelCellSystem,
    Genset,
)
from feems.components_model.component_mechanical import Engine
from feems.components_model.utility import IntegrationMethod, integrate_data
from feems.fuel import FuelOrigin, FuelSpecifiedBy, TypeFuel
from feems.system_model import ElectricPowerSystem
from feems.types_for_feems import TypeComponent, TypePower
from MachSysS.convert_feems_result_to_proto import FEEMSResultConverter

BSFC = np.array([[0.25, 230.0], [0.5, 205.0], [0.75, 195.0], [1.0, 200.0]])
EFF = np.array([[0.25, 0.93], [0.5, 0.95], [0.75, 0.96], [1.0, 0.958]])
CONV = np.array([[0.25, 0.96], [0.5, 0.97], [0.75, 0.972], [1.0, 0.98]])
FC = np.array([[0.25, 0.55], [0.5, 0.52], [0.75, 0.48], [1.0, 0.45]])

# --- plant: one diesel generating set and one fuel cell system running on natural gas (SOFC) ---
engine = Engine(
    type_=TypeComponent.AUXILIARY_ENGINE, name="aux engine", rated_power=1050, rated_speed=750,
    bsfc_curve=BSFC, fuel_type=TypeFuel.DIESEL,
)
generator = ElectricMachine(
    type_=TypeComponent.GENERATOR, name="generator", rated_power=1000, rated_speed=750,
    power_type=TypePower.POWER_SOURCE, switchboard_id=1, eff_curve=EFF,
)
genset = Genset("genset", engine, generator)
fuel_cell = FuelCellSystem(
    "fuel cell system",
    FuelCell("module", 510, FC, fuel_type=TypeFuel.NATURAL_GAS, fuel_origin=FuelOrigin.FOSSIL),
    ElectricComponent(TypeComponent.POWER_CONVERTER, "converter", 500, CONV, switchboard_id=1),
    switchboard_id=1,
)
load = ElectricComponent(
    type_=TypeComponent.OTHER_LOAD, name="hotel load", power_type=TypePower.POWER_CONSUMER,
    rated_power=1500, eff_curve=np.array([1.0]), switchboard_id=1,
)
system = ElectricPowerSystem("plant", [genset, fuel_cell, load], [])

n = 5
for source in system.power_sources:
    source.status = np.ones(n, dtype=bool)
    source.load_sharing_mode = np.zeros(n)
load.set_power_input_from_output(np.array([600.0, 900.0, 1200.0, 450.0, 300.0]))
system.set_time_interval(60.0, IntegrationMethod.simpson)
system.do_power_balance_calculation()

FUEL_EU = FuelSpecifiedBy.FUEL_EU_MARITIME
result = system.get_fuel_energy_consumption_running_time(fuel_specified_by=FUEL_EU)
export = FEEMSResultConverter(
    feems_result=result, system_feems=system, fuel_specified_by=FUEL_EU
).get_feems_result_proto(include_time_series_for_components=True)

violations = []
for record in export.electric_system.detailed_result:
    row = result.detail_result.loc[record.component_name]
    fuels_of_result = row["multi fuel consumption [kg]"].fuels
    series = record.result_time_series.fuel_consumption_kg_per_s.fuels
    if len(series) != len(fuels_of_result):
        violations.append(f"{record.component_name}: {len(series)} series, {len(fuels_of_result)} fuels")
    for fuel_series, fuel in zip(series, fuels_of_result):
        kind_series = (fuel_series.fuel_type, fuel_series.fuel_origin, fuel_series.fuel_specified_by)
        kind_result = (fuel.fuel_type.value, fuel.origin.value, fuel.fuel_specified_by.value)
        mass_from_series = integrate_data(
            data_to_integrate=np.array(fuel_series.mass_or_mass_fraction),
            time_interval_s=system.time_interval_s,
            integration_method=system.integration_method,
        )
        print(
            f"{record.component_name:17s} kind (type, origin, specified_by) series={kind_series} "
            f"result={kind_result}; lhv series={fuel_series.lhv_mj_per_g} result={fuel.lhv_mj_per_g}; "
            f"mass from series={mass_from_series:.6f} kg, mass in result={fuel.mass_or_mass_fraction:.6f} kg"
        )
        if kind_series != kind_result:
            violations.append(f"{record.component_name}: the series is for fuel kind {kind_series}, the result for {kind_result}")
        if abs(mass_from_series - fuel.mass_or_mass_fraction) > 1e-6 * fuel.mass_or_mass_fraction:
            violations.append(
                f"{record.component_name}: the fuel-rate series integrates to {mass_from_series:.6f} kg, "
                f"the result (and the same record) says {fuel.mass_or_mass_fraction:.6f} kg"
            )

if violations:
    print("\nPROPERTY VIOLATED:")
    for v in violations:
        print("  -", v)
    sys.exit(1)
print("property holds")
sys.exit(0)
