"""C14 finding 1 - a FuelEU Maritime result exported the way the project's own notebook does it
(FEEMSResultConverter(feems_result=res, system_feems=plant), no further argument) carries
fuel-rate series that are NOT those of the result: they are re-computed with the IMO tables.

Plant: one switchboard, a fuel cell system on fossil natural gas (SOFC), a genset on bio diesel,
one auxiliary load. Four samples, constant 60 s step, trapezoid integration.
The result is computed with fuel_specified_by=FUEL_EU_MARITIME.

Checked (property C14, second sentence): for every fuel consumer the record's fuel-rate series is
"per fuel" of the result - same fuel kind (type, origin, specification, heating value) as the
record's own fuel mass - and it is the series of that result: integrated over the same time base
it gives the record's fuel mass.

Exit status 1 = property violated, 0 = holds.
"""
import logging
import sys

import numpy as np

logging.disable(logging.CRITICAL)

from feems.components_model import Engine, ElectricMachine, Genset, ElectricComponent
from feems.components_model.component_electric import FuelCell, FuelCellSystem
from feems.components_model.utility import IntegrationMethod
from feems.fuel import FuelSpecifiedBy, TypeFuel, FuelOrigin
from feems.system_model import ElectricPowerSystem
from feems.types_for_feems import TypeComponent, TypePower
from MachSysS.convert_feems_result_to_proto import FEEMSResultConverter

N = 4
DT = 60.0

BSFC = np.array([[1.00, 0.75, 0.50, 0.25, 0.10], [193.66, 188.995, 194.47, 211.4, 250]]).T
EFF = np.array([[1.00, 0.75, 0.50, 0.25], [0.9585, 0.9595, 0.9534, 0.9299]]).T


def build_and_run():
    fuel_cell = FuelCell(
        name="sofc module",
        rated_power=600,
        eff_curve=np.array([0.55]),
        fuel_type=TypeFuel.NATURAL_GAS,
        fuel_origin=FuelOrigin.FOSSIL,
    )
    converter = ElectricComponent(
        type_=TypeComponent.POWER_CONVERTER,
        name="converter",
        rated_power=580,
        switchboard_id=1,
        eff_curve=np.array([0.97]),
    )
    sofc = FuelCellSystem("SOFC", fuel_cell, converter, 1)
    engine = Engine(
        type_=TypeComponent.AUXILIARY_ENGINE,
        name="aux engine",
        rated_power=850,
        rated_speed=1500,
        bsfc_curve=BSFC,
        fuel_type=TypeFuel.DIESEL,
        fuel_origin=FuelOrigin.BIO,
    )
    generator = ElectricMachine(
        type_=TypeComponent.GENERATOR,
        name="generator",
        rated_power=800,
        rated_speed=1500,
        power_type=TypePower.POWER_SOURCE,
        switchboard_id=1,
        eff_curve=EFF,
    )
    genset = Genset("G1", engine, generator)
    load = ElectricComponent(
        type_=TypeComponent.OTHER_LOAD,
        name="hotel",
        power_type=TypePower.POWER_CONSUMER,
        rated_power=900,
        eff_curve=np.array([1]),
        switchboard_id=1,
    )
    plant = ElectricPowerSystem("plant", [sofc, genset, load], [])
    load.set_power_input_from_output(np.array([300.0, 500.0, 700.0, 400.0]))
    for source in plant.power_sources:
        source.status = np.ones(N, dtype=bool)
        source.load_sharing_mode = np.zeros(N)
    plant.set_time_interval(DT, IntegrationMethod.trapezoid)
    plant.do_power_balance_calculation()
    result = plant.get_fuel_energy_consumption_running_time(
        fuel_specified_by=FuelSpecifiedBy.FUEL_EU_MARITIME
    )
    return plant, result


def trapezoid(y, dt):
    y = np.asarray(y, dtype=float)
    return float(((y[1:] + y[:-1]) / 2).sum() * dt)


def check(export, label):
    problems = []
    for record in export.electric_system.detailed_result:
        totals = list(record.multi_fuel_consumption_kg.fuels)
        rates = list(record.result_time_series.fuel_consumption_kg_per_s.fuels)
        if len(totals) != len(rates):
            problems.append(f"{record.component_name}: {len(totals)} fuels, {len(rates)} rate series")
            continue
        for total, rate in zip(totals, rates):
            kind_total = (total.fuel_type, total.fuel_origin, total.fuel_specified_by, total.lhv_mj_per_g)
            kind_rate = (rate.fuel_type, rate.fuel_origin, rate.fuel_specified_by, rate.lhv_mj_per_g)
            if kind_total != kind_rate:
                problems.append(
                    f"{record.component_name}: fuel of the mass (type, origin, specified_by, lhv) = "
                    f"{kind_total}, fuel of the rate series = {kind_rate}"
                )
            if len(rate.mass_or_mass_fraction) != N:
                problems.append(f"{record.component_name}: rate series of length {len(rate.mass_or_mass_fraction)}")
                continue
            integral = trapezoid(rate.mass_or_mass_fraction, DT)
            if abs(integral - total.mass_or_mass_fraction) > 1e-9 * max(1.0, abs(integral)):
                problems.append(
                    f"{record.component_name}: fuel mass of the result {total.mass_or_mass_fraction:.6f} kg, "
                    f"exported rate series integrates to {integral:.6f} kg "
                    f"({100 * (integral / total.mass_or_mass_fraction - 1):+.2f} %)"
                )
    print(f"--- {label}: {'OK' if not problems else 'VIOLATED'}")
    for p in problems:
        print("    " + p)
    return problems


def main():
    plant, result = build_and_run()
    # the call of machinery-system-structure/03_ConvertFEEMSResultToProto.ipynb, which loops over
    # FuelSpecifiedBy.IMO and FuelSpecifiedBy.FUEL_EU_MARITIME with exactly these two arguments
    export = FEEMSResultConverter(feems_result=result, system_feems=plant).get_feems_result_proto(
        include_time_series_for_components=True
    )
    problems = check(export, "FEEMSResultConverter(feems_result, system_feems) on a FuelEU Maritime result")
    # for comparison: the caller repeats the specification of the result by hand
    export2 = FEEMSResultConverter(
        feems_result=result, system_feems=plant, fuel_specified_by=FuelSpecifiedBy.FUEL_EU_MARITIME
    ).get_feems_result_proto(include_time_series_for_components=True)
    check(export2, "same, fuel_specified_by=FUEL_EU_MARITIME repeated by the caller")
    if problems:
        print("PROPERTY VIOLATED: the exported fuel-rate series are not those of the result")
        return 1
    print("property holds")
    return 0


if __name__ == "__main__":
    sys.exit(main())
