"""C14 finding 2 - in the export of a hybrid plant (and of any plant whose shaft line carries a
PTI/PTO) the PTI/PTO is a reported component of BOTH subsystems, but only its record in the
electric subsystem carries the requested power series; its record in the mechanical subsystem
comes without result_time_series (the converter only logs "No time-series data found for ...").

Plant: one switchboard (two gensets, hotel load, PTI/PTO), one shaft line (geared main engine,
propeller, the same PTI/PTO). Five samples with per-interval time steps; the PTI/PTO is in given
power mode and changes between PTO (-) and PTI (+).

Checked (property C14, second sentence): with include_time_series_for_components=True every record
of an electrical power source, storage unit, PTI/PTO or main engine - in the electric and in the
mechanical subsystem - carries the component's power series, of the length of the input, on the
time base of the input.

Exit status 1 = property violated, 0 = holds.
"""
import logging
import sys

import numpy as np

logging.disable(logging.CRITICAL)

from feems.components_model import Engine, ElectricMachine, Genset, ElectricComponent
from feems.components_model.component_base import BasicComponent
from feems.components_model.component_electric import PTIPTO
from feems.components_model.component_mechanical import (
    MainEngineWithGearBoxForMechanicalPropulsion,
    MechanicalPropulsionComponent,
)
from feems.components_model.utility import IntegrationMethod
from feems.system_model import (
    ElectricPowerSystem,
    MechanicalPropulsionSystem,
    HybridPropulsionSystem,
)
from feems.types_for_feems import TypeComponent, TypePower
from MachSysS.convert_feems_result_to_proto import FEEMSResultConverter

N = 5
DT = np.array([10.0, 20.0, 30.0, 40.0, 50.0])
TIME = np.concatenate(([0.0], np.cumsum(DT)[:-1]))

BSFC = np.array([[1.00, 0.75, 0.50, 0.25, 0.10], [193.66, 188.995, 194.47, 211.4, 250]]).T
EFF = np.array([[1.00, 0.75, 0.50, 0.25], [0.9585, 0.9595, 0.9534, 0.9299]]).T


def genset(name, power):
    engine = Engine(
        type_=TypeComponent.AUXILIARY_ENGINE,
        name="engine of " + name,
        rated_power=power / 0.95,
        rated_speed=1500,
        bsfc_curve=BSFC,
    )
    generator = ElectricMachine(
        type_=TypeComponent.GENERATOR,
        name="generator of " + name,
        rated_power=power,
        rated_speed=1500,
        power_type=TypePower.POWER_SOURCE,
        switchboard_id=1,
        eff_curve=EFF,
    )
    return Genset(name, engine, generator)


def build_and_run():
    machine = ElectricMachine(
        type_=TypeComponent.SYNCHRONOUS_MACHINE,
        power_type=TypePower.PTI_PTO,
        name="shaft machine",
        rated_power=500,
        rated_speed=900,
        eff_curve=EFF,
    )
    frequency_converter = ElectricComponent(
        type_=TypeComponent.POWER_CONVERTER,
        power_type=TypePower.POWER_TRANSMISSION,
        name="frequency converter",
        rated_power=500,
        eff_curve=np.array([0.98]),
    )
    pti_pto = PTIPTO(
        name="PTI/PTO 1",
        components=[frequency_converter, machine],
        switchboard_id=1,
        rated_power=500,
        rated_speed=900,
        shaft_line_id=1,
    )
    hotel = ElectricComponent(
        type_=TypeComponent.OTHER_LOAD,
        name="hotel",
        power_type=TypePower.POWER_CONSUMER,
        rated_power=900,
        eff_curve=np.array([1]),
        switchboard_id=1,
    )
    electric = ElectricPowerSystem("electric", [genset("G1", 800), genset("G2", 800), hotel, pti_pto], [])

    engine = Engine(
        type_=TypeComponent.MAIN_ENGINE,
        name="engine of ME1",
        rated_power=3000,
        rated_speed=750,
        bsfc_curve=BSFC,
    )
    gearbox = BasicComponent(
        type_=TypeComponent.GEARBOX,
        power_type=TypePower.POWER_TRANSMISSION,
        name="gearbox",
        rated_power=3000,
        rated_speed=750,
        eff_curve=np.array([0.98]),
    )
    main_engine = MainEngineWithGearBoxForMechanicalPropulsion("ME1", engine, gearbox, shaft_line_id=1)
    propeller = MechanicalPropulsionComponent(
        TypeComponent.PROPELLER_LOAD,
        TypePower.POWER_CONSUMER,
        "propeller",
        rated_power=3000,
        eff_curve=np.array([1.0]),
        shaft_line_id=1,
    )
    mechanical = MechanicalPropulsionSystem("mechanical", [main_engine, propeller, pti_pto])
    plant = HybridPropulsionSystem("hybrid", electric, mechanical)

    hotel.set_power_input_from_output(np.array([300.0, 350.0, 400.0, 450.0, 500.0]))
    propeller.set_power_input_from_output(np.array([1500.0, 1800.0, 2100.0, 1200.0, 900.0]))
    for source in electric.power_sources:
        source.status = np.ones(N, dtype=bool)
        source.load_sharing_mode = np.zeros(N)
    main_engine.status = np.ones(N, dtype=bool)
    pti_pto.status = np.ones(N, dtype=bool)
    pti_pto.load_sharing_mode = np.ones(N)  # given power
    pti_pto.full_pti_mode = np.zeros(N, dtype=bool)
    pti_pto.set_power_input_from_output(np.array([-200.0, -100.0, 0.0, 150.0, 300.0]))

    plant.set_time_interval(DT, IntegrationMethod.sum_with_time)
    plant.do_power_balance_calculation()
    result = plant.get_fuel_energy_consumption_running_time(
        time_interval_s=DT, integration_method=IntegrationMethod.sum_with_time
    )
    return plant, result, pti_pto


SERIES_TYPES = {
    "GENSET",
    "GENERATOR",
    "FUEL_CELL_SYSTEM",
    "COGES",
    "BATTERY",
    "BATTERY_SYSTEM",
    "SUPERCAPACITOR",
    "SUPERCAPACITOR_SYSTEM",
    "PTI_PTO_SYSTEM",
    "MAIN_ENGINE",
    "MAIN_ENGINE_WITH_GEARBOX",
}


def main():
    plant, result, pti_pto = build_and_run()
    export = FEEMSResultConverter(feems_result=result, system_feems=plant).get_feems_result_proto(
        include_time_series_for_components=True
    )
    power = {}
    for c in (
        plant.electric_system.power_sources
        + plant.electric_system.energy_storage
        + plant.electric_system.pti_pto
        + plant.mechanical_system.main_engines
        + plant.mechanical_system.pti_ptos
    ):
        power[(c.name, c.type.name)] = np.asarray(c.power_output, dtype=float)

    problems = []
    for label, subsystem, frame in (
        ("electric", export.electric_system, result.electric_system.detail_result),
        ("mechanical", export.mechanical_system, result.mechanical_system.detail_result),
    ):
        assert len(subsystem.detailed_result) == len(frame)
        for record in subsystem.detailed_result:
            if record.component_type not in SERIES_TYPES:
                continue
            series = record.result_time_series
            tag = f"{label} subsystem, record '{record.component_name}' ({record.component_type})"
            if not record.HasField("result_time_series") or len(series.power_output_kw) == 0:
                problems.append(f"{tag}: no power series at all (result_time_series missing)")
                continue
            if len(series.power_output_kw) != N or len(series.time) != N:
                problems.append(f"{tag}: {len(series.power_output_kw)} power values, {len(series.time)} times, input has {N}")
                continue
            if not np.allclose(series.time, TIME, rtol=1e-12, atol=1e-12):
                problems.append(f"{tag}: time {list(series.time)} instead of {list(TIME)}")
            if not np.allclose(series.power_output_kw, power[(record.component_name, record.component_type)], rtol=1e-12, atol=0):
                problems.append(f"{tag}: power series differs from the component's")
            else:
                print(f"ok   {tag}: {N} samples")

    print(f"power series of the PTI/PTO [kW]: {np.round(pti_pto.power_output, 2).tolist()}")
    for p in problems:
        print("FAIL " + p)
    if problems:
        print("PROPERTY VIOLATED: a PTI/PTO record of the export carries no series although requested")
        return 1
    print("property holds")
    return 0


if __name__ == "__main__":
    sys.exit(main())
