"""C14 finding 2: converter reuse leaves the series of an earlier export behind. The repair of
'a result converter that exported before ...' clears the stored series only inside
_retrieve_time_series_data_from_components, i.e. only when the NEXT export asks for series.
Export with series, run a new calculation on the same plant, hand the new result to the same
converter and export it WITHOUT series (or assign feems_result only): the series table
(get_timeseries_for_power_sources_and_energy_storage) then shows the power and fuel-rate series of
the EARLIER calculation on the time axis of the new one (same length), or cannot be made at all
(other length: ValueError)."""
import sys, logging
import numpy as np
logging.disable(logging.CRITICAL)
from feems.components_model.component_electric import ElectricComponent, ElectricMachine, Genset
from feems.components_model.component_mechanical import Engine
from feems.components_model.utility import IntegrationMethod
from feems.system_model import ElectricPowerSystem
from feems.types_for_feems import TypeComponent, TypePower
from MachSysS.convert_feems_result_to_proto import FEEMSResultConverter

EFF = np.array([[0.0, 0.25, 0.5, 0.75, 1.0], [0.88, 0.92, 0.95, 0.96, 0.965]]).T
BSFC = np.array([[0.0, 0.25, 0.5, 0.75, 1.0], [260.0, 220.0, 200.0, 195.0, 198.0]]).T
eng = Engine(type_=TypeComponent.AUXILIARY_ENGINE, name="G1 eng", rated_power=1000 / 0.965,
             rated_speed=900, bsfc_curve=BSFC)
gen = ElectricMachine(type_=TypeComponent.GENERATOR, name="G1 gen", rated_power=1000.0,
                      rated_speed=900, power_type=TypePower.POWER_SOURCE, switchboard_id=1,
                      eff_curve=EFF)
consumer = ElectricComponent(type_=TypeComponent.OTHER_LOAD, name="L1", rated_power=2000.0,
                             eff_curve=np.array([100.0]), power_type=TypePower.POWER_CONSUMER,
                             switchboard_id=1)
system = ElectricPowerSystem("plant", [Genset("G1", eng, gen), consumer], [])


def calculate(load_kw, time_interval_s, method):
    n = len(load_kw)
    system.set_time_interval(time_interval_s, method)
    consumer.power_input = np.asarray(load_kw, dtype=float)
    for source in system.power_sources:
        source.status = np.ones(n).astype(bool)
        source.load_sharing_mode = np.zeros(n)
    system.do_power_balance_calculation()
    return system.get_fuel_energy_consumption_running_time()


violated = False
first = calculate([300.0, 400.0, 500.0, 600.0], 60.0, IntegrationMethod.simpson)
converter = FEEMSResultConverter(first, system)
converter.get_feems_result_proto(include_time_series_for_components=True)

# a new calculation of the same length, per-interval time base, exported without series
second = calculate([900.0, 800.0, 700.0, 100.0], np.array([10.0, 20.0, 30.0, 40.0]),
                   IntegrationMethod.sum_with_time)
converter.feems_result = second
converter.get_feems_result_proto(include_time_series_for_components=False)
table = converter.get_timeseries_for_power_sources_and_energy_storage()
now = system.power_sources[0].power_output
print("time axis of the table          :", table.index.tolist())
print("G1 power in the table           :", table["G1-power_output_kw"].round(2).tolist())
print("G1 power of the exported result :", np.round(now, 2).tolist())
if not np.allclose(table["G1-power_output_kw"].to_numpy(), now):
    print("-> the table shows the series of the EARLIER calculation on the new time axis")
    violated = True

# a new calculation of another length
third = calculate([900.0, 800.0], 60.0, IntegrationMethod.simpson)
converter.feems_result = third
converter.get_feems_result_proto(include_time_series_for_components=False)
try:
    table = converter.get_timeseries_for_power_sources_and_energy_storage()
    if not np.allclose(table["G1-power_output_kw"].to_numpy(), system.power_sources[0].power_output):
        violated = True
except ValueError as error:
    print("two-sample calculation: the table cannot be made:", error)
    violated = True
print("VIOLATED" if violated else "holds")
sys.exit(1 if violated else 0)
