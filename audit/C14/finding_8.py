"""C14 finding 1: a FEEMSResultConverter that is used for a second result of the same plant exports
the totals and records of the NEW result together with the component series of the OLD one.

Run: PYTHONPATH=<worktree>/feems:<worktree>/machinery-system-structure:<worktree>/RunFEEMSSim python finding_1.py
Exit status 1 = property violated, 0 = property holds.
"""
import logging
import sys

import numpy as np

logging.disable(logging.CRITICAL)

from feems.components_model.component_electric import ElectricComponent, ElectricMachine, Genset
from feems.components_model.component_mechanical import Engine
from feems.components_model.utility import IntegrationMethod
from feems.system_model import ElectricPowerSystem
from feems.types_for_feems import TypeComponent, TypePower
from MachSysS.convert_feems_result_to_proto import FEEMSResultConverter

BSFC = np.array([[0.25, 230.0], [0.5, 210.0], [0.75, 200.0], [1.0, 205.0]])
EFF = np.array([[0.25, 0.90], [0.5, 0.93], [0.75, 0.95], [1.0, 0.96]])


def genset(name):
    engine = Engine(
        type_=TypeComponent.AUXILIARY_ENGINE, name=name + " engine", rated_power=1000.0,
        rated_speed=900.0, bsfc_curve=BSFC,
    )
    generator = ElectricMachine(
        type_=TypeComponent.GENERATOR, name=name + " generator", rated_power=950.0,
        rated_speed=900.0, power_type=TypePower.POWER_SOURCE, switchboard_id=1, eff_curve=EFF,
    )
    return Genset(name, engine, generator)


n = 4
dt = np.array([60.0, 60.0, 120.0, 120.0])
g1, g2 = genset("G1"), genset("G2")
load = ElectricComponent(
    TypeComponent.OTHER_LOAD, "hotel", 2000.0, EFF, TypePower.POWER_CONSUMER, switchboard_id=1
)
plant = ElectricPowerSystem("plant", [g1, g2, load], [])
plant.set_time_interval(dt, IntegrationMethod.sum_with_time)
for g in (g1, g2):
    g.status = np.ones(n, dtype=bool)


def calculate(load_kw):
    load.set_power_input_from_output(np.asarray(load_kw, dtype=float))
    plant.do_power_balance_calculation()
    return plant.get_fuel_energy_consumption_running_time()


# first operating profile, exported with series
result_1 = calculate([400.0, 500.0, 600.0, 700.0])
converter = FEEMSResultConverter(feems_result=result_1, system_feems=plant)
converter.get_feems_result_proto(include_time_series_for_components=True)

# second operating profile on the same plant, exported through the same converter
result_2 = calculate([1200.0, 1300.0, 1400.0, 1500.0])
converter.feems_result = result_2
message = converter.get_feems_result_proto(include_time_series_for_components=True).electric_system

violations = []
# the scalar figures are those of the second result ...
assert np.isclose(
    message.multi_fuel_consumption_total_kg.fuels[0].mass_or_mass_fraction,
    result_2.multi_fuel_consumption_total_kg.fuels[0].mass_or_mass_fraction,
)
# ... and so must the series be: the power series of the component, and a fuel-rate series whose
# integral over the time base is the fuel mass of the same record
for record, component in zip(message.detailed_result, (g1, g2)):
    series = record.result_time_series
    exported_power = np.array(series.power_output_kw)
    if not np.allclose(exported_power, component.power_output, rtol=1e-12):
        violations.append(
            f"{record.component_name}: exported power series {exported_power.round(1).tolist()} kW, "
            f"the result was made from {np.round(component.power_output, 1).tolist()} kW"
        )
    fuel_record = record.multi_fuel_consumption_kg.fuels[0].mass_or_mass_fraction
    fuel_series = float(np.dot(series.fuel_consumption_kg_per_s.fuels[0].mass_or_mass_fraction, dt))
    if not np.isclose(fuel_record, fuel_series, rtol=1e-9):
        violations.append(
            f"{record.component_name}: fuel mass of the record {fuel_record:.3f} kg, integral of "
            f"its exported fuel-rate series {fuel_series:.3f} kg"
        )

if violations:
    print("PROPERTY VIOLATED: the export of the second result carries the series of the first")
    for v in violations:
        print("  -", v)
    sys.exit(1)
print("property holds: the series belong to the exported result")
sys.exit(0)
