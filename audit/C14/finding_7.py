"""C14 finding 3: result made from power outputs that were set directly (the documented
alternative to the power balance: "Power output ... should have set manually or by power balance
calculation"), with the first generating set left idle at its single value 0.

The result functions cope with this on purpose (get_number_of_steps: "the component listed
last may be an idle one that keeps a single value"): duration 40 s, fuel of genset 2 over 4
samples.  The exporter takes the number of instants from the FIRST unit's series only, so the
record of genset 2 carries 4 power / fuel-rate samples next to time=[0.0].
Listing the idle unit second instead gives 4 instants for its single sample.
"""
import logging
import sys

import numpy as np

logging.disable(logging.CRITICAL)

from feems.components_model.component_electric import ElectricComponent, ElectricMachine, Genset
from feems.components_model.component_mechanical import Engine
from feems.components_model.utility import IntegrationMethod
from feems.system_model import ElectricPowerSystem
from feems.types_for_feems import TypeComponent, TypePower
from MachSysS.convert_feems_result_to_proto import FEEMSResultConverter

BSFC = np.array([[0.25, 220.0], [0.5, 200.0], [0.75, 190.0], [1.0, 195.0]])
EFF = np.array([[0.25, 0.93], [0.5, 0.95], [0.75, 0.96], [1.0, 0.958]])
N = 4
DT = 10.0


def genset(name):
    engine = Engine(type_=TypeComponent.AUXILIARY_ENGINE, name="engine " + name,
                    rated_power=1000.0, rated_speed=900.0, bsfc_curve=BSFC)
    generator = ElectricMachine(type_=TypeComponent.GENERATOR, name="generator " + name,
                                rated_power=950.0, rated_speed=900.0,
                                power_type=TypePower.POWER_SOURCE, switchboard_id=1,
                                eff_curve=EFF)
    return Genset(name, engine, generator)


def run(idle_first: bool):
    idle, running = genset("idle genset"), genset("running genset")
    load = ElectricComponent(type_=TypeComponent.OTHER_LOAD, name="load", rated_power=1000.0,
                             eff_curve=np.array([1.0]), power_type=TypePower.POWER_CONSUMER,
                             switchboard_id=1)
    units = [idle, running] if idle_first else [running, idle]
    system = ElectricPowerSystem("plant", units + [load], [])
    series = np.linspace(100.0, 400.0, N)
    load.power_input = series
    running.power_output = series          # set directly, no power balance
    system.set_time_interval(DT, IntegrationMethod.simpson)
    result = system.get_fuel_energy_consumption_running_time()
    exported = FEEMSResultConverter(result, system).get_feems_result_proto(
        include_time_series_for_components=True
    )
    print(f"  result: duration {result.duration_s} s, fuel {result.fuel_consumption_total_kg:.4f} kg;"
          f" export: duration {exported.electric_system.duration_s} s")
    problems = []
    for record in exported.electric_system.detailed_result:
        ts = record.result_time_series
        time, power = list(ts.time), list(ts.power_output_kw)
        fuel_lengths = [len(f.mass_or_mass_fraction) for f in ts.fuel_consumption_kg_per_s.fuels]
        print(f"  '{record.component_name}': time={time} power_output_kw={power} "
              f"fuel-rate lengths={fuel_lengths}")
        if len(time) != len(power) or any(n != len(time) for n in fuel_lengths):
            problems.append(f"{record.component_name}: {len(time)} instant(s) for {len(power)} "
                            f"power and {fuel_lengths} fuel-rate sample(s)")
    return problems


violations = []
print("idle unit listed first:")
violations += run(idle_first=True)
print("idle unit listed second:")
violations += run(idle_first=False)
if violations:
    print("PROPERTY VIOLATED (series not on the time base they are exported with):")
    for v in violations:
        print("  -", v)
    sys.exit(1)
print("property holds")
sys.exit(0)
