"""C14 finding 4: scalar time base, conventional plant, shaft load and engine status given as
single values (a constant) next to a four-sample electric series. The calculation is accepted.
With a PER-INTERVAL time base the converter writes the constant out over the four intervals
(_on_time_base), with a SCALAR time base of the same four steps it does not: _time_array_for_series
sizes the time axis by the series itself, so the main engines' records carry ONE sample at t=0
while the electric records of the same export carry four, and the series table cannot be made
(ValueError)."""
import sys, logging
import numpy as np
logging.disable(logging.CRITICAL)
from feems.components_model.component_electric import ElectricComponent, ElectricMachine, Genset
from feems.components_model.component_mechanical import (
    Engine, MainEngineForMechanicalPropulsion, MechanicalPropulsionComponent)
from feems.components_model.utility import IntegrationMethod
from feems.fuel import TypeFuel
from feems.system_model import (ElectricPowerSystem, MechanicalPropulsionSystem,
                                MechanicalPropulsionSystemWithElectricPowerSystem)
from feems.types_for_feems import TypeComponent, TypePower
from MachSysS.convert_feems_result_to_proto import FEEMSResultConverter

EFF = np.array([[0.0, 0.25, 0.5, 0.75, 1.0], [0.88, 0.92, 0.95, 0.96, 0.965]]).T
BSFC = np.array([[0.0, 0.25, 0.5, 0.75, 1.0], [260.0, 220.0, 200.0, 195.0, 198.0]]).T
n = 4


def export(time_interval_s, method):
    eng = Engine(type_=TypeComponent.AUXILIARY_ENGINE, name="G1 eng", rated_power=1000 / 0.965,
                 rated_speed=900, bsfc_curve=BSFC)
    gen = ElectricMachine(type_=TypeComponent.GENERATOR, name="G1 gen", rated_power=1000.0,
                          rated_speed=900, power_type=TypePower.POWER_SOURCE, switchboard_id=1,
                          eff_curve=EFF)
    consumer = ElectricComponent(type_=TypeComponent.OTHER_LOAD, name="L1", rated_power=2000.0,
                                 eff_curve=np.array([100.0]), power_type=TypePower.POWER_CONSUMER,
                                 switchboard_id=1)
    electric = ElectricPowerSystem("electric", [Genset("G1", eng, gen), consumer], [])
    main_engine = MainEngineForMechanicalPropulsion(
        name="ME1", shaft_line_id=1,
        engine=Engine(type_=TypeComponent.MAIN_ENGINE, name="ME1", rated_power=3000.0,
                      rated_speed=600, bsfc_curve=BSFC, fuel_type=TypeFuel.HFO))
    propeller = MechanicalPropulsionComponent(
        name="P1", type_=TypeComponent.PROPELLER_LOAD, power_type=TypePower.POWER_CONSUMER,
        eff_curve=np.array([100.0]), rated_power=5000.0, rated_speed=150, shaft_line_id=1)
    mechanical = MechanicalPropulsionSystem("mechanical", [main_engine, propeller])
    plant = MechanicalPropulsionSystemWithElectricPowerSystem("plant", electric, mechanical)
    consumer.power_input = np.linspace(300.0, 600.0, n)
    for source in electric.power_sources:
        source.status = np.ones(n).astype(bool)
        source.load_sharing_mode = np.zeros(n)
    # the shaft side runs at a constant 2000 kW
    mechanical.set_power_consumer_load_by_value_for_given_name_shaft_line_id("P1", 1, np.array([2000.0]))
    main_engine.status = np.ones(1).astype(bool)
    plant.set_time_interval(time_interval_s, method)
    plant.do_power_balance_calculation()
    result = plant.get_fuel_energy_consumption_running_time(
        time_interval_s=time_interval_s, integration_method=method)
    converter = FEEMSResultConverter(result, plant)
    message = converter.get_feems_result_proto(include_time_series_for_components=True)
    try:
        table = converter.get_timeseries_for_power_sources_and_energy_storage()
        table_state = f"table of shape {table.shape}"
    except ValueError as error:
        table_state = f"table cannot be made: {error}"
    return message, table_state


violated = False
for label, ti, method in [("per-interval 4 x 60 s", np.full(n, 60.0), IntegrationMethod.sum_with_time),
                          ("scalar 60 s, simpson", 60.0, IntegrationMethod.simpson)]:
    message, table_state = export(ti, method)
    genset_series = message.electric_system.detailed_result[0].result_time_series
    engine_series = message.mechanical_system.detailed_result[0].result_time_series
    print(f"{label}: G1 {len(genset_series.power_output_kw)} samples, ME1 "
          f"{len(engine_series.power_output_kw)} samples at t={list(engine_series.time)}, "
          f"fuel-rate samples {[len(f.mass_or_mass_fraction) for f in engine_series.fuel_consumption_kg_per_s.fuels]}; {table_state}")
    if len(engine_series.power_output_kw) != len(genset_series.power_output_kw) or "cannot" in table_state:
        violated = True
print("VIOLATED" if violated else "holds")
sys.exit(1 if violated else 0)
