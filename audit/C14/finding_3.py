"""C14 finding 3: with a per-interval time base the exported time axis is shifted by one sample.
Sample i of a series holds for interval i, i.e. it starts at sum(interval[:i]); the export stamps it
with cumsum(interval)[i], the END of that interval. Consequences checked here:
  (a) the spacing of the exported time stamps is interval[1:], not interval[:-1];
  (b) equal intervals given as an array give another time axis than the same interval as a scalar;
  (c) the same run exported with and without the optional time_series_input gives two time axes
      that differ by more than a constant offset.

Run:  PYTHONPATH=<wt>/feems:<wt>/machinery-system-structure:<wt>/RunFEEMSSim python finding_3.py
Exit status 1 = property violated, 0 = property holds.
"""
import logging
import sys

import numpy as np

logging.disable(logging.CRITICAL)

from feems.components_model.component_electric import ElectricComponent, ElectricMachine, Genset
from feems.components_model.component_mechanical import Engine
from feems.components_model.utility import IntegrationMethod
from feems.system_model import ElectricPowerSystem
from feems.types_for_feems import TypeComponent, TypePower
from MachSysS.convert_feems_result_to_proto import FEEMSResultConverter
from MachSysS.gymir_result_pb2 import PropulsionPowerInstance, TimeSeriesResult

BSFC = np.array([[0.25, 230.0], [0.5, 205.0], [0.75, 195.0], [1.0, 200.0]])
EFF = np.array([[0.25, 0.93], [0.5, 0.95], [0.75, 0.96], [1.0, 0.958]])
LOAD = np.array([300.0, 400.0, 500.0, 200.0, 100.0])
n = len(LOAD)


def run(time_interval_s, integration_method, time_series_input=None):
    genset = Genset(
        "genset",
        Engine(type_=TypeComponent.AUXILIARY_ENGINE, name="aux engine", rated_power=1050,
               rated_speed=750, bsfc_curve=BSFC),
        ElectricMachine(type_=TypeComponent.GENERATOR, name="generator", rated_power=1000,
                        rated_speed=750, power_type=TypePower.POWER_SOURCE, switchboard_id=1,
                        eff_curve=EFF),
    )
    hotel = ElectricComponent(type_=TypeComponent.OTHER_LOAD, name="hotel load",
                              power_type=TypePower.POWER_CONSUMER, rated_power=800,
                              eff_curve=np.array([1.0]), switchboard_id=1)
    system = ElectricPowerSystem("plant", [genset, hotel], [])
    genset.status = np.ones(n, dtype=bool)
    genset.load_sharing_mode = np.zeros(n)
    hotel.set_power_input_from_output(LOAD)
    system.set_time_interval(time_interval_s, integration_method)
    system.do_power_balance_calculation()
    result = system.get_fuel_energy_consumption_running_time()
    export = FEEMSResultConverter(
        feems_result=result, system_feems=system, time_series_input=time_series_input
    ).get_feems_result_proto(include_time_series_for_components=True)
    record = export.electric_system.detailed_result[0]
    assert len(record.result_time_series.power_output_kw) == n
    return np.array(record.result_time_series.time), result


violations = []

# (a) per-interval time base: the samples are interval[i] apart
intervals = np.array([60.0, 120.0, 30.0, 60.0, 90.0])
time_a, result_a = run(intervals, IntegrationMethod.sum_with_time)
expected = np.concatenate([[0.0], np.cumsum(intervals)[:-1]])  # start of every interval
print("(a) intervals            ", intervals.tolist())
print("    exported time stamps ", time_a.tolist())
print("    start of the samples ", expected.tolist(), " duration of the result", result_a.duration_s)
if not np.allclose(np.diff(time_a), intervals[:-1]):
    violations.append(
        f"(a) sample i lasts interval[i], so consecutive samples are {intervals[:-1].tolist()} s apart; "
        f"the exported stamps are {np.diff(time_a).tolist()} s apart"
    )

# (b) the same run with equal intervals, once as a scalar and once as an array
time_scalar, _ = run(60.0, IntegrationMethod.trapezoid)
time_array, _ = run(np.full(n, 60.0), IntegrationMethod.sum_with_time)
print("(b) scalar 60 s          ", time_scalar.tolist())
print("    array of five 60 s   ", time_array.tolist())
if not np.allclose(time_scalar, time_array):
    violations.append(
        f"(b) 60 s as a scalar gives the time axis {time_scalar.tolist()}, "
        f"as an array {time_array.tolist()}"
    )

# (c) with and without the time series the intervals were taken from (RunFEEMSSim convention:
#     n+1 epochs, interval = difference, the power of the first n epochs is used)
epochs = 1000.0 + np.concatenate([[0.0], np.cumsum(intervals)])
time_series_input = TimeSeriesResult(
    propulsion_power_timeseries=[
        PropulsionPowerInstance(epoch_s=t, propulsion_power_kw=0.0, auxiliary_power_kw=p)
        for t, p in zip(epochs, np.append(LOAD, 0.0))
    ]
)
time_with_input, _ = run(intervals, IntegrationMethod.sum_with_time, time_series_input)
offset = time_with_input - time_a
print("(c) with time_series_input", time_with_input.tolist())
print("    without               ", time_a.tolist())
print("    difference            ", offset.tolist())
if not np.allclose(offset, offset[0]):
    violations.append(
        "(c) the time axes exported with and without time_series_input differ by "
        f"{offset.tolist()} s - not a constant shift of the origin"
    )

if violations:
    print("\nPROPERTY VIOLATED:")
    for v in violations:
        print("  -", v)
    sys.exit(1)
print("property holds")
sys.exit(0)
