"""C14 finding 2: conventional plant (MechanicalPropulsionSystemWithElectricPowerSystem) with a
constant hotel load given as a single value and a propeller load series of 4 samples.

do_power_balance_calculation() of the plant accepts this on purpose (series of the two
sub-systems must be equally long unless one of them is a single value).  The exporter takes the
length of the time axis from the FIRST electrical unit only, so the main engine's record carries
power_output_kw and a fuel-rate series of 4 samples next to time=[0.0].  With the roles swapped
(electric series, shaft load constant) the main engine gets 4 instants for 1 sample.
"""
import logging
import sys

import numpy as np

logging.disable(logging.CRITICAL)

from feems.components_model.component_electric import ElectricComponent, ElectricMachine, Genset
from feems.components_model.component_mechanical import (
    Engine,
    MainEngineForMechanicalPropulsion,
    MechanicalPropulsionComponent,
)
from feems.components_model.utility import IntegrationMethod
from feems.system_model import (
    ElectricPowerSystem,
    MechanicalPropulsionSystem,
    MechanicalPropulsionSystemWithElectricPowerSystem,
)
from feems.types_for_feems import TypeComponent, TypePower
from MachSysS.convert_feems_result_to_proto import FEEMSResultConverter

BSFC = np.array([[0.25, 220.0], [0.5, 200.0], [0.75, 190.0], [1.0, 195.0]])
EFF = np.array([[0.25, 0.93], [0.5, 0.95], [0.75, 0.96], [1.0, 0.958]])
N = 4
DT = 10.0


def build():
    aux = Engine(type_=TypeComponent.AUXILIARY_ENGINE, name="aux engine", rated_power=1000.0,
                 rated_speed=900.0, bsfc_curve=BSFC)
    gen = ElectricMachine(type_=TypeComponent.GENERATOR, name="generator", rated_power=950.0,
                          rated_speed=900.0, power_type=TypePower.POWER_SOURCE,
                          switchboard_id=1, eff_curve=EFF)
    genset = Genset("genset", aux, gen)
    hotel = ElectricComponent(type_=TypeComponent.OTHER_LOAD, name="hotel load",
                              rated_power=1000.0, eff_curve=np.array([1.0]),
                              power_type=TypePower.POWER_CONSUMER, switchboard_id=1)
    electric = ElectricPowerSystem("electric", [genset, hotel], [])
    me = MainEngineForMechanicalPropulsion(
        "main engine",
        Engine(type_=TypeComponent.MAIN_ENGINE, name="me", rated_power=2000.0, rated_speed=700.0,
               bsfc_curve=BSFC),
        shaft_line_id=1,
    )
    propeller = MechanicalPropulsionComponent(TypeComponent.PROPELLER_LOAD,
                                              TypePower.POWER_CONSUMER, "propeller", 3000.0,
                                              np.array([1.0]), shaft_line_id=1)
    mechanical = MechanicalPropulsionSystem("mechanical", [me, propeller])
    plant = MechanicalPropulsionSystemWithElectricPowerSystem("plant", electric, mechanical)
    return plant, genset, hotel, me, propeller


def run(electric_constant: bool):
    plant, genset, hotel, me, propeller = build()
    if electric_constant:
        hotel.power_input = np.array([300.0])
        genset.status = np.ones(1, dtype=bool)
        propeller.power_input = np.linspace(500.0, 1500.0, N)
        me.status = np.ones(N, dtype=bool)
    else:
        hotel.power_input = np.linspace(100.0, 400.0, N)
        genset.status = np.ones(N, dtype=bool)
        propeller.power_input = np.array([900.0])
        me.status = np.ones(1, dtype=bool)
    plant.set_time_interval(DT, IntegrationMethod.simpson)
    plant.do_power_balance_calculation()   # accepted: one of the two is a single value
    result = plant.get_fuel_energy_consumption_running_time(
        DT, integration_method=IntegrationMethod.simpson
    )
    exported = FEEMSResultConverter(result, plant).get_feems_result_proto(
        include_time_series_for_components=True
    )
    problems = []
    for sub_name, sub, component in (
        ("electric", exported.electric_system, genset),
        ("mechanical", exported.mechanical_system, me),
    ):
        record = next(r for r in sub.detailed_result if r.component_name == component.name)
        series = record.result_time_series
        time, power = list(series.time), list(series.power_output_kw)
        fuel_lengths = [len(f.mass_or_mass_fraction) for f in series.fuel_consumption_kg_per_s.fuels]
        print(f"  {sub_name:10s} '{record.component_name}': input series of "
              f"{np.size(component.power_output)} sample(s) -> time={time} "
              f"power_output_kw={[round(p, 1) for p in power]} fuel-rate lengths={fuel_lengths}")
        if len(time) != len(power) or any(n != len(time) for n in fuel_lengths):
            problems.append(
                f"{record.component_name}: {len(time)} instant(s) for {len(power)} power and "
                f"{fuel_lengths} fuel-rate sample(s)"
            )
    return problems


violations = []
print("constant hotel load (single value), propeller load series of 4:")
violations += run(electric_constant=True)
print("hotel load series of 4, constant propeller load (single value):")
violations += run(electric_constant=False)
if violations:
    print("PROPERTY VIOLATED (series not on the time base they are exported with):")
    for v in violations:
        print("  -", v)
    sys.exit(1)
print("property holds")
sys.exit(0)
