"""C14 finding 5 (alternative public entry point of the same converter): the table view of the
exported per-component series, FEEMSResultConverter.get_timeseries_for_power_sources_and_energy_storage(),
fails for every plant that has at least one component (len() of a protobuf message), so the series
carried by the export cannot be read back through it.

Run:  PYTHONPATH=<wt>/feems:<wt>/machinery-system-structure:<wt>/RunFEEMSSim python finding_5.py
Exit status 1 = property violated, 0 = property holds.
"""
import logging
import sys

import numpy as np

logging.disable(logging.CRITICAL)

from feems.components_model.component_electric import ElectricComponent, ElectricMachine, Genset
from feems.components_model.component_mechanical import Engine
from feems.components_model.utility import IntegrationMethod
from feems.system_model import ElectricPowerSystem
from feems.types_for_feems import TypeComponent, TypePower
from MachSysS.convert_feems_result_to_proto import FEEMSResultConverter

BSFC = np.array([[0.25, 230.0], [0.5, 205.0], [0.75, 195.0], [1.0, 200.0]])
EFF = np.array([[0.25, 0.93], [0.5, 0.95], [0.75, 0.96], [1.0, 0.958]])
n = 5

genset = Genset(
    "genset",
    Engine(type_=TypeComponent.AUXILIARY_ENGINE, name="aux engine", rated_power=1050,
           rated_speed=750, bsfc_curve=BSFC),
    ElectricMachine(type_=TypeComponent.GENERATOR, name="generator", rated_power=1000,
                    rated_speed=750, power_type=TypePower.POWER_SOURCE, switchboard_id=1,
                    eff_curve=EFF),
)
hotel = ElectricComponent(type_=TypeComponent.OTHER_LOAD, name="hotel load",
                          power_type=TypePower.POWER_CONSUMER, rated_power=800,
                          eff_curve=np.array([1.0]), switchboard_id=1)
system = ElectricPowerSystem("plant", [genset, hotel], [])
genset.status = np.ones(n, dtype=bool)
genset.load_sharing_mode = np.zeros(n)
hotel.set_power_input_from_output(np.array([300.0, 400.0, 500.0, 200.0, 100.0]))
system.set_time_interval(60.0, IntegrationMethod.simpson)
system.do_power_balance_calculation()
result = system.get_fuel_energy_consumption_running_time()

converter = FEEMSResultConverter(feems_result=result, system_feems=system)
export = converter.get_feems_result_proto(include_time_series_for_components=True)
series = export.electric_system.detailed_result[0].result_time_series
print("export: power series", [round(v, 1) for v in series.power_output_kw])

violations = []
try:
    table = converter.get_timeseries_for_power_sources_and_energy_storage()
except Exception as error:  # noqa: BLE001
    print(f"table view of the same series: refused with {error!r}")
    violations.append(f"get_timeseries_for_power_sources_and_energy_storage() raises {error!r}")
else:
    print(table)
    if not np.allclose(table["genset-power_output_kw"].values, series.power_output_kw):
        violations.append("the table does not hold the exported power series")
    if not np.allclose(table.index.values, series.time):
        violations.append("the table is not on the exported time axis")

if violations:
    print("\nPROPERTY VIOLATED:")
    for v in violations:
        print("  -", v)
    sys.exit(1)
print("property holds")
sys.exit(0)
