"""C14 finding 2: the fuel-rate series of the main engines lose the heating value (lhv_mj_per_g is
exported as 0, also in a plain IMO run) and are always tagged FuelSpecifiedBy.IMO, also when the
result was computed with the FuelEU Maritime table.

Run:  PYTHONPATH=<wt>/feems:<wt>/machinery-system-structure:<wt>/RunFEEMSSim python finding_2.py
Exit status 1 = property violated, 0 = property holds.
"""
import logging
import sys

import numpy as np

logging.disable(logging.CRITICAL)

from feems.components_model.component_electric import ElectricComponent, ElectricMachine, Genset
from feems.components_model.component_mechanical import (
    Engine,
    MainEngineForMechanicalPropulsion,
    MechanicalPropulsionComponent,
)
from feems.components_model.utility import IntegrationMethod
from feems.fuel import FuelSpecifiedBy, TypeFuel
from feems.system_model import (
    ElectricPowerSystem,
    MechanicalPropulsionSystem,
    MechanicalPropulsionSystemWithElectricPowerSystem,
)
from feems.types_for_feems import TypeComponent, TypePower
from MachSysS.convert_feems_result_to_proto import FEEMSResultConverter

BSFC = np.array([[0.25, 230.0], [0.5, 205.0], [0.75, 195.0], [1.0, 200.0]])
EFF = np.array([[0.25, 0.93], [0.5, 0.95], [0.75, 0.96], [1.0, 0.958]])
n = 5


def build_and_run(fuel_specified_by):
    genset = Genset(
        "genset",
        Engine(type_=TypeComponent.AUXILIARY_ENGINE, name="aux engine", rated_power=1050,
               rated_speed=750, bsfc_curve=BSFC, fuel_type=TypeFuel.DIESEL),
        ElectricMachine(type_=TypeComponent.GENERATOR, name="generator", rated_power=1000,
                        rated_speed=750, power_type=TypePower.POWER_SOURCE, switchboard_id=1,
                        eff_curve=EFF),
    )
    hotel = ElectricComponent(type_=TypeComponent.OTHER_LOAD, name="hotel load",
                              power_type=TypePower.POWER_CONSUMER, rated_power=800,
                              eff_curve=np.array([1.0]), switchboard_id=1)
    electric = ElectricPowerSystem("electric", [genset, hotel], [])
    main_engine = MainEngineForMechanicalPropulsion(
        "main engine",
        Engine(type_=TypeComponent.MAIN_ENGINE, name="engine", rated_power=3000, rated_speed=500,
               bsfc_curve=BSFC, fuel_type=TypeFuel.NATURAL_GAS),
        shaft_line_id=1,
    )
    propeller = MechanicalPropulsionComponent(
        TypeComponent.PROPELLER_LOAD, TypePower.POWER_CONSUMER, "propeller", rated_power=3000,
        eff_curve=np.array([1.0]), shaft_line_id=1,
    )
    mechanical = MechanicalPropulsionSystem("mechanical", [main_engine, propeller])
    plant = MechanicalPropulsionSystemWithElectricPowerSystem("plant", electric, mechanical)

    genset.status = np.ones(n, dtype=bool)
    genset.load_sharing_mode = np.zeros(n)
    hotel.set_power_input_from_output(np.array([300.0, 400.0, 500.0, 200.0, 100.0]))
    main_engine.status = np.ones(n, dtype=bool)
    propeller.set_power_input_from_output(np.array([1500.0, 2000.0, 2500.0, 1000.0, 600.0]))
    electric.set_time_interval(60.0, IntegrationMethod.simpson)
    mechanical.set_time_interval(60.0, IntegrationMethod.simpson)
    plant.do_power_balance_calculation()
    result = plant.get_fuel_energy_consumption_running_time(
        time_interval_s=60.0, integration_method=IntegrationMethod.simpson,
        fuel_specified_by=fuel_specified_by,
    )
    export = FEEMSResultConverter(
        feems_result=result, system_feems=plant, fuel_specified_by=fuel_specified_by
    ).get_feems_result_proto(include_time_series_for_components=True)
    return result, export


violations = []
for fuel_specified_by in (FuelSpecifiedBy.IMO, FuelSpecifiedBy.FUEL_EU_MARITIME):
    result, export = build_and_run(fuel_specified_by)
    for subsystem, res, proto_res in (
        ("electric", result.electric_system, export.electric_system),
        ("mechanical", result.mechanical_system, export.mechanical_system),
    ):
        for record in proto_res.detailed_result:
            if not record.HasField("result_time_series"):
                continue
            row = res.detail_result.loc[record.component_name]
            for fuel_series, fuel in zip(
                record.result_time_series.fuel_consumption_kg_per_s.fuels,
                row["multi fuel consumption [kg]"].fuels,
            ):
                print(
                    f"run with {fuel_specified_by.name:16s} {subsystem:10s} {record.component_name:11s} "
                    f"series: specified_by={fuel_series.fuel_specified_by} lhv={fuel_series.lhv_mj_per_g}   "
                    f"result: specified_by={fuel.fuel_specified_by.value} lhv={fuel.lhv_mj_per_g}"
                )
                if fuel_series.lhv_mj_per_g != fuel.lhv_mj_per_g:
                    violations.append(
                        f"{fuel_specified_by.name}: {record.component_name}: heating value of the fuel "
                        f"series is {fuel_series.lhv_mj_per_g}, of the result {fuel.lhv_mj_per_g}"
                    )
                if fuel_series.fuel_specified_by != fuel.fuel_specified_by.value:
                    violations.append(
                        f"{fuel_specified_by.name}: {record.component_name}: the fuel series is tagged "
                        f"fuel_specified_by={fuel_series.fuel_specified_by}, the result "
                        f"{fuel.fuel_specified_by.value} ({fuel.fuel_specified_by.name})"
                    )

if violations:
    print("\nPROPERTY VIOLATED:")
    for v in violations:
        print("  -", v)
    sys.exit(1)
print("property holds")
sys.exit(0)
