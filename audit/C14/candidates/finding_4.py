"""C14 finding 4: a plant whose electric system has no power source (battery-electric vessel, or
a hybrid plant whose switchboard is fed by the PTO and a battery only) cannot be exported with
per-component series: the length of the time axis is read from power_sources[0] -> IndexError.
FEEMS balances these plants and computes their result; the export without series works.

Run:  PYTHONPATH=<wt>/feems:<wt>/machinery-system-structure:<wt>/RunFEEMSSim python finding_4.py
Exit status 1 = property violated, 0 = property holds.
"""
import logging
import sys

import numpy as np

logging.disable(logging.CRITICAL)

from feems.components_model.component_electric import (
    Battery,
    BatterySystem,
    ElectricComponent,
    ElectricMachine,
    PTIPTO,
)
from feems.components_model.component_mechanical import (
    Engine,
    MainEngineForMechanicalPropulsion,
    MechanicalPropulsionComponent,
)
from feems.components_model.utility import IntegrationMethod
from feems.system_model import (
    ElectricPowerSystem,
    HybridPropulsionSystem,
    MechanicalPropulsionSystem,
)
from feems.types_for_feems import TypeComponent, TypePower
from MachSysS.convert_feems_result_to_proto import FEEMSResultConverter

BSFC = np.array([[0.25, 230.0], [0.5, 205.0], [0.75, 195.0], [1.0, 200.0]])
EFF = np.array([[0.25, 0.93], [0.5, 0.95], [0.75, 0.96], [1.0, 0.958]])
CONV = np.array([[0.25, 0.96], [0.5, 0.97], [0.75, 0.972], [1.0, 0.98]])
n = 4
LOAD = np.array([100.0, 200.0, 150.0, 0.0])


def battery_system():
    return BatterySystem(
        "battery",
        Battery("cells", 2000, 1, 1, switchboard_id=1),
        ElectricComponent(TypeComponent.POWER_CONVERTER, "converter", 1000, CONV, switchboard_id=1),
        switchboard_id=1,
    )


def hotel_load():
    return ElectricComponent(type_=TypeComponent.OTHER_LOAD, name="hotel load",
                             power_type=TypePower.POWER_CONSUMER, rated_power=300,
                             eff_curve=np.array([1.0]), switchboard_id=1)


def battery_electric_plant():
    battery, hotel = battery_system(), hotel_load()
    system = ElectricPowerSystem("battery-electric", [battery, hotel], [])
    battery.status = np.ones(n, dtype=bool)
    battery.load_sharing_mode = np.zeros(n)
    hotel.set_power_input_from_output(LOAD)
    system.set_time_interval(60.0, IntegrationMethod.simpson)
    system.do_power_balance_calculation()
    return system, system.get_fuel_energy_consumption_running_time()


def hybrid_plant_with_pto_and_battery():
    battery, hotel = battery_system(), hotel_load()
    pti_pto = PTIPTO(
        name="PTI/PTO",
        components=[
            ElectricComponent(type_=TypeComponent.INVERTER, power_type=TypePower.POWER_TRANSMISSION,
                              name="inverter", rated_power=800, eff_curve=CONV),
            ElectricMachine(type_=TypeComponent.SYNCHRONOUS_MACHINE, power_type=TypePower.PTI_PTO,
                            name="shaft machine", rated_power=800, rated_speed=900, eff_curve=EFF),
        ],
        switchboard_id=1, rated_power=800, rated_speed=900, shaft_line_id=1,
    )
    main_engine = MainEngineForMechanicalPropulsion(
        "main engine",
        Engine(type_=TypeComponent.MAIN_ENGINE, name="engine", rated_power=3000, rated_speed=500,
               bsfc_curve=BSFC),
        shaft_line_id=1,
    )
    propeller = MechanicalPropulsionComponent(
        TypeComponent.PROPELLER_LOAD, TypePower.POWER_CONSUMER, "propeller", rated_power=3000,
        eff_curve=np.array([1.0]), shaft_line_id=1,
    )
    electric = ElectricPowerSystem("electric", [battery, hotel, pti_pto], [])
    mechanical = MechanicalPropulsionSystem("mechanical", [main_engine, propeller, pti_pto])
    plant = HybridPropulsionSystem("hybrid", electric, mechanical)
    battery.status = np.ones(n, dtype=bool)
    battery.load_sharing_mode = np.zeros(n)
    hotel.set_power_input_from_output(LOAD)
    pti_pto.status = np.ones(n, dtype=bool)
    pti_pto.load_sharing_mode = np.ones(n)  # given power: PTO feeding the switchboard
    pti_pto.set_power_input_from_output(np.array([-300.0, -200.0, 0.0, -100.0]))
    pti_pto.full_pti_mode = np.zeros(n, dtype=bool)
    main_engine.status = np.ones(n, dtype=bool)
    propeller.set_power_input_from_output(np.array([1500.0, 2000.0, 2500.0, 1000.0]))
    electric.set_time_interval(60.0, IntegrationMethod.simpson)
    mechanical.set_time_interval(60.0, IntegrationMethod.simpson)
    plant.do_power_balance_calculation()
    result = plant.get_fuel_energy_consumption_running_time(
        time_interval_s=60.0, integration_method=IntegrationMethod.simpson
    )
    return plant, result


violations = []
for label, build in (
    ("battery-electric plant", battery_electric_plant),
    ("hybrid plant, switchboard fed by PTO and battery", hybrid_plant_with_pto_and_battery),
):
    plant, result = build()
    result_electric = result if isinstance(plant, ElectricPowerSystem) else result.electric_system
    electric = plant if isinstance(plant, ElectricPowerSystem) else plant.electric_system
    print(f"{label}: result computed, duration {result_electric.duration_s} s, "
          f"energy stored {result_electric.energy_stored_total_mj:.3f} MJ, "
          f"battery power {np.round(electric.energy_storage[0].power_output, 1).tolist()}")
    plain = FEEMSResultConverter(feems_result=result, system_feems=plant).get_feems_result_proto()
    print(f"   export without series: ok, {len(plain.electric_system.detailed_result)} electric record(s)")
    try:
        export = FEEMSResultConverter(
            feems_result=result, system_feems=plant
        ).get_feems_result_proto(include_time_series_for_components=True)
    except Exception as error:  # noqa: BLE001 - any refusal of this valid plant is the finding
        print(f"   export with series: refused with {error!r}")
        violations.append(f"{label}: export with per-component series raises {error!r}")
        continue
    for record in export.electric_system.detailed_result:
        series = record.result_time_series
        if len(series.power_output_kw) != n or len(series.time) != n:
            violations.append(f"{label}: {record.component_name}: series of length "
                              f"{len(series.power_output_kw)} / time {len(series.time)}, input {n}")
    print("   export with series: ok")

if violations:
    print("\nPROPERTY VIOLATED:")
    for v in violations:
        print("  -", v)
    sys.exit(1)
print("property holds")
sys.exit(0)
