"""C14 finding 2: the per-interval time axis of the exported series is worked out once per
converter (functools.cached_property) and kept when the converter is given another calculation -
also when the plant is handed over again through the system_feems setter, which is there to reset
the converter's series.  The series of the second result are stamped with the time base of the
first (and have another length than it when the number of intervals differs).

Run: PYTHONPATH=<worktree>/feems:<worktree>/machinery-system-structure:<worktree>/RunFEEMSSim python finding_2.py
Exit status 1 = property violated, 0 = property holds.
"""
import logging
import sys

import numpy as np

logging.disable(logging.CRITICAL)

from feems.components_model.component_electric import ElectricComponent, ElectricMachine, Genset
from feems.components_model.component_mechanical import Engine
from feems.components_model.utility import IntegrationMethod
from feems.system_model import ElectricPowerSystem
from feems.types_for_feems import TypeComponent, TypePower
from MachSysS.convert_feems_result_to_proto import FEEMSResultConverter

BSFC = np.array([[0.25, 230.0], [0.5, 210.0], [0.75, 200.0], [1.0, 205.0]])
EFF = np.array([[0.25, 0.90], [0.5, 0.93], [0.75, 0.95], [1.0, 0.96]])

engine = Engine(
    type_=TypeComponent.AUXILIARY_ENGINE, name="engine", rated_power=1000.0, rated_speed=900.0,
    bsfc_curve=BSFC,
)
generator = ElectricMachine(
    type_=TypeComponent.GENERATOR, name="generator", rated_power=950.0, rated_speed=900.0,
    power_type=TypePower.POWER_SOURCE, switchboard_id=1, eff_curve=EFF,
)
genset = Genset("G1", engine, generator)
load = ElectricComponent(
    TypeComponent.OTHER_LOAD, "hotel", 2000.0, EFF, TypePower.POWER_CONSUMER, switchboard_id=1
)
plant = ElectricPowerSystem("plant", [genset, load], [])


def calculate(load_kw, time_interval_s):
    load_kw = np.asarray(load_kw, dtype=float)
    load.set_power_input_from_output(load_kw)
    genset.status = np.ones(load_kw.size, dtype=bool)
    plant.set_time_interval(np.asarray(time_interval_s, dtype=float), IntegrationMethod.sum_with_time)
    plant.do_power_balance_calculation()
    return plant.get_fuel_energy_consumption_running_time()


def start_of_intervals(time_interval_s):
    return np.concatenate(([0.0], np.cumsum(time_interval_s)[:-1]))


# a harbour stay in four steps of ten minutes, exported with series
steps_1 = [600.0, 600.0, 600.0, 600.0]
result_1 = calculate([300.0, 320.0, 340.0, 360.0], steps_1)
converter = FEEMSResultConverter(feems_result=result_1, system_feems=plant)
converter.get_feems_result_proto(include_time_series_for_components=True)

violations = []
for steps_2, load_2 in (
    ([10.0, 20.0, 30.0, 40.0], [500.0, 600.0, 700.0, 800.0]),  # same number of intervals
    ([10.0, 20.0, 30.0], [500.0, 600.0, 700.0]),  # another number of intervals
):
    result_2 = calculate(load_2, steps_2)
    converter.feems_result = result_2
    converter.system_feems = plant  # (the setter empties the series the converter holds)
    record = converter.get_feems_result_proto(
        include_time_series_for_components=True
    ).electric_system.detailed_result[0]
    series = record.result_time_series
    # the figures and the power series are those of the second calculation ...
    assert np.isclose(record.running_hours_h, sum(steps_2) / 3600)
    assert np.allclose(series.power_output_kw, genset.power_output)
    # ... and its time base is demanded for the series
    expected = start_of_intervals(steps_2)
    exported = np.array(series.time)
    if exported.size != expected.size or not np.allclose(exported, expected):
        violations.append(
            f"calculation with the intervals {steps_2} s ({len(series.power_output_kw)} power "
            f"values): exported time axis {exported.tolist()}, time base of the input "
            f"{expected.tolist()}"
        )

if violations:
    print("PROPERTY VIOLATED: the series are not on the time base of the result they belong to")
    for v in violations:
        print("  -", v)
    sys.exit(1)
print("property holds: the series are on the time base of the calculation")
sys.exit(0)
