"""C14 finding 1: a plant whose loads are constants (single values) calculated over a per-interval
time base of N intervals is exported with a time axis of N instants but power and fuel-rate
series of ONE sample.

The code base treats a single value as a constant over all the intervals (integrate_data,
running hours, durations all do so): the result below covers 60 s.  The exported record of the
genset, however, carries time=[0, 10, 30] next to power_output_kw=[400] and a fuel-rate series
of one value - the series is neither as long as the time base nor on it.
"""
import logging
import sys

import numpy as np

logging.disable(logging.CRITICAL)

from feems.components_model.component_electric import ElectricComponent, ElectricMachine, Genset
from feems.components_model.component_mechanical import Engine
from feems.components_model.utility import IntegrationMethod
from feems.system_model import ElectricPowerSystem
from feems.types_for_feems import TypeComponent, TypePower
from MachSysS.convert_feems_result_to_proto import FEEMSResultConverter

BSFC = np.array([[0.25, 220.0], [0.5, 200.0], [0.75, 190.0], [1.0, 195.0]])
EFF = np.array([[0.25, 0.93], [0.5, 0.95], [0.75, 0.96], [1.0, 0.958]])

engine = Engine(type_=TypeComponent.AUXILIARY_ENGINE, name="engine", rated_power=1000.0,
                rated_speed=900.0, bsfc_curve=BSFC)
generator = ElectricMachine(type_=TypeComponent.GENERATOR, name="generator", rated_power=950.0,
                            rated_speed=900.0, power_type=TypePower.POWER_SOURCE,
                            switchboard_id=1, eff_curve=EFF)
genset = Genset("genset", engine, generator)
load = ElectricComponent(type_=TypeComponent.OTHER_LOAD, name="hotel load", rated_power=1000.0,
                         eff_curve=np.array([1.0]), power_type=TypePower.POWER_CONSUMER,
                         switchboard_id=1)
system = ElectricPowerSystem("plant", [genset, load], [])

intervals = np.array([10.0, 20.0, 30.0])      # three intervals, 60 s
load.power_input = np.array([400.0])           # a constant, as a single value
genset.status = np.ones(1, dtype=bool)         # always on, as a single value
system.set_time_interval(intervals, IntegrationMethod.sum_with_time)
system.do_power_balance_calculation()
result = system.get_fuel_energy_consumption_running_time()

exported = FEEMSResultConverter(result, system).get_feems_result_proto(
    include_time_series_for_components=True
)
record = exported.electric_system.detailed_result[0]
series = record.result_time_series
time = list(series.time)
power = list(series.power_output_kw)
fuel = [list(f.mass_or_mass_fraction) for f in series.fuel_consumption_kg_per_s.fuels]

print(f"result: duration {result.duration_s} s, genset running hours "
      f"{result.running_hours_genset_total_hr * 3600:.0f} s, "
      f"fuel {result.fuel_consumption_total_kg:.4f} kg  (the constant counted over 3 intervals)")
print(f"export: duration {exported.electric_system.duration_s} s")
print(f"export, record '{record.component_name}': time={time} power_output_kw={power} "
      f"fuel rate series={fuel}")

violations = []
if not (len(time) == len(power) and all(len(f) == len(time) for f in fuel)):
    violations.append(
        f"time axis has {len(time)} instants, power series {len(power)} sample(s), fuel-rate "
        f"series {[len(f) for f in fuel]} sample(s): not of one length / not on one time base"
    )
# Whatever the common length, the series must reproduce the exported total on the time base
if len(time) == len(power) == len(intervals):
    mass = float(np.dot(fuel[0], intervals))
    if not np.isclose(mass, record.multi_fuel_consumption_kg.fuels[0].mass_or_mass_fraction):
        violations.append("fuel-rate series does not integrate to the record's fuel mass")
if violations:
    print("PROPERTY VIOLATED:")
    for v in violations:
        print("  -", v)
    sys.exit(1)
print("property holds")
sys.exit(0)
