"""C14 finding 1: the table of exported series (FEEMSResultConverter.
get_timeseries_for_power_sources_and_energy_storage) names its columns by component name only.
Two gensets called 'G1' on switchboards 1 and 2 (legal: names are unique within one category of
ONE node only; the detail records tell them apart by node number) share one column: the series of
the first is overwritten by that of the second. The same happens to main engines of the same name
on two shaft lines."""
import sys, logging
import numpy as np
logging.disable(logging.CRITICAL)
from feems.components_model.component_electric import ElectricComponent, ElectricMachine, Genset
from feems.components_model.component_mechanical import Engine
from feems.components_model.utility import IntegrationMethod
from feems.system_model import ElectricPowerSystem
from feems.types_for_feems import TypeComponent, TypePower
from MachSysS.convert_feems_result_to_proto import FEEMSResultConverter

EFF = np.array([[0.0, 0.25, 0.5, 0.75, 1.0], [0.88, 0.92, 0.95, 0.96, 0.965]]).T
BSFC = np.array([[0.0, 0.25, 0.5, 0.75, 1.0], [260.0, 220.0, 200.0, 195.0, 198.0]]).T


def genset(name, swb, p):
    eng = Engine(type_=TypeComponent.AUXILIARY_ENGINE, name=name + " eng", rated_power=p / 0.965,
                 rated_speed=900, bsfc_curve=BSFC)
    gen = ElectricMachine(type_=TypeComponent.GENERATOR, name=name + " gen", rated_power=p,
                          rated_speed=900, power_type=TypePower.POWER_SOURCE, switchboard_id=swb,
                          eff_curve=EFF)
    return Genset(name, eng, gen)


def load(name, swb):
    return ElectricComponent(type_=TypeComponent.OTHER_LOAD, name=name, rated_power=2000.0,
                             eff_curve=np.array([100.0]), power_type=TypePower.POWER_CONSUMER,
                             switchboard_id=swb)


n = 4
system = ElectricPowerSystem(
    "plant", [genset("G1", 1, 1000.0), genset("G1", 2, 500.0), load("L1", 1), load("L2", 2)], [(1, 2)]
)
system.set_time_interval(60.0, IntegrationMethod.simpson)
system.set_bus_tie_status_all(np.ones([n, 1]))
for consumer in system.other_load:
    consumer.power_input = np.linspace(300.0, 600.0, n)
for source in system.power_sources:
    source.status = np.ones(n).astype(bool)
    source.load_sharing_mode = np.zeros(n)
system.do_power_balance_calculation()
result = system.get_fuel_energy_consumption_running_time()
converter = FEEMSResultConverter(result, system)
message = converter.get_feems_result_proto(include_time_series_for_components=True)
table = converter.get_timeseries_for_power_sources_and_energy_storage()

violated = False
print("columns of the series table:", list(table.columns))
for record in message.electric_system.detailed_result:
    series = np.array(record.result_time_series.power_output_kw)
    found = any(
        column.endswith("power_output_kw") and np.array_equal(table[column].to_numpy(), series)
        for column in table.columns
    )
    print(f"record {record.component_name} on switchboard {record.switchboard_id}: power series "
          f"{series.round(2).tolist()} -> {'in the table' if found else 'NOT in the table'}")
    violated |= not found
n_records_with_series = sum(r.HasField("result_time_series") for r in message.electric_system.detailed_result)
n_power_columns = sum(c.endswith("power_output_kw") for c in table.columns)
print(f"{n_records_with_series} records carry a series, the table has {n_power_columns} power columns")
violated |= n_records_with_series != n_power_columns
print("VIOLATED" if violated else "holds")
sys.exit(1 if violated else 0)
