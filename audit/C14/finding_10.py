"""C14 finding 3: with a time-series input (time_series_input=...) the length of the exported time
axis is taken from the FIRST unit of the plant alone.  If that unit holds a single value (a stopped
set in a calculation on given source powers, ignore_power_balance=True) every series of the export
is stamped with one time value, whatever its own length: five power and fuel-rate values on one
time stamp.  The same result exported without the time-series input is on five stamps.

Run: PYTHONPATH=<worktree>/feems:<worktree>/machinery-system-structure:<worktree>/RunFEEMSSim python finding_3.py
Exit status 1 = property violated, 0 = property holds.
"""
import logging
import sys

import numpy as np

logging.disable(logging.CRITICAL)

import MachSysS.gymir_result_pb2 as proto_gymir
from feems.components_model.component_electric import ElectricComponent, ElectricMachine, Genset
from feems.components_model.component_mechanical import Engine
from feems.system_model import ElectricPowerSystem
from feems.types_for_feems import TypeComponent, TypePower
from MachSysS.convert_feems_result_to_proto import FEEMSResultConverter
from RunFeemsSim.machinery_calculation import MachineryCalculation

BSFC = np.array([[0.25, 230.0], [0.5, 210.0], [0.75, 200.0], [1.0, 205.0]])
EFF = np.array([[0.25, 0.90], [0.5, 0.93], [0.75, 0.95], [1.0, 0.96]])


def genset(name):
    engine = Engine(
        type_=TypeComponent.AUXILIARY_ENGINE, name=name + " engine", rated_power=1000.0,
        rated_speed=900.0, bsfc_curve=BSFC,
    )
    generator = ElectricMachine(
        type_=TypeComponent.GENERATOR, name=name + " generator", rated_power=950.0,
        rated_speed=900.0, power_type=TypePower.POWER_SOURCE, switchboard_id=1, eff_curve=EFF,
    )
    return Genset(name, engine, generator)


g1, g2 = genset("G1"), genset("G2")
hotel = ElectricComponent(
    TypeComponent.OTHER_LOAD, "hotel", 2000.0, EFF, TypePower.POWER_CONSUMER, switchboard_id=1
)
drive = ElectricComponent(
    TypeComponent.PROPULSION_DRIVE, "drive", 2000.0, EFF, TypePower.POWER_CONSUMER, switchboard_id=1
)
plant = ElectricPowerSystem("plant", [g1, g2, hotel, drive], [])

epochs = [1000.0, 1010.0, 1040.0, 1100.0, 1105.0, 1200.0]  # six samples = five intervals
time_series = proto_gymir.TimeSeriesResult()
for i, epoch in enumerate(epochs):
    time_series.propulsion_power_timeseries.append(
        proto_gymir.PropulsionPowerInstance(
            epoch_s=epoch, propulsion_power_kw=400.0 + 50.0 * i, auxiliary_power_kw=150.0
        )
    )

calculation = MachineryCalculation(plant)
# The logged power of the running set is given; the first set was stopped all the time and keeps
# the single 0 kW it was created with.
g2.power_output = np.array([600.0, 660.0, 720.0, 780.0, 840.0])
result = calculation.calculate_machinery_system_output_from_time_series_result(
    time_series=time_series, ignore_power_balance=True
)
assert np.isclose(result.duration_s, epochs[-1] - epochs[0])
assert np.isclose(result.detail_result.loc["G2", "running hours [h]"], 200.0 / 3600)

message = FEEMSResultConverter(
    feems_result=result, system_feems=plant, time_series_input=time_series
).get_feems_result_proto(include_time_series_for_components=True)
reference = FEEMSResultConverter(feems_result=result, system_feems=plant).get_feems_result_proto(
    include_time_series_for_components=True
)

number_intervals = len(epochs) - 1
violations = []
for record, record_reference in zip(
    message.electric_system.detailed_result, reference.electric_system.detailed_result
):
    series = record.result_time_series
    fuel = series.fuel_consumption_kg_per_s.fuels[0].mass_or_mass_fraction
    lengths = (len(series.time), len(series.power_output_kw), len(fuel))
    if len(set(lengths)) != 1 or lengths[0] != number_intervals:
        violations.append(
            f"{record.component_name}: {lengths[0]} time stamps {list(series.time)}, "
            f"{lengths[1]} power values, {lengths[2]} fuel-rate values for {number_intervals} "
            f"intervals (without time_series_input: "
            f"{len(record_reference.result_time_series.time)} stamps, "
            f"{len(record_reference.result_time_series.power_output_kw)} power values)"
        )
    elif not np.allclose(series.time, epochs[:-1]):
        violations.append(f"{record.component_name}: time axis {list(series.time)}")

# Second route to the same defect, with a balance: a conventional plant whose electric part runs on
# a constant load given as one value, next to a five-value shaft series, on the same five intervals.
from feems.components_model.component_mechanical import (
    MainEngineForMechanicalPropulsion,
    MechanicalPropulsionComponent,
)
from feems.components_model.utility import IntegrationMethod
from feems.system_model import (
    MechanicalPropulsionSystem,
    MechanicalPropulsionSystemWithElectricPowerSystem,
)

g = genset("G")
hotel_2 = ElectricComponent(
    TypeComponent.OTHER_LOAD, "hotel", 2000.0, EFF, TypePower.POWER_CONSUMER, switchboard_id=1
)
main_engine = MainEngineForMechanicalPropulsion(
    "ME",
    Engine(type_=TypeComponent.MAIN_ENGINE, name="ME engine", rated_power=3000.0, rated_speed=900.0,
           bsfc_curve=BSFC),
    shaft_line_id=1,
)
propeller = MechanicalPropulsionComponent(
    TypeComponent.PROPELLER_LOAD, TypePower.POWER_CONSUMER, "propeller", 3000.0, np.array([1]),
    shaft_line_id=1,
)
ship = MechanicalPropulsionSystemWithElectricPowerSystem(
    "ship",
    ElectricPowerSystem("electric", [g, hotel_2], []),
    MechanicalPropulsionSystem("mechanical", [main_engine, propeller]),
)
intervals = np.diff(epochs)
hotel_2.set_power_input_from_output(np.array([300.0]))
g.status = np.ones(1, dtype=bool)
propeller.set_power_input_from_output(np.linspace(500.0, 2500.0, number_intervals))
main_engine.status = np.ones(number_intervals, dtype=bool)
ship.set_time_interval(intervals, IntegrationMethod.sum_with_time)
ship.do_power_balance_calculation()
result_ship = ship.get_fuel_energy_consumption_running_time(
    time_interval_s=intervals, integration_method=IntegrationMethod.sum_with_time
)
assert np.isclose(result_ship.electric_system.duration_s, 200.0)
assert np.isclose(result_ship.mechanical_system.duration_s, 200.0)
message_ship = FEEMSResultConverter(
    feems_result=result_ship, system_feems=ship, time_series_input=time_series
).get_feems_result_proto(include_time_series_for_components=True)
for record in list(message_ship.electric_system.detailed_result) + list(
    message_ship.mechanical_system.detailed_result
):
    series = record.result_time_series
    if len(series.time) != number_intervals or len(series.power_output_kw) != number_intervals:
        violations.append(
            f"conventional plant, {record.component_name}: {len(series.time)} time stamps "
            f"{list(series.time)}, {len(series.power_output_kw)} power values for "
            f"{number_intervals} intervals"
        )

if violations:
    print("PROPERTY VIOLATED: series and time axis of the export are not equally long")
    for v in violations:
        print("  -", v)
    sys.exit(1)
print("property holds: every series is on the time base of the input")
sys.exit(0)
