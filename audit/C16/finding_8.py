"""C16 finding 2: in the protobuf time-series route the auxiliary power written on the LAST
sample - which only closes the last interval and carries no load of its own - decides which
auxiliary power is used on ALL the earlier intervals.

Two messages describe the same operating profile (same time stamps, same propulsion power,
message-level auxiliary power 200 kW, no per-sample auxiliary power on any sample that is held
over an interval). They differ only in the auxiliary power written on the closing sample
(0 kW / 5 kW). The results must be the same; the code uses 200 kW in the first case and 0 kW in
the second.

(Related to, but not the same as, the known "per-sample or message-level is decided once per
message": here the decision is taken from a value that, by the property, must have no influence.)

Run: PYTHONPATH=<wt>/feems:<wt>/machinery-system-structure:<wt>/RunFEEMSSim /venv/bin/python finding_2.py
Exit status 1 = property violated, 0 = holds.
"""
import logging
import sys

import numpy as np
import pandas as pd

logging.disable(logging.CRITICAL)

from feems.components_model.component_electric import ElectricComponent, ElectricMachine, Genset
from feems.components_model.component_mechanical import Engine
from feems.system_model import ElectricPowerSystem
from feems.types_for_feems import TypeComponent, TypePower
import MachSysS.gymir_result_pb2 as pg
from MachSysS.convert_proto_timeseries import convert_proto_timeseries_to_pd_dataframe
from RunFeemsSim.machinery_calculation import MachineryCalculation

BSFC = np.array([[0.25, 230.0], [0.5, 210.0], [0.75, 200.0], [1.0, 205.0]])
GEN_EFF = np.array([[0.25, 0.93], [0.5, 0.95], [0.75, 0.96], [1.0, 0.96]])


def genset(name, p, swb):
    eng = Engine(type_=TypeComponent.AUXILIARY_ENGINE, name=name + " engine",
                 rated_power=p / 0.96, rated_speed=900, bsfc_curve=BSFC)
    gen = ElectricMachine(type_=TypeComponent.GENERATOR, name=name + " generator",
                          rated_power=p, rated_speed=900, power_type=TypePower.POWER_SOURCE,
                          switchboard_id=swb, eff_curve=GEN_EFF)
    return Genset(name, eng, gen)


def consumer(name, p, swb, type_):
    return ElectricComponent(type_=type_, name=name, power_type=TypePower.POWER_CONSUMER,
                             rated_power=p, eff_curve=np.array([1.0]), switchboard_id=swb)


def plant():
    return ElectricPowerSystem(
        "plant",
        [genset("g1", 1000, 1), genset("g2", 700, 2),
         consumer("drive 1", 800, 1, TypeComponent.PROPULSION_DRIVE),
         consumer("drive 2", 800, 2, TypeComponent.PROPULSION_DRIVE),
         consumer("hotel", 400, 1, TypeComponent.OTHER_LOAD)],
        [(1, 2)],
    )


def numbers(res):
    return np.array([res.duration_s, res.fuel_consumption_total_kg,
                     res.co2_emission_total_kg.tank_to_wake_kg_or_gco2eq_per_gfuel,
                     res.running_hours_genset_total_hr,
                     res.energy_consumption_propulsion_total_mj,
                     res.energy_consumption_auxiliary_total_mj], dtype=float)


epoch_s = np.array([0.0, 100.0, 250.0, 1000.0, 1010.0])
power_kw = np.array([500.0, 900.0, 100.0, 700.0, 50.0])
AUX_MESSAGE_LEVEL = 200.0


def message(aux_on_closing_sample):
    msg = pg.TimeSeriesResult(auxiliary_power_kw=AUX_MESSAGE_LEVEL)
    for k, (t, p) in enumerate(zip(epoch_s, power_kw)):
        closing = k == len(epoch_s) - 1
        msg.propulsion_power_timeseries.add(
            epoch_s=t, propulsion_power_kw=p,
            auxiliary_power_kw=aux_on_closing_sample if closing else 0.0)
    return msg


results = {}
for aux_last in (0.0, 5.0):
    msg = message(aux_last)
    used = convert_proto_timeseries_to_pd_dataframe(msg)["auxiliary_power_kw"].values
    res = MachineryCalculation(plant()).calculate_machinery_system_output_from_time_series_result(
        time_series=msg)
    results[aux_last] = numbers(res)
    print(f"closing sample carries {aux_last} kW auxiliary power -> auxiliary series used "
          f"{used.tolist()}")
    print("   duration, fuel kg, CO2 kg, genset h, propulsion MJ, auxiliary MJ =", results[aux_last])

# what the property demands: the closing sample has no influence; the held samples say
# "no per-sample value", so the message-level 200 kW applies on every interval
expected_aux_mj = AUX_MESSAGE_LEVEL * (epoch_s[-1] - epoch_s[0]) / 1000
print("auxiliary energy with the message-level value on every interval:", expected_aux_mj, "MJ")

if not np.allclose(results[0.0], results[5.0], rtol=1e-9):
    print("PROPERTY VIOLATED: the value on the sample that only closes the last interval "
          "changes the fuel, emissions and auxiliary energy of all intervals")
    sys.exit(1)
print("property holds")
sys.exit(0)
