"""C16 finding 2: a mechanical-propulsion plant whose electric system has no consumer (auxiliary power 0)
is calculated for a profile of two samples but refused for the same kind of profile with three samples,
on every input route."""
import logging
import sys

import numpy as np
import pandas as pd

from feems.components_model import Engine, ElectricMachine, Genset
from feems.components_model.component_mechanical import (
    MainEngineForMechanicalPropulsion,
    MechanicalPropulsionComponent,
)
from feems.system_model import (
    ElectricPowerSystem,
    MechanicalPropulsionSystem,
    MechanicalPropulsionSystemWithElectricPowerSystem,
)
from feems.types_for_feems import TypeComponent, TypePower, NOxCalculationMethod
from MachSysS.gymir_result_pb2 import (
    GymirResult, SimulationInstance, TimeSeriesResult, PropulsionPowerInstance,
)
from RunFeemsSim.machinery_calculation import MachineryCalculation

logging.disable(logging.CRITICAL)
BSFC = np.array([[1.00, 0.75, 0.50, 0.25, 0.10], [193.66, 188.995, 194.47, 211.4, 250]]).T


def plant():
    engine = Engine(
        type_=TypeComponent.MAIN_ENGINE, name="ME engine", rated_power=4000, rated_speed=1000,
        bsfc_curve=BSFC, nox_calculation_method=NOxCalculationMethod.TIER_2,
    )
    propeller = MechanicalPropulsionComponent(
        TypeComponent.PROPELLER_LOAD, TypePower.POWER_CONSUMER, "propeller", rated_power=4000,
        eff_curve=np.array([1.0]), shaft_line_id=1,
    )
    aux_engine = Engine(
        type_=TypeComponent.AUXILIARY_ENGINE, name="aux engine", rated_power=1050, rated_speed=1500,
        bsfc_curve=BSFC, nox_calculation_method=NOxCalculationMethod.TIER_2,
    )
    generator = ElectricMachine(
        type_=TypeComponent.GENERATOR, name="generator", rated_power=1000, rated_speed=1500,
        power_type=TypePower.POWER_SOURCE, switchboard_id=1, eff_curve=np.array([0.95]),
    )
    return MechanicalPropulsionSystemWithElectricPowerSystem(
        "mechanical",
        # harbour generating set, no electric consumer is modelled: auxiliary power is 0
        ElectricPowerSystem("el", [Genset("genset", aux_engine, generator)], []),
        MechanicalPropulsionSystem("mech", [MainEngineForMechanicalPropulsion("ME", engine, 1), propeller]),
    )


def run(route, t, p):
    calc = MachineryCalculation(feems_system=plant())
    if route == "gymir":
        msg = GymirResult(
            name="x", auxiliary_load_kw=0.0,
            result=[SimulationInstance(epoch_s=a, power_kw=b) for a, b in zip(t, p)],
        )
        return calc.calculate_machinery_system_output_from_gymir_result(gymir_result=msg)
    if route == "series":
        return calc.calculate_machinery_system_output_from_propulsion_power_time_series(
            propulsion_power=pd.Series(p, index=t), auxiliary_power_kw=0.0
        )
    if route == "protobuf":
        msg = TimeSeriesResult(
            auxiliary_power_kw=0.0,
            propulsion_power_timeseries=[
                PropulsionPowerInstance(epoch_s=a, propulsion_power_kw=b) for a, b in zip(t, p)
            ],
        )
        return calc.calculate_machinery_system_output_from_time_series_result(time_series=msg)
    return calc.calculate_machinery_system_output_from_statistics(
        propulsion_power=p[:-1], frequency=np.diff(t), auxiliary_power_kw=0.0
    )


violated = False
for t, p in [
    (np.array([0.0, 60.0]), np.array([1000.0, 0.0])),
    (np.array([0.0, 60.0, 100.0]), np.array([1000.0, 2000.0, 0.0])),
]:
    expected_mj = float((p[:-1] * np.diff(t)).sum() / 1000)
    for route in ("gymir", "series", "protobuf", "operating points"):
        try:
            res = run(route, t, p)
            got = res.mechanical_system.energy_consumption_propulsion_total_mj
            ok = np.isclose(got, expected_mj) and np.isclose(res.mechanical_system.duration_s, t[-1] - t[0])
            print(f"{len(t)} samples, {route:16s}: propulsion energy {got:.2f} MJ (demanded {expected_mj:.2f}), "
                  f"fuel {res.mechanical_system.fuel_consumption_total_kg:.4f} kg")
            violated |= not ok
        except Exception as exc:  # the profile is legal: any refusal is a violation
            print(f"{len(t)} samples, {route:16s}: REFUSED with {type(exc).__name__}: {str(exc)[:90]}")
            violated = True

if violated:
    print("VIOLATED: a legal plant / profile is refused as soon as the profile has more than one interval")
    sys.exit(1)
print("property holds")
sys.exit(0)
