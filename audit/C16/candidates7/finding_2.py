"""C16 finding 2: operating points with durations whose powers are a pandas Series (for instance the
first N-1 samples of the time series the other route takes) give NaN results without any error: the
statistics route builds pd.Series(data=propulsion_power, index=frequency), which re-labels a Series
by its OWN labels instead of pairing value k with duration k.
Exit status 1 = property violated, 0 = holds."""
import logging, sys, warnings

warnings.filterwarnings("ignore")
logging.disable(logging.CRITICAL)
import numpy as np
import pandas as pd
from feems.components_model.component_electric import ElectricComponent, ElectricMachine, Genset
from feems.components_model.component_mechanical import Engine
from feems.system_model import ElectricPowerSystem
from feems.types_for_feems import TypeComponent, TypePower
from RunFeemsSim.machinery_calculation import MachineryCalculation

BSFC = np.array([[0.25, 230.0], [0.5, 205.0], [0.75, 195.0], [1.0, 200.0]])
EFF = np.array([[0.25, 0.93], [0.5, 0.95], [0.75, 0.96], [1.0, 0.965]])


def plant():
    comps = []
    for k, p in enumerate((1000.0, 1500.0)):
        eng = Engine(type_=TypeComponent.AUXILIARY_ENGINE, name=f"eng{k}", rated_power=p / 0.95,
                     rated_speed=900, bsfc_curve=BSFC)
        gen = ElectricMachine(type_=TypeComponent.GENERATOR, name=f"gen{k}", rated_power=p,
                              rated_speed=900, power_type=TypePower.POWER_SOURCE, switchboard_id=1,
                              eff_curve=EFF)
        comps.append(Genset(f"genset{k}", eng, gen))
    comps.append(ElectricComponent(type_=TypeComponent.PROPULSION_DRIVE, name="drive", rated_power=1500,
                                   eff_curve=EFF, power_type=TypePower.POWER_CONSUMER, switchboard_id=1))
    comps.append(ElectricComponent(type_=TypeComponent.OTHER_LOAD, name="hotel", rated_power=500,
                                   eff_curve=np.array([1.0]), power_type=TypePower.POWER_CONSUMER,
                                   switchboard_id=1))
    return ElectricPowerSystem("plant", comps, [])


times = [10.0, 70.0, 100.0, 400.0, 405.0, 1000.0]
power = [800.0, 1400.0, 0.0, 1200.0, 1000.0, 999.0]
aux = 300.0
series = pd.Series(power, index=times)  # the time-stamped profile

by_time = MachineryCalculation(plant()).calculate_machinery_system_output_from_propulsion_power_time_series(
    propulsion_power=series, auxiliary_power_kw=aux)
durations = np.diff(series.index.to_numpy())
points_array = MachineryCalculation(plant()).calculate_machinery_system_output_from_statistics(
    propulsion_power=series.values[:-1], frequency=durations, auxiliary_power_kw=aux)
# The same operating points, kept in the pandas container they came in
points_series = MachineryCalculation(plant()).calculate_machinery_system_output_from_statistics(
    propulsion_power=series.iloc[:-1], frequency=durations, auxiliary_power_kw=aux)
# ... and as a freshly built Series (labels 0..4)
points_series_2 = MachineryCalculation(plant()).calculate_machinery_system_output_from_statistics(
    propulsion_power=pd.Series(power[:-1]), frequency=durations, auxiliary_power_kw=aux)

rows = [("time series route", by_time), ("operating points, numpy array", points_array),
        ("operating points, Series (time labels)", points_series),
        ("operating points, Series (labels 0..4)", points_series_2)]
for name, r in rows:
    print("%-42s fuel %12.6f kg  propulsion energy %10.3f MJ  duration %.0f s" % (
        name, r.fuel_consumption_total_kg, r.energy_consumption_propulsion_total_mj, r.duration_s))
ref = by_time.fuel_consumption_total_kg
violated = any(not np.isclose(r.fuel_consumption_total_kg, ref, rtol=1e-9) for _, r in rows)
print("VIOLATED: the same operating points give other (NaN) results, no error raised" if violated
      else "property holds")
sys.exit(1 if violated else 0)
