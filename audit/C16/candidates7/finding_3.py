"""C16 finding 3: the series of a shaft-driven auxiliary load (a pump on the shaft line, not a
propulsor) is kept by the front end only if it has exactly N-1 values. Given per sample - N values
for a profile of N time stamps, the convention the same call uses for per-sample auxiliary power -
it is silently replaced by zeros in the three time-stamped routes, while the operating-point route
with the same profile keeps it. Same profile, other results, no error.
Exit status 1 = property violated, 0 = holds."""
import logging, sys, warnings

warnings.filterwarnings("ignore")
logging.disable(logging.CRITICAL)
import numpy as np
import pandas as pd
from feems.components_model.component_electric import ElectricComponent, ElectricMachine, Genset
from feems.components_model.component_mechanical import (Engine, MainEngineForMechanicalPropulsion,
                                                         MechanicalPropulsionComponent)
from feems.system_model import (ElectricPowerSystem, MechanicalPropulsionSystem,
                                MechanicalPropulsionSystemWithElectricPowerSystem)
from feems.types_for_feems import TypeComponent, TypePower
from MachSysS.gymir_result_pb2 import TimeSeriesResult, PropulsionPowerInstance
from RunFeemsSim.machinery_calculation import MachineryCalculation

BSFC = np.array([[0.25, 230.0], [0.5, 205.0], [0.75, 195.0], [1.0, 200.0]])
EFF = np.array([[0.25, 0.93], [0.5, 0.95], [0.75, 0.96], [1.0, 0.965]])


def plant(pump_power):
    comps = []
    for k, p in enumerate((1000.0, 1500.0)):
        eng = Engine(type_=TypeComponent.AUXILIARY_ENGINE, name=f"eng{k}", rated_power=p / 0.95,
                     rated_speed=900, bsfc_curve=BSFC)
        gen = ElectricMachine(type_=TypeComponent.GENERATOR, name=f"gen{k}", rated_power=p,
                              rated_speed=900, power_type=TypePower.POWER_SOURCE, switchboard_id=1,
                              eff_curve=EFF)
        comps.append(Genset(f"genset{k}", eng, gen))
    comps.append(ElectricComponent(type_=TypeComponent.OTHER_LOAD, name="hotel", rated_power=500,
                                   eff_curve=np.array([1.0]), power_type=TypePower.POWER_CONSUMER,
                                   switchboard_id=1))
    electric = ElectricPowerSystem("electric", comps, [])
    engine = MainEngineForMechanicalPropulsion(
        "main engine", Engine(type_=TypeComponent.MAIN_ENGINE, name="me", rated_power=4000, rated_speed=500,
                              bsfc_curve=BSFC), shaft_line_id=1)
    propeller = MechanicalPropulsionComponent(TypeComponent.PROPELLER_LOAD, TypePower.POWER_CONSUMER,
                                              "propeller", 4000, np.array([1.0]), shaft_line_id=1)
    pump = MechanicalPropulsionComponent(TypeComponent.OTHER_MECHANICAL_LOAD, TypePower.POWER_CONSUMER,
                                         "shaft-driven pump", 300, np.array([1.0]), shaft_line_id=1)
    pump.set_power_input_from_output(np.asarray(pump_power, dtype=float))
    mechanical = MechanicalPropulsionSystem("mechanical", [engine, propeller, pump])
    return MechanicalPropulsionSystemWithElectricPowerSystem("vessel", electric, mechanical), pump


times = [10.0, 70.0, 100.0, 400.0, 405.0, 1000.0]       # N = 6 time stamps
power = [800.0, 2400.0, 0.0, 1500.0, 3000.0, 999.0]     # per sample
aux = [300.0, 250.0, 200.0, 300.0, 100.0, 999.0]        # per sample, N values: accepted, last one unused
pump_kw = [100.0, 100.0, 150.0, 150.0, 50.0, 999.0]     # per sample, N values
dt = np.diff(times)
pump_energy_mj = float(np.dot(pump_kw[:-1], dt)) / 1000  # sample k held until sample k+1

results = {}
system, pump = plant(pump_kw)
results["time series route, pump per sample (N)"] = (
    MachineryCalculation(system).calculate_machinery_system_output_from_propulsion_power_time_series(
        propulsion_power=pd.Series(power, index=times), auxiliary_power_kw=np.array(aux)), pump.power_input.copy())
system, pump = plant(pump_kw)
message = TimeSeriesResult(propulsion_power_timeseries=[
    PropulsionPowerInstance(epoch_s=t, propulsion_power_kw=p, auxiliary_power_kw=a)
    for t, p, a in zip(times, power, aux)])
results["protobuf route, pump per sample (N)"] = (
    MachineryCalculation(system).calculate_machinery_system_output_from_time_series_result(time_series=message),
    pump.power_input.copy())
system, pump = plant(pump_kw[:-1])
results["operating points, pump per point (N-1)"] = (
    MachineryCalculation(system).calculate_machinery_system_output_from_statistics(
        propulsion_power=np.array(power[:-1]), frequency=dt, auxiliary_power_kw=np.array(aux[:-1])),
    pump.power_input.copy())
system, pump = plant(pump_kw[:-1])
results["time series route, pump with N-1 values"] = (
    MachineryCalculation(system).calculate_machinery_system_output_from_propulsion_power_time_series(
        propulsion_power=pd.Series(power, index=times), auxiliary_power_kw=np.array(aux)), pump.power_input.copy())

print("energy the pump takes in this profile: %.3f MJ" % pump_energy_mj)
for name, (r, pump_in) in results.items():
    m = r.mechanical_system
    print("%-42s main-engine fuel %10.5f kg  shaft aux energy %8.3f MJ  pump series used %s" % (
        name, m.fuel_consumption_total_kg, m.energy_consumption_auxiliary_total_mj, pump_in))
ref = results["operating points, pump per point (N-1)"][0].mechanical_system.fuel_consumption_total_kg
violated = any(not np.isclose(r.mechanical_system.fuel_consumption_total_kg, ref, rtol=1e-9)
               for r, _ in results.values())
print("VIOLATED: the per-sample series of the shaft-driven load is dropped without a message in the "
      "time-stamped routes" if violated else "property holds")
sys.exit(1 if violated else 0)
