"""C16 finding 1: a Gymir result written with GymirResultConverter.to_csv cannot be read back with
read_csv when a text field of a sample is empty (the default), so the profile cannot be supplied by
the Gymir route although the same profile runs through the other routes.
Exit status 1 = property violated, 0 = holds."""
import logging, os, sys, tempfile, warnings

warnings.filterwarnings("ignore")
logging.disable(logging.CRITICAL)
import numpy as np
import pandas as pd
from feems.components_model.component_electric import ElectricComponent, ElectricMachine, Genset
from feems.components_model.component_mechanical import Engine
from feems.system_model import ElectricPowerSystem
from feems.types_for_feems import TypeComponent, TypePower
from MachSysS.gymir_result_pb2 import GymirResult, SimulationInstance
from MachSysS.convert_gymir_result_to_proto import GymirResultConverter
from RunFeemsSim.machinery_calculation import MachineryCalculation

BSFC = np.array([[0.25, 230.0], [0.5, 205.0], [0.75, 195.0], [1.0, 200.0]])
EFF = np.array([[0.25, 0.93], [0.5, 0.95], [0.75, 0.96], [1.0, 0.965]])


def plant():
    comps = []
    for k, p in enumerate((1000.0, 1500.0)):
        eng = Engine(type_=TypeComponent.AUXILIARY_ENGINE, name=f"eng{k}", rated_power=p / 0.95,
                     rated_speed=900, bsfc_curve=BSFC)
        gen = ElectricMachine(type_=TypeComponent.GENERATOR, name=f"gen{k}", rated_power=p,
                              rated_speed=900, power_type=TypePower.POWER_SOURCE, switchboard_id=1,
                              eff_curve=EFF)
        comps.append(Genset(f"genset{k}", eng, gen))
    comps.append(ElectricComponent(type_=TypeComponent.PROPULSION_DRIVE, name="drive", rated_power=1500,
                                   eff_curve=EFF, power_type=TypePower.POWER_CONSUMER, switchboard_id=1))
    comps.append(ElectricComponent(type_=TypeComponent.OTHER_LOAD, name="hotel", rated_power=500,
                                   eff_curve=np.array([1.0]), power_type=TypePower.POWER_CONSUMER,
                                   switchboard_id=1))
    return ElectricPowerSystem("plant", comps, [])


times = [10.0, 70.0, 100.0, 400.0, 405.0, 1000.0]
power = [800.0, 1400.0, 0.0, 1200.0, 1000.0, 999.0]
aux = 300.0

# The Gymir result, built as in the package's own notebook (epoch and power only)
gymir = GymirResult(name="voyage", auxiliary_load_kw=aux,
                    result=[SimulationInstance(epoch_s=t, power_kw=p) for t, p in zip(times, power)])

reference = MachineryCalculation(plant()).calculate_machinery_system_output_from_propulsion_power_time_series(
    propulsion_power=pd.Series(power, index=times), auxiliary_power_kw=aux)
print("series route: fuel %.6f kg over %.0f s" % (reference.fuel_consumption_total_kg, reference.duration_s))

csv_file = os.path.join(tempfile.mkdtemp(), "gymir.csv")
GymirResultConverter(gymir_result=gymir).to_csv(csv_file)
print("first lines of the CSV written by to_csv:")
print("".join(open(csv_file).readlines()[:3]), end="")

violated = False
try:
    reader = GymirResultConverter()
    reader.read_csv(csv_file, auxiliary_load_kw=aux, name="voyage")
    result = MachineryCalculation(plant()).calculate_machinery_system_output_from_gymir_result(
        gymir_result=reader.gymir_result)
    print("Gymir (CSV) route: fuel %.6f kg over %.0f s" % (result.fuel_consumption_total_kg, result.duration_s))
    if not np.isclose(result.fuel_consumption_total_kg, reference.fuel_consumption_total_kg, rtol=1e-9) or \
            not np.isclose(result.duration_s, reference.duration_s):
        violated = True
        print("VIOLATED: the Gymir result read back from its own CSV gives other results")
except Exception as exc:  # noqa
    violated = True
    print(f"VIOLATED: the CSV written by to_csv is refused by read_csv: {type(exc).__name__}: {exc}")

# Control: with the text fields filled in the round trip works
gymir_text = GymirResult(name="voyage", auxiliary_load_kw=aux, result=[
    SimulationInstance(epoch_s=t, power_kw=p, task_type="sail", task_name="a", weather_source="w")
    for t, p in zip(times, power)])
GymirResultConverter(gymir_result=gymir_text).to_csv(csv_file)
reader = GymirResultConverter()
reader.read_csv(csv_file, auxiliary_load_kw=aux, name="voyage")
print("control (text fields filled in): read back equal to the original:", reader.gymir_result == gymir_text)
sys.exit(1 if violated else 0)
