"""C16 finding 4: a plant without any propulsor (no propulsion drive on a switchboard, no propeller on
a shaft line) accepts a non-zero propulsion power through every route and silently drops it: the
result is that of a profile with zero propulsion power. Auxiliary power given to a plant without
auxiliary loads is refused with an assertion; propulsion power given to a plant without propulsors
is not.
Exit status 1 = property violated, 0 = holds."""
import logging, sys, warnings

logging.disable(logging.CRITICAL)
import numpy as np
import pandas as pd
from feems.components_model.component_electric import ElectricComponent, ElectricMachine, Genset
from feems.components_model.component_mechanical import (Engine, MainEngineForMechanicalPropulsion,
                                                         MechanicalPropulsionComponent)
from feems.system_model import (ElectricPowerSystem, MechanicalPropulsionSystem,
                                MechanicalPropulsionSystemWithElectricPowerSystem)
from feems.types_for_feems import TypeComponent, TypePower
from MachSysS.gymir_result_pb2 import (GymirResult, SimulationInstance, TimeSeriesResult,
                                       PropulsionPowerInstance)
from RunFeemsSim.machinery_calculation import MachineryCalculation

BSFC = np.array([[0.25, 230.0], [0.5, 205.0], [0.75, 195.0], [1.0, 200.0]])
EFF = np.array([[0.25, 0.93], [0.5, 0.95], [0.75, 0.96], [1.0, 0.965]])


def electric(with_drive):
    comps = []
    for k, p in enumerate((1000.0, 1500.0)):
        eng = Engine(type_=TypeComponent.AUXILIARY_ENGINE, name=f"eng{k}", rated_power=p / 0.95,
                     rated_speed=900, bsfc_curve=BSFC)
        gen = ElectricMachine(type_=TypeComponent.GENERATOR, name=f"gen{k}", rated_power=p,
                              rated_speed=900, power_type=TypePower.POWER_SOURCE, switchboard_id=1,
                              eff_curve=EFF)
        comps.append(Genset(f"genset{k}", eng, gen))
    if with_drive:
        comps.append(ElectricComponent(type_=TypeComponent.PROPULSION_DRIVE, name="drive", rated_power=1500,
                                       eff_curve=EFF, power_type=TypePower.POWER_CONSUMER, switchboard_id=1))
    comps.append(ElectricComponent(type_=TypeComponent.OTHER_LOAD, name="hotel", rated_power=500,
                                   eff_curve=np.array([1.0]), power_type=TypePower.POWER_CONSUMER,
                                   switchboard_id=1))
    return ElectricPowerSystem("electric", comps, [])


def mechanical_without_propeller():
    engine = MainEngineForMechanicalPropulsion(
        "main engine", Engine(type_=TypeComponent.MAIN_ENGINE, name="me", rated_power=4000, rated_speed=500,
                              bsfc_curve=BSFC), shaft_line_id=1)
    pump = MechanicalPropulsionComponent(TypeComponent.OTHER_MECHANICAL_LOAD, TypePower.POWER_CONSUMER,
                                         "shaft-driven pump", 300, np.array([1.0]), shaft_line_id=1)
    return MechanicalPropulsionSystemWithElectricPowerSystem(
        "vessel", electric(False), MechanicalPropulsionSystem("mechanical", [engine, pump]))


times = [10.0, 70.0, 100.0, 400.0, 405.0, 1000.0]
power = [800.0, 1400.0, 0.0, 1200.0, 1000.0, 999.0]
aux = 300.0
energy_mj = float(np.dot(power[:-1], np.diff(times))) / 1000


def fuel(r):
    if hasattr(r, "electric_system"):
        return r.electric_system.fuel_consumption_total_kg + r.mechanical_system.fuel_consumption_total_kg
    return r.fuel_consumption_total_kg


def routes(make, p):
    out = {}
    out["gymir"] = MachineryCalculation(make()).calculate_machinery_system_output_from_gymir_result(
        gymir_result=GymirResult(auxiliary_load_kw=aux, result=[
            SimulationInstance(epoch_s=t, power_kw=x) for t, x in zip(times, p)]))
    out["series"] = MachineryCalculation(make()).calculate_machinery_system_output_from_propulsion_power_time_series(
        propulsion_power=pd.Series(p, index=times), auxiliary_power_kw=aux)
    out["protobuf"] = MachineryCalculation(make()).calculate_machinery_system_output_from_time_series_result(
        time_series=TimeSeriesResult(auxiliary_power_kw=aux, propulsion_power_timeseries=[
            PropulsionPowerInstance(epoch_s=t, propulsion_power_kw=x) for t, x in zip(times, p)]))
    out["points"] = MachineryCalculation(make()).calculate_machinery_system_output_from_statistics(
        propulsion_power=np.array(p[:-1]), frequency=np.diff(times), auxiliary_power_kw=aux)
    return out


violated = False
print("propulsion energy of the profile: %.1f MJ" % energy_mj)
for name, make in (("electric plant without propulsion drive", lambda: electric(False)),
                   ("shaft line without propeller (engine + pump)", mechanical_without_propeller)):
    with warnings.catch_warnings(record=True) as caught:
        warnings.simplefilter("always")
        try:
            with_power = routes(make, power)
        except Exception as exc:  # a refusal would be the consistent behaviour
            print(f"{name}: refused ({type(exc).__name__}: {exc}) - consistent with the auxiliary power")
            continue
        numpy_warnings = [str(w.message) for w in caught if "divide" in str(w.message)]
    zero_power = routes(make, [0.0] * len(power))
    for route in with_power:
        f1, f0 = fuel(with_power[route]), fuel(zero_power[route])
        dropped = np.isclose(f1, f0, rtol=1e-12)
        violated |= bool(dropped)
        print("%-46s %-9s fuel %.6f kg, with zero propulsion power %.6f kg -> %s" % (
            name, route, f1, f0, "propulsion power DROPPED, no error" if dropped else "ok"))
    print("   warnings about the division by zero propulsors:", numpy_warnings or "none")

# For comparison: the mirror case is refused
try:
    no_aux = ElectricPowerSystem("e", electric(True).power_sources + electric(True).propulsion_drives, [])
    MachineryCalculation(no_aux).calculate_machinery_system_output_from_propulsion_power_time_series(
        propulsion_power=pd.Series(power, index=times), auxiliary_power_kw=aux)
    print("auxiliary power without auxiliary load: accepted")
except AssertionError as exc:
    print("auxiliary power without auxiliary load: refused -", exc)
print("VIOLATED" if violated else "property holds")
sys.exit(1 if violated else 0)
