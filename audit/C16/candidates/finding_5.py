"""C16 finding 5: a propulsion-power time series whose time stamps are pandas time stamps (DatetimeIndex,
the usual form of a time series in pandas) is refused with an obscure TypeError deep in the integration;
the same profile with the time stamps as seconds is calculated."""
import logging
import sys

import numpy as np
import pandas as pd

from feems.components_model import Engine, ElectricMachine, Genset, ElectricComponent
from feems.system_model import ElectricPowerSystem
from feems.types_for_feems import TypeComponent, TypePower, NOxCalculationMethod
from RunFeemsSim.machinery_calculation import MachineryCalculation

logging.disable(logging.CRITICAL)
BSFC = np.array([[1.00, 0.75, 0.50, 0.25, 0.10], [193.66, 188.995, 194.47, 211.4, 250]]).T


def plant():
    engine = Engine(
        type_=TypeComponent.AUXILIARY_ENGINE, name="engine", rated_power=3200, rated_speed=1500,
        bsfc_curve=BSFC, nox_calculation_method=NOxCalculationMethod.TIER_2,
    )
    generator = ElectricMachine(
        type_=TypeComponent.GENERATOR, name="generator", rated_power=3000, rated_speed=1500,
        power_type=TypePower.POWER_SOURCE, switchboard_id=1, eff_curve=np.array([0.95]),
    )
    drive = ElectricComponent(
        type_=TypeComponent.PROPULSION_DRIVE, name="drive", power_type=TypePower.POWER_CONSUMER,
        rated_power=2000, eff_curve=np.array([0.95]), switchboard_id=1,
    )
    hotel = ElectricComponent(
        type_=TypeComponent.OTHER_LOAD, name="hotel", power_type=TypePower.POWER_CONSUMER,
        rated_power=300, eff_curve=np.array([1.0]), switchboard_id=1,
    )
    return ElectricPowerSystem("electric", [Genset("genset", engine, generator), drive, hotel], [])


seconds = np.array([0.0, 10.0, 25.0, 100.0, 130.0])
power_kw = np.array([1000.0, 1800.0, 500.0, 1500.0, 0.0])
reference = MachineryCalculation(feems_system=plant()).calculate_machinery_system_output_from_propulsion_power_time_series(
    propulsion_power=pd.Series(power_kw, index=seconds), auxiliary_power_kw=100.0
)
print(f"index in seconds : duration {reference.duration_s} s, fuel {reference.fuel_consumption_total_kg:.4f} kg")

stamped = pd.Series(power_kw, index=pd.Timestamp("2026-01-01 12:00:00") + pd.to_timedelta(seconds, unit="s"))
try:
    res = MachineryCalculation(feems_system=plant()).calculate_machinery_system_output_from_propulsion_power_time_series(
        propulsion_power=stamped, auxiliary_power_kw=100.0
    )
except Exception as exc:
    print(f"DatetimeIndex    : REFUSED with {type(exc).__name__}: {exc}")
    print("VIOLATED: the same time-stamped profile is not accepted in its pandas time-stamp form")
    sys.exit(1)
print(f"DatetimeIndex    : duration {res.duration_s}, fuel {res.fuel_consumption_total_kg}")
same = np.isclose(float(res.duration_s), reference.duration_s) and np.isclose(
    res.fuel_consumption_total_kg, reference.fuel_consumption_total_kg
)
sys.exit(0 if same else 1)
