"""C16 finding 1: a shaft-driven auxiliary load (TypeComponent.OTHER_MECHANICAL_LOAD) is counted as a
propulsor: it receives a share of the propulsion power and the propellers get too little."""
import logging
import sys

import numpy as np
import pandas as pd

from feems.components_model import Engine, ElectricMachine, Genset, ElectricComponent
from feems.components_model.component_mechanical import (
    MainEngineForMechanicalPropulsion,
    MechanicalPropulsionComponent,
)
from feems.system_model import (
    ElectricPowerSystem,
    MechanicalPropulsionSystem,
    MechanicalPropulsionSystemWithElectricPowerSystem,
)
from feems.types_for_feems import TypeComponent, TypePower, NOxCalculationMethod
from RunFeemsSim.machinery_calculation import MachineryCalculation

logging.disable(logging.CRITICAL)
BSFC = np.array([[1.00, 0.75, 0.50, 0.25, 0.10], [193.66, 188.995, 194.47, 211.4, 250]]).T


def main_engine(name, power, shaft):
    engine = Engine(
        type_=TypeComponent.MAIN_ENGINE, name=name + " engine", rated_power=power, rated_speed=1000,
        bsfc_curve=BSFC, nox_calculation_method=NOxCalculationMethod.TIER_2,
    )
    return MainEngineForMechanicalPropulsion(name, engine, shaft_line_id=shaft)


def shaft_load(name, type_, power, shaft):
    return MechanicalPropulsionComponent(
        type_, TypePower.POWER_CONSUMER, name, rated_power=power, eff_curve=np.array([1.0]),
        shaft_line_id=shaft,
    )


def genset(name, power, swb):
    engine = Engine(
        type_=TypeComponent.AUXILIARY_ENGINE, name=name + " engine", rated_power=power / 0.95,
        rated_speed=1500, bsfc_curve=BSFC, nox_calculation_method=NOxCalculationMethod.TIER_2,
    )
    generator = ElectricMachine(
        type_=TypeComponent.GENERATOR, name=name + " generator", rated_power=power, rated_speed=1500,
        power_type=TypePower.POWER_SOURCE, switchboard_id=swb, eff_curve=np.array([0.95]),
    )
    return Genset(name=name, aux_engine=engine, generator=generator)


def plant(with_pump: bool):
    shaft = [
        main_engine("ME 1", 4000, 1), shaft_load("propeller 1", TypeComponent.PROPELLER_LOAD, 4000, 1),
        main_engine("ME 2", 4000, 2), shaft_load("propeller 2", TypeComponent.PROPELLER_LOAD, 4000, 2),
    ]
    if with_pump:
        shaft.append(shaft_load("shaft driven pump", TypeComponent.OTHER_MECHANICAL_LOAD, 500, 1))
    hotel = ElectricComponent(
        type_=TypeComponent.OTHER_LOAD, name="hotel", power_type=TypePower.POWER_CONSUMER,
        rated_power=500, eff_curve=np.array([1.0]), switchboard_id=1,
    )
    return MechanicalPropulsionSystemWithElectricPowerSystem(
        "mechanical",
        ElectricPowerSystem("el", [genset("genset", 1000, 1), hotel], []),
        MechanicalPropulsionSystem("mech", shaft),
    )


time_s = np.array([0.0, 10.0, 25.0, 100.0, 130.0])
power_kw = np.array([1000.0, 2000.0, 500.0, 1500.0, 9999.0])
aux_kw = 100.0
expected_propulsion_mj = float((power_kw[:-1] * np.diff(time_s)).sum() / 1000)
expected_auxiliary_mj = aux_kw * (time_s[-1] - time_s[0]) / 1000

violated = False
for with_pump in (False, True):
    system = plant(with_pump)
    calc = MachineryCalculation(feems_system=system)
    res = calc.calculate_machinery_system_output_from_propulsion_power_time_series(
        propulsion_power=pd.Series(power_kw, index=time_s), auxiliary_power_kw=aux_kw
    )
    propellers = [
        c for c in system.mechanical_system.mechanical_loads if c.type == TypeComponent.PROPELLER_LOAD
    ]
    e_prop = res.mechanical_system.energy_consumption_propulsion_total_mj + \
        res.electric_system.energy_consumption_propulsion_total_mj
    e_aux = res.mechanical_system.energy_consumption_auxiliary_total_mj + \
        res.electric_system.energy_consumption_auxiliary_total_mj
    print(f"--- shaft-driven pump on shaft line 1: {with_pump}")
    for prop in propellers:
        print(f"  {prop.name}: delivered {prop.power_output}, demanded {power_kw[:-1] / len(propellers)}")
        if not np.allclose(prop.power_output, power_kw[:-1] / len(propellers)):
            violated = True
    print(f"  propulsion energy {e_prop:.3f} MJ, demanded {expected_propulsion_mj:.3f} MJ")
    print(f"  auxiliary  energy {e_aux:.3f} MJ, demanded {expected_auxiliary_mj:.3f} MJ")
    print(f"  main engine fuel {res.mechanical_system.fuel_consumption_total_kg:.4f} kg")
    if not np.isclose(e_prop, expected_propulsion_mj) or not np.isclose(e_aux, expected_auxiliary_mj):
        violated = True

if violated:
    print("VIOLATED: the propulsion power is not divided among the propulsors (a third goes to the pump)")
    sys.exit(1)
print("property holds")
sys.exit(0)
