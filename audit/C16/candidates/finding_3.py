"""C16 finding 3: a battery-electric plant (energy storage only, no generating set) cannot be given to
MachineryCalculation at all: the default power-management table is empty and the constructor fails,
so none of the four input routes exists for this plant type. FEEMS itself balances the plant."""
import logging
import sys

import numpy as np
import pandas as pd

from feems.components_model import ElectricComponent, Battery
from feems.simulation_interface import SimulationInterface
from feems.system_model import ElectricPowerSystem
from feems.types_for_feems import TypeComponent, TypePower
from RunFeemsSim.machinery_calculation import MachineryCalculation

logging.disable(logging.CRITICAL)


def plant():
    battery = Battery(name="battery", rated_capacity_kwh=5000, charging_rate_c=1, discharge_rate_c=1,
                      switchboard_id=1)
    drive = ElectricComponent(
        type_=TypeComponent.PROPULSION_DRIVE, name="drive", power_type=TypePower.POWER_CONSUMER,
        rated_power=1500, eff_curve=np.array([0.95]), switchboard_id=1,
    )
    hotel = ElectricComponent(
        type_=TypeComponent.OTHER_LOAD, name="hotel", power_type=TypePower.POWER_CONSUMER,
        rated_power=300, eff_curve=np.array([1.0]), switchboard_id=1,
    )
    return ElectricPowerSystem("battery electric", [battery, drive, hotel], [])


class StorageOn(SimulationInterface):
    """What a power management for this plant has to do: the battery carries the bus."""

    def set_status(self, *, power_kw_per_switchboard, electric_power_system, time_interval_s,
                   power_source_priority=None):
        n = max(len(v) for v in power_kw_per_switchboard.values())
        for unit in electric_power_system.energy_storage:
            unit.status = np.ones(n).astype(bool)
            unit.load_sharing_mode = np.zeros(n)


profile = pd.Series([1000.0, 1200.0, 500.0, 1500.0], index=[0.0, 10.0, 25.0, 100.0])
expected_mj = float((profile.values[:-1] * np.diff(profile.index.to_numpy())).sum() / 1000)

# the plant is legal for FEEMS: with a hand-written power management the calculation runs
calc = MachineryCalculation(feems_system=plant(), pms=StorageOn())
res = calc.calculate_machinery_system_output_from_propulsion_power_time_series(
    propulsion_power=profile, auxiliary_power_kw=100.0
)
print(f"with a hand-written power management: duration {res.duration_s} s, propulsion energy "
      f"{res.energy_consumption_propulsion_total_mj:.2f} MJ (demanded {expected_mj:.2f}), "
      f"energy taken from the battery {-res.energy_stored_total_mj:.2f} MJ")

try:
    calc = MachineryCalculation(feems_system=plant())
    res = calc.calculate_machinery_system_output_from_propulsion_power_time_series(
        propulsion_power=profile, auxiliary_power_kw=100.0
    )
except Exception as exc:
    print(f"default MachineryCalculation: REFUSED with {type(exc).__name__}: {exc}")
    print("VIOLATED: the plant type has no input route at all")
    sys.exit(1)
ok = np.isclose(res.energy_consumption_propulsion_total_mj, expected_mj) and np.isfinite(res.energy_stored_total_mj) \
    and res.energy_stored_total_mj < 0
print("default MachineryCalculation:", res.energy_consumption_propulsion_total_mj, res.energy_stored_total_mj)
sys.exit(0 if ok else 1)
