"""C16 finding 4: a ship-simulation (Gymir) result read from its CSV form loses the first sample when the
time starts at 0 s: the first interval of the profile disappears, so the Gymir route disagrees with the
other routes for the same profile. (The same file shifted by one second is read completely.)"""
import io
import logging
import sys

import numpy as np
import pandas as pd

from feems.components_model import Engine, ElectricMachine, Genset, ElectricComponent
from feems.system_model import ElectricPowerSystem
from feems.types_for_feems import TypeComponent, TypePower, NOxCalculationMethod
from MachSysS.convert_gymir_result_to_proto import GymirResultConverter
from RunFeemsSim.machinery_calculation import MachineryCalculation

logging.disable(logging.CRITICAL)
BSFC = np.array([[1.00, 0.75, 0.50, 0.25, 0.10], [193.66, 188.995, 194.47, 211.4, 250]]).T


def plant():
    def genset(name):
        engine = Engine(
            type_=TypeComponent.AUXILIARY_ENGINE, name=name + " engine", rated_power=1600, rated_speed=1500,
            bsfc_curve=BSFC, nox_calculation_method=NOxCalculationMethod.TIER_2,
        )
        generator = ElectricMachine(
            type_=TypeComponent.GENERATOR, name=name + " generator", rated_power=1500, rated_speed=1500,
            power_type=TypePower.POWER_SOURCE, switchboard_id=1, eff_curve=np.array([0.95]),
        )
        return Genset(name, engine, generator)

    drive = ElectricComponent(
        type_=TypeComponent.PROPULSION_DRIVE, name="drive", power_type=TypePower.POWER_CONSUMER,
        rated_power=2000, eff_curve=np.array([0.95]), switchboard_id=1,
    )
    hotel = ElectricComponent(
        type_=TypeComponent.OTHER_LOAD, name="hotel", power_type=TypePower.POWER_CONSUMER,
        rated_power=300, eff_curve=np.array([1.0]), switchboard_id=1,
    )
    return ElectricPowerSystem("electric", [genset("g1"), genset("g2"), drive, hotel], [])


power_kw = np.array([1800.0, 600.0, 900.0, 0.0])
aux_kw = 100.0
violated = False
for start in (1.0, 0.0):
    time_s = start + np.array([0.0, 600.0, 700.0, 1000.0])
    # the CSV form of a Gymir result: epoch, quantity, value
    csv = "".join(f"{t},power,{p}\n{t},speed,12.0\n" for t, p in zip(time_s, power_kw))
    converter = GymirResultConverter()
    converter.read_csv(io.StringIO(csv), auxiliary_load_kw=aux_kw, name="voyage")
    gymir = converter.gymir_result
    res_gymir = MachineryCalculation(feems_system=plant()).calculate_machinery_system_output_from_gymir_result(
        gymir_result=gymir
    )
    res_series = MachineryCalculation(
        feems_system=plant()
    ).calculate_machinery_system_output_from_propulsion_power_time_series(
        propulsion_power=pd.Series(power_kw, index=time_s), auxiliary_power_kw=aux_kw
    )
    print(f"profile starting at {start} s: {len(gymir.result)} of {len(time_s)} samples in the Gymir message")
    print(f"  Gymir route : duration {res_gymir.duration_s:7.1f} s, fuel {res_gymir.fuel_consumption_total_kg:.3f} kg, "
          f"propulsion energy {res_gymir.energy_consumption_propulsion_total_mj:.1f} MJ")
    print(f"  series route: duration {res_series.duration_s:7.1f} s, fuel {res_series.fuel_consumption_total_kg:.3f} kg, "
          f"propulsion energy {res_series.energy_consumption_propulsion_total_mj:.1f} MJ")
    if not (
        np.isclose(res_gymir.duration_s, res_series.duration_s)
        and np.isclose(res_gymir.fuel_consumption_total_kg, res_series.fuel_consumption_total_kg)
    ):
        violated = True

if violated:
    print("VIOLATED: the same profile gives other results on the Gymir route (first sample at 0 s is dropped)")
    sys.exit(1)
print("property holds")
sys.exit(0)
