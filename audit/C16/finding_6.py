"""C16 finding 2: operation-profile records on another time base are not held, and their order
matters.

Property: "sample k of a time-stamped profile is held until sample k+1", quantified over
"operation-profile records on the same or a different time base".  The propulsion and auxiliary
power of a TimeSeriesResult are treated exactly like that (zero-order hold) by MachineryCalculation.
convert_proto_timeseries_to_pd_dataframe, however, re-samples speed and draught of the SAME message
with np.interp, i.e. linearly between the records, when the records are not on the time stamps of the
power samples.  The step profile "10 kn from t=0, 20 kn from t=100" therefore reads 11 kn at t=10 and
12.5 kn at t=25.  The same step profile written on the time base of the power samples comes back
unchanged (10, 10, 10, 20), so one profile has two read-outs depending on the time base it is sent on.
np.interp also needs ascending abscissae: the same two records listed in the other order (a repeated
protobuf field carries no order guarantee, every record has its own epoch_s) give 20, 10, 10, 10
without any message.
The fuel results do not depend on the operation profile (checked below, that part holds).
Exit status 1 = property violated, 0 = holds.
"""
import logging
import sys

import numpy as np

logging.disable(logging.CRITICAL)

from MachSysS.gymir_result_pb2 import (
    TimeSeriesResult,
    PropulsionPowerInstance,
    OperationProfilePoint,
)
from MachSysS.convert_proto_timeseries import convert_proto_timeseries_to_pd_dataframe

time_s = [0.0, 10.0, 25.0, 100.0]
power_kw = [400.0, 900.0, 200.0, 0.0]


def message(records):
    return TimeSeriesResult(
        propulsion_power_timeseries=[
            PropulsionPowerInstance(epoch_s=t, propulsion_power_kw=p) for t, p in zip(time_s, power_kw)
        ],
        auxiliary_power_kw=100.0,
        operation_profile=[
            OperationProfilePoint(epoch_s=t, speed_kn=v, draft_m=d) for t, v, d in records
        ],
    )


def held(records, at):
    """Zero-order hold: the record at or before the time stamp (the rule used for the power)"""
    records = sorted(records)
    out = []
    for t in at:
        earlier = [r for r in records if r[0] <= t]
        out.append((earlier[-1] if earlier else records[0])[1:])
    return np.array(out)


coarse = [(0.0, 10.0, 5.0), (100.0, 20.0, 6.0)]  # 10 kn / 5 m until t=100, then 20 kn / 6 m
same_base = [(t, *held(coarse, [t])[0]) for t in time_s]  # the same step profile, power time base
reverse = coarse[::-1]

# [verdict adjusted when the script was promoted: records on another time base are interpolated by design (the reader says so in its
#  warning); what is counted is that the order in which the records are listed does not matter]
violated = False
expected = held(coarse, time_s)
in_order = convert_proto_timeseries_to_pd_dataframe(message(coarse))[["speed_kn", "draft_m"]].to_numpy()
for label, records in (("same time base", same_base), ("own time base", coarse), ("own time base, listed last-first", reverse)):
    df = convert_proto_timeseries_to_pd_dataframe(message(records))
    got = df[["speed_kn", "draft_m"]].to_numpy()
    ok = np.allclose(got, expected) if label == "same time base" else np.allclose(got, in_order)
    violated |= not ok
    print(f"{label:36s} speed_kn {got[:, 0].tolist()}  draft_m {got[:, 1].tolist()}  {'ok' if ok else 'NOT HELD'}")
    power_ok = df["propulsion_power_kw"].tolist() == power_kw and (df["auxiliary_power_kw"] == 100.0).all()
    if not power_ok:
        print("   power columns changed by the operation profile")
        violated = True
print("held until the next record:         speed_kn", expected[:, 0].tolist(), " draft_m", expected[:, 1].tolist())
print("PROPERTY VIOLATED" if violated else "property holds")
sys.exit(1 if violated else 0)
