"""C16 finding 1: a scalar auxiliary power given as a 0-d numpy array is refused.

The property quantifies over "scalar or per-sample auxiliary power ... given as one value or as
a series".  MachineryCalculation's own type (Numeric = int | float | np.ndarray) admits a numpy
array; np.array(100.0) / np.asarray(100.0) (what xarray's .values, np.asarray(x), arr.sum(keepdims)
[()] etc. hand out) is ONE value.  The time-series route and the operating-point route raise
TypeError("len() of unsized object") for it, although np.float64(100), [100.], np.array([100.])
all work and give the result of the python float.
Exit status 1 = property violated (refused or different result), 0 = holds.
"""
import logging
import sys

import numpy as np
import pandas as pd

logging.disable(logging.CRITICAL)

from feems.components_model.component_electric import ElectricComponent, ElectricMachine, Genset
from feems.components_model.component_mechanical import Engine
from feems.system_model import ElectricPowerSystem
from feems.types_for_feems import TypeComponent, TypePower, NOxCalculationMethod
from RunFeemsSim.machinery_calculation import MachineryCalculation

BSFC = np.array([[1.00, 0.75, 0.50, 0.25, 0.10], [193.66, 188.995, 194.47, 211.4, 250]]).T


def plant() -> ElectricPowerSystem:
    def genset(name):
        engine = Engine(
            type_=TypeComponent.AUXILIARY_ENGINE, name="engine " + name, rated_power=1050,
            rated_speed=900, bsfc_curve=BSFC, nox_calculation_method=NOxCalculationMethod.TIER_2,
        )
        generator = ElectricMachine(
            type_=TypeComponent.GENERATOR, name="generator " + name, rated_power=1000,
            rated_speed=900, power_type=TypePower.POWER_SOURCE, switchboard_id=1,
            eff_curve=np.array([0.95]),
        )
        return Genset(name, engine, generator)

    drive = ElectricComponent(
        type_=TypeComponent.PROPULSION_DRIVE, name="drive", power_type=TypePower.POWER_CONSUMER,
        rated_power=1500, eff_curve=np.array([0.9]), switchboard_id=1,
    )
    hotel = ElectricComponent(
        type_=TypeComponent.OTHER_LOAD, name="hotel", power_type=TypePower.POWER_CONSUMER,
        rated_power=500, eff_curve=np.array([1.0]), switchboard_id=1,
    )
    return ElectricPowerSystem("plant", [genset("g1"), genset("g2"), drive, hotel], [])


time_s = np.array([0.0, 10.0, 25.0, 100.0])
power_kw = np.array([400.0, 900.0, 200.0, 9999.0])  # the last sample only closes the interval


def series_route(aux):
    return MachineryCalculation(feems_system=plant()).calculate_machinery_system_output_from_propulsion_power_time_series(
        propulsion_power=pd.Series(power_kw, index=time_s), auxiliary_power_kw=aux
    )


def points_route(aux):
    return MachineryCalculation(feems_system=plant()).calculate_machinery_system_output_from_statistics(
        propulsion_power=power_kw[:-1], frequency=np.diff(time_s), auxiliary_power_kw=aux
    )


violated = False
for route_name, route in (("time series", series_route), ("operating points", points_route)):
    reference = route(100.0).fuel_consumption_total_kg
    print(f"[{route_name}] auxiliary power 100.0 (float): fuel {reference:.9f} kg")
    for label, aux in (
        ("np.float64(100)", np.float64(100.0)),
        ("np.array([100.])", np.array([100.0])),
        ("np.array(100.) (0-d)", np.array(100.0)),
    ):
        try:
            fuel = route(aux).fuel_consumption_total_kg
        except Exception as error:  # noqa
            print(f"[{route_name}] auxiliary power {label}: REFUSED {type(error).__name__}: {error}")
            violated = True
            continue
        same = np.isclose(fuel, reference, rtol=1e-12)
        print(f"[{route_name}] auxiliary power {label}: fuel {fuel:.9f} kg {'ok' if same else 'DIFFERENT'}")
        violated |= not same

print("PROPERTY VIOLATED" if violated else "property holds")
sys.exit(1 if violated else 0)
