"""C16 finding 3: a Gymir result written with GymirResultConverter.to_csv and read back with
read_csv is not the same profile: time stamps come back changed in the last digit.

to_csv writes every double with its shortest exact text (f"{value}").  read_csv parses the file with
pd.read_csv's default float parser, which is not correctly rounded ("high" precision, not
"round_trip"), so about one time stamp in seven of a present-day epoch (1.6e9 s with a fractional
part) comes back one unit in the last place off (2.4e-7 s).  The power column is parsed by python's
float() (the column is of object type because of the text rows) and is exact.  With samples 0.1 s
apart the intervals change by 2e-6 relative, and fuel, duration and running hours of the SAME
profile differ by about 1e-7 relative between "Gymir result message" and "Gymir result CSV".
Exit status 1 = property violated (round trip not identical / results differ), 0 = holds.
"""
import logging
import os
import random
import sys
import tempfile

import numpy as np

logging.disable(logging.CRITICAL)

from feems.components_model.component_electric import ElectricComponent, ElectricMachine, Genset
from feems.components_model.component_mechanical import Engine
from feems.system_model import ElectricPowerSystem
from feems.types_for_feems import TypeComponent, TypePower, NOxCalculationMethod
from MachSysS.gymir_result_pb2 import GymirResult, SimulationInstance
from MachSysS.convert_gymir_result_to_proto import GymirResultConverter
from RunFeemsSim.machinery_calculation import MachineryCalculation

BSFC = np.array([[1.00, 0.75, 0.50, 0.25, 0.10], [193.66, 188.995, 194.47, 211.4, 250]]).T


def plant() -> ElectricPowerSystem:
    def genset(name):
        engine = Engine(
            type_=TypeComponent.AUXILIARY_ENGINE, name="engine " + name, rated_power=1050,
            rated_speed=900, bsfc_curve=BSFC, nox_calculation_method=NOxCalculationMethod.TIER_2,
        )
        generator = ElectricMachine(
            type_=TypeComponent.GENERATOR, name="generator " + name, rated_power=1000,
            rated_speed=900, power_type=TypePower.POWER_SOURCE, switchboard_id=1,
            eff_curve=np.array([0.95]),
        )
        return Genset(name, engine, generator)

    drive = ElectricComponent(
        type_=TypeComponent.PROPULSION_DRIVE, name="drive", power_type=TypePower.POWER_CONSUMER,
        rated_power=1500, eff_curve=np.array([0.9]), switchboard_id=1,
    )
    hotel = ElectricComponent(
        type_=TypeComponent.OTHER_LOAD, name="hotel", power_type=TypePower.POWER_CONSUMER,
        rated_power=500, eff_curve=np.array([1.0]), switchboard_id=1,
    )
    return ElectricPowerSystem("plant", [genset("g1"), genset("g2"), drive, hotel], [])


random.seed(3)
gymir_result = GymirResult(
    name="voyage",
    auxiliary_load_kw=123.456,
    result=[
        SimulationInstance(
            epoch_s=1604188800 + 0.1 * index + 0.05 * random.random(),  # irregular time stamps
            power_kw=1400 * random.random(),
            task_type="sailing", task_name="leg 1", weather_source="none",
        )
        for index in range(50)
    ],
)
with tempfile.TemporaryDirectory() as folder:
    path = os.path.join(folder, "gymir.csv")
    GymirResultConverter(gymir_result=gymir_result).to_csv(path)
    converter = GymirResultConverter()
    converter.read_csv(path, auxiliary_load_kw=gymir_result.auxiliary_load_kw, name=gymir_result.name)
    read_back = converter.gymir_result

changed_time = [
    (a.epoch_s, b.epoch_s) for a, b in zip(gymir_result.result, read_back.result) if a.epoch_s != b.epoch_s
]
changed_power = sum(a.power_kw != b.power_kw for a, b in zip(gymir_result.result, read_back.result))
print(f"samples {len(gymir_result.result)} -> {len(read_back.result)}, time stamps changed: "
      f"{len(changed_time)}, powers changed: {changed_power}")
for before, after in changed_time[:3]:
    print(f"   epoch_s {before!r} -> {after!r}")

res_message = MachineryCalculation(feems_system=plant()).calculate_machinery_system_output_from_gymir_result(
    gymir_result=gymir_result
)
res_csv = MachineryCalculation(feems_system=plant()).calculate_machinery_system_output_from_gymir_result(
    gymir_result=read_back
)
violated = read_back != gymir_result
for label, a, b in (
    ("fuel kg", res_message.fuel_consumption_total_kg, res_csv.fuel_consumption_total_kg),
    ("duration s", res_message.duration_s, res_csv.duration_s),
    ("genset hours", res_message.running_hours_genset_total_hr, res_csv.running_hours_genset_total_hr),
):
    print(f"{label:13s} message {a!r}  csv {b!r}  relative difference {abs(a - b) / abs(a):.2e}")
    violated |= not np.isclose(a, b, rtol=1e-12, atol=0)
print("PROPERTY VIOLATED" if violated else "property holds")
sys.exit(1 if violated else 0)
