"""C16 finding 1: a propulsion-power time series whose time stamps are pandas time stamps
(DatetimeIndex) or time offsets (TimedeltaIndex) is refused with a TypeError from deep inside
the integration, while the same profile with float epoch seconds is calculated.

Run: PYTHONPATH=<wt>/feems:<wt>/machinery-system-structure:<wt>/RunFEEMSSim /venv/bin/python finding_1.py
Exit status 1 = property violated, 0 = holds.
"""
import logging
import sys

import numpy as np
import pandas as pd

logging.disable(logging.CRITICAL)

from feems.components_model.component_electric import ElectricComponent, ElectricMachine, Genset
from feems.components_model.component_mechanical import Engine
from feems.system_model import ElectricPowerSystem
from feems.types_for_feems import TypeComponent, TypePower
import MachSysS.gymir_result_pb2 as pg
from RunFeemsSim.machinery_calculation import MachineryCalculation

BSFC = np.array([[0.25, 230.0], [0.5, 210.0], [0.75, 200.0], [1.0, 205.0]])
GEN_EFF = np.array([[0.25, 0.93], [0.5, 0.95], [0.75, 0.96], [1.0, 0.96]])


def genset(name, p, swb):
    eng = Engine(type_=TypeComponent.AUXILIARY_ENGINE, name=name + " engine",
                 rated_power=p / 0.96, rated_speed=900, bsfc_curve=BSFC)
    gen = ElectricMachine(type_=TypeComponent.GENERATOR, name=name + " generator",
                          rated_power=p, rated_speed=900, power_type=TypePower.POWER_SOURCE,
                          switchboard_id=swb, eff_curve=GEN_EFF)
    return Genset(name, eng, gen)


def consumer(name, p, swb, type_):
    return ElectricComponent(type_=type_, name=name, power_type=TypePower.POWER_CONSUMER,
                             rated_power=p, eff_curve=np.array([0.95]), switchboard_id=swb)


def plant():
    return ElectricPowerSystem(
        "plant",
        [genset("g1", 1000, 1), genset("g2", 700, 2),
         consumer("drive 1", 800, 1, TypeComponent.PROPULSION_DRIVE),
         consumer("drive 2", 800, 2, TypeComponent.PROPULSION_DRIVE),
         consumer("hotel", 400, 1, TypeComponent.OTHER_LOAD)],
        [(1, 2)],
    )


def numbers(res):
    return np.array([res.duration_s, res.fuel_consumption_total_kg,
                     res.co2_emission_total_kg.tank_to_wake_kg_or_gco2eq_per_gfuel,
                     res.running_hours_genset_total_hr,
                     res.energy_consumption_propulsion_total_mj,
                     res.energy_consumption_auxiliary_total_mj], dtype=float)


# one profile: 5 samples, irregular time stamps (seconds since 1970-01-01)
epoch_s = 1.7e9 + np.array([0.0, 100.0, 250.0, 1000.0, 1010.0])
power_kw = np.array([500.0, 900.0, 100.0, 700.0, 50.0])
aux_kw = 120.0

# reference routes: Gymir result, protobuf time series, operating points, float-stamped series
gymir = pg.GymirResult(auxiliary_load_kw=aux_kw)
for t, p in zip(epoch_s, power_kw):
    gymir.result.add(epoch_s=t, power_kw=p)
ref = numbers(MachineryCalculation(plant()).calculate_machinery_system_output_from_gymir_result(
    gymir_result=gymir))
same = numbers(MachineryCalculation(plant()).calculate_machinery_system_output_from_propulsion_power_time_series(
    propulsion_power=pd.Series(power_kw, index=epoch_s), auxiliary_power_kw=aux_kw))
assert np.allclose(ref, same, rtol=1e-12), "float-stamped series disagrees with the Gymir route"
print("Gymir route / float-stamped series :", ref)

violated = False
for label, index in [
    ("DatetimeIndex (pd.to_datetime(epoch, unit='s'))", pd.to_datetime(epoch_s, unit="s")),
    ("TimedeltaIndex (offset from the first sample)", pd.to_timedelta(epoch_s - epoch_s[0], unit="s")),
]:
    series = pd.Series(power_kw, index=index)
    try:
        got = numbers(
            MachineryCalculation(plant()).calculate_machinery_system_output_from_propulsion_power_time_series(
                propulsion_power=series, auxiliary_power_kw=aux_kw))
    except Exception as exc:  # noqa
        print(f"{label}: REFUSED with {type(exc).__name__}: {exc}")
        violated = True
        continue
    if np.allclose(got, ref, rtol=1e-9):
        print(f"{label}: same results")
    else:
        print(f"{label}: DIFFERENT results {got}")
        violated = True

if violated:
    print("PROPERTY VIOLATED: the same time-stamped profile is not calculated when its time "
          "stamps are pandas time stamps")
    sys.exit(1)
print("property holds")
sys.exit(0)
